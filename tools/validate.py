#!/usr/bin/env python3
# validates MANIFEST.json and every evidence file against the schemas (run with python3-vt)
import json, jsonschema, glob, sys
m = json.load(open('/verif/MANIFEST.json'))
jsonschema.validate(m, json.load(open('/root/.vp/MANIFEST.schema.json')))
es = json.load(open('/root/.vp/EVIDENCE.schema.json'))
props = [json.loads(l)['id'] for l in open('/verif/properties.jsonl')]
claimed = [c['property_id'] for c in m['checks']]
na = [c['property_id'] for c in m.get('not_applicable', [])]
missing = [p for p in props if p not in claimed and p not in na]
print('manifest ok; claimed', len(claimed), 'not_applicable', len(na), 'unlisted', missing)
for c in m['checks']:
    try:
        e = json.load(open(c['evidence_file']))
        jsonschema.validate(e, es)
    except Exception as ex:
        print('EVIDENCE PROBLEM', c['property_id'], str(ex)[:200])
print('evidence checked')
