#!/usr/bin/env python3
"""Runs every check (-prop all) on each behaviour-preserving refactoring in /verif/refactors
applied to a scratch worktree of /repo. Any FAIL/UNDECIDED line is a false alarm.
usage: refactor_checks.py [substring] [-j N]"""
import glob, os, subprocess, sys, shutil
from concurrent.futures import ThreadPoolExecutor

def sh(cmd, cwd=None):
    env = dict(os.environ, GOFLAGS="-mod=mod", GOPROXY="off")
    for k in ("GOTOOLCHAIN", "GOSUMDB", "GOWORK"):
        env.pop(k, None)
    p = subprocess.run(cmd, shell=True, cwd=cwd, env=env, capture_output=True, text=True)
    return p.returncode, p.stdout + p.stderr

def one(patch):
    name = os.path.basename(patch)[:-5]
    wt = "/tmp/rf_" + name
    tv = "/tmp/rfv_" + name
    sh("git -C /repo worktree remove --force " + wt)
    shutil.rmtree(wt, ignore_errors=True)
    rc, out = sh("git -C /repo worktree add -q --detach %s HEAD" % wt)
    try:
        rc, out = sh("git apply " + patch, cwd=wt)
        if rc != 0:
            return name, ["PATCH DOES NOT APPLY " + out[:200]], []
        shutil.rmtree(tv, ignore_errors=True)
        os.makedirs(tv + "/evidence")
        shutil.copy("/verif/known-findings.txt", tv)
        rc, out = sh("/verif/bin/verifcheck -prop all -repo %s -verif %s" % (wt, tv))
        alarms = [l[:300] for l in out.splitlines() if l.startswith(("FAIL", "UNDECIDED"))]
        rc, out = sh("/verif/bin/verifcheck -prop C01 -norm list -repo %s" % wt)
        notes = [l for l in out.splitlines() if l.startswith(("note", "kept"))]
        return name, alarms, notes
    finally:
        sh("git -C /repo worktree remove --force " + wt)
        shutil.rmtree(wt, ignore_errors=True)
        shutil.rmtree(tv, ignore_errors=True)

def main():
    args = sys.argv[1:]
    j = 4
    if "-j" in args:
        i = args.index("-j"); j = int(args[i+1]); del args[i:i+2]
    only = args[0] if args else ""
    patches = [p for p in sorted(glob.glob("/verif/refactors/*.diff")) if only in p]
    total = 0
    with ThreadPoolExecutor(max_workers=j) as ex:
        for name, alarms, notes in ex.map(one, patches):
            print("=== %s alarms=%d" % (name, len(alarms)))
            for a in alarms[:14]:
                print(a)
            for n in notes:
                print("   " + n[:240])
            total += len(alarms)
            sys.stdout.flush()
    print("TOTAL alarms=%d over %d refactorings" % (total, len(patches)))

if __name__ == "__main__":
    main()
