#!/usr/bin/env python3
"""Regenerates the table of DESIGN.md §11 from seeded/*/meta.json (between the table header and the next blank line)."""
import json, glob, os, re
rows = []
for d in sorted(glob.glob('/verif/seeded/*/')):
    m = json.load(open(d + 'meta.json'))
    det = m.get('detection', {})
    own = m['property']
    ob = (det.get('failing_obligations', {}).get(own) or [''])[0]
    mm = re.match(r'(FAIL|UNDECIDED)\s+(\S+)', ob)
    rule = mm.group(2) if mm else ('(own check silent)' if det else '')
    fp = m.get('first_pass')
    if fp is None:
        first = 'round 1 (see text)'
    else:
        first = ('own check fired' if fp['own_property_check_fired'] else ('only ' + ', '.join(fp['checks_that_fired']) if fp['checks_that_fired'] else 'missed by every check'))
    rows.append('| %s | %s | %s | %s | %s |' % (os.path.basename(d.rstrip('/')), own, first, ', '.join(det.get('properties_whose_check_fires', [])) or '—', rule))
p = '/verif/DESIGN.md'
s = open(p).read()
hdr = '| seeded change | breaks | first pass (held out) | checks that fire now | rule of the own property |\n|---|---|---|---|---|\n'
i = s.index(hdr) + len(hdr)
j = s.index('\n\n', i)
s = s[:i] + '\n'.join(rows) + s[j:]
open(p, 'w').write(s)
print(len(rows), 'rows')
