#!/usr/bin/env python3
"""Confirms a seeded breaking change and records it under /verif/seeded/<name>/.

usage: verify_seed.py <prop> <name> <srcdir> <demo_pkg_dir> <run_regex> [--race] [--checks C01,C13]

<srcdir> must contain patch.diff and the demo *_test.go file(s).
Steps (all in a scratch worktree of /repo under /tmp, removed afterwards):
  1. apply patch.diff, `go build ./...`
  2. run the pinned suite, compare with BASELINE stable_pass
  3. copy the demo into <demo_pkg_dir>, run it: must FAIL with the change
  4. revert the patch, run the demo again: must PASS
  5. run the /verif checks for the property (and --checks) against the patched tree
"""
import json, os, shutil, subprocess, sys, glob, time

def sh(cmd, cwd=None, timeout=3000):
    env = dict(os.environ, GOFLAGS="-mod=mod", GOPROXY="off")
    for k in ("GOTOOLCHAIN", "GOSUMDB", "GOWORK"):
        env.pop(k, None)
    p = subprocess.run(cmd, shell=True, cwd=cwd, env=env, capture_output=True, text=True, timeout=timeout)
    return p.returncode, p.stdout + p.stderr

def main():
    args = [a for a in sys.argv[1:] if not a.startswith("--")]
    prop, name, src, pkgdir, regex = args[:5]
    race = "--race" in sys.argv
    checks = [prop]
    for a in sys.argv:
        if a.startswith("--checks="):
            checks = a.split("=", 1)[1].split(",")
    wt = "/tmp/vs_" + name
    sh("git -C /repo worktree remove --force %s" % wt)
    rc, out = sh("git -C /repo worktree add --detach %s HEAD" % wt)
    assert rc == 0, out
    meta = {"property": prop, "name": name, "ran": []}
    try:
        patch = os.path.join(src, "patch.diff")
        rc, out = sh("git apply %s" % patch, cwd=wt)
        assert rc == 0, "patch does not apply: " + out
        rc, out = sh("go build ./...", cwd=wt)
        meta["ran"].append({"cmd": "git apply patch.diff && go build ./...", "rc": rc})
        assert rc == 0, "does not build: " + out[-2000:]
        # suite
        rc, out = sh("go test -json -vet=off -count=1 -timeout 25m ./...", cwd=wt)
        res = {}
        for l in out.splitlines():
            try:
                e = json.loads(l)
            except Exception:
                continue
            if e.get("Action") in ("pass", "fail") and e.get("Test"):
                res[e["Package"] + "::" + e["Test"]] = e["Action"]
        base = json.load(open("/root/.vp/BASELINE.json"))["stable_pass"]
        bad = [t for t in base if res.get(t) != "pass"]
        if bad:
            # retry the affected packages once (port collisions / timing under load)
            pk = sorted(set(t.split("::")[0] for t in bad))
            time.sleep(5)
            rc2, out2 = sh("go test -json -vet=off -count=1 " + " ".join(pk), cwd=wt)
            for l in out2.splitlines():
                try:
                    e = json.loads(l)
                except Exception:
                    continue
                if e.get("Action") in ("pass", "fail") and e.get("Test"):
                    res[e["Package"] + "::" + e["Test"]] = e["Action"]
            bad = [t for t in base if res.get(t) != "pass"]
        meta["suite_with_change"] = {"stable_pass_total": len(base), "not_passing": bad}
        meta["ran"].append({"cmd": "go test -json -vet=off -count=1 ./...  (with change)", "baseline_tests_not_passing": bad})
        # demo with change
        demos = [f for f in glob.glob(os.path.join(src, "*_test.go"))]
        assert demos, "no demo test file"
        for d in demos:
            shutil.copy(d, os.path.join(wt, pkgdir, os.path.basename(d)))
        flag = "-race " if race else ""
        cmd = "go test %s-vet=off -count=1 -run '%s' ./%s/" % (flag, regex, pkgdir)
        rc_with, out_with = sh(cmd, cwd=wt)
        meta["ran"].append({"cmd": cmd + "  (with change)", "rc": rc_with, "tail": out_with[-600:]})
        # checks against the patched tree
        for d in demos:
            os.remove(os.path.join(wt, pkgdir, os.path.basename(d)))
        tmpv = "/tmp/vsverif_" + name
        shutil.rmtree(tmpv, ignore_errors=True)
        os.makedirs(tmpv + "/evidence")
        shutil.copy("/verif/known-findings.txt", tmpv)
        det = {}
        for ck in checks:
            rc, out = sh("/verif/bin/verifcheck -prop %s -repo %s -verif %s" % (ck, wt, tmpv))
            fails = [l[:400] for l in out.splitlines() if l.startswith("FAIL") or l.startswith("UNDECIDED")]
            det[ck] = {"exit": rc, "failing_obligations": fails[:8]}
        meta["checks_on_changed_tree"] = det
        shutil.rmtree(tmpv, ignore_errors=True)
        # demo without change
        rc, out = sh("git checkout -- .", cwd=wt)
        for d in demos:
            shutil.copy(d, os.path.join(wt, pkgdir, os.path.basename(d)))
        rc_without, out_without = sh(cmd, cwd=wt)
        meta["ran"].append({"cmd": cmd + "  (without change)", "rc": rc_without, "tail": out_without[-300:]})
        meta["confirmed"] = (rc_with != 0 and rc_without == 0 and not bad)
        meta["demo_location"] = pkgdir
        meta["demo_run"] = cmd
    finally:
        sh("git -C /repo worktree remove --force %s" % wt)
        shutil.rmtree(wt, ignore_errors=True)
    dst = "/verif/seeded/" + name
    os.makedirs(dst, exist_ok=True)
    shutil.copy(os.path.join(src, "patch.diff"), dst)
    for d in glob.glob(os.path.join(src, "*_test.go")):
        shutil.copy(d, dst)
    if os.path.exists(os.path.join(src, "README.md")):
        shutil.copy(os.path.join(src, "README.md"), dst)
    old = {}
    if os.path.exists(dst + "/meta.json"):
        old = json.load(open(dst + "/meta.json"))
    for k in ("needs_to_manifest", "what"):
        if k in old:
            meta[k] = old[k]
    json.dump(meta, open(dst + "/meta.json", "w"), indent=1)
    print(json.dumps({"name": name, "confirmed": meta.get("confirmed"), "demo_with": rc_with, "demo_without": rc_without, "suite_bad": bad, "checks": {k: v["exit"] for k, v in det.items()}}, indent=1))
    for k, v in det.items():
        for f in v["failing_obligations"][:4]:
            print("   ", k, f[:300])

if __name__ == "__main__":
    main()
