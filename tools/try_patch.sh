#!/bin/sh
# usage: try_patch.sh <patch.diff> <prop> [<prop>...] : runs the checks against a scratch worktree with the patch applied
patch="$1"; shift
wt=/tmp/tp_$$
git -C /repo worktree add -q --detach $wt HEAD || exit 2
( cd $wt && git apply "$patch" ) || { echo "patch does not apply"; git -C /repo worktree remove --force $wt; exit 2; }
mkdir -p /tmp/tpv_$$/evidence; cp /verif/known-findings.txt /tmp/tpv_$$/
for p in "$@"; do
  /verif/bin/verifcheck -prop $p -repo $wt -verif /tmp/tpv_$$ | grep -E "^(FAIL|UNDECIDED|SUMMARY)" | cut -c1-420
done
git -C /repo worktree remove --force $wt; rm -rf /tmp/tpv_$$ $wt
