#!/usr/bin/env python3
"""Runs every check (one process, -prop all) against each seeded change applied to a scratch
worktree of /repo, and records in seeded/<name>/meta.json which checks fire.
usage: seed_checks.py [name-substring] [-j N]"""
import json, os, subprocess, sys, shutil, glob

def sh(cmd, cwd=None):
    env = dict(os.environ, GOFLAGS="-mod=mod", GOPROXY="off")
    for k in ("GOTOOLCHAIN", "GOSUMDB", "GOWORK"):
        env.pop(k, None)
    p = subprocess.run(cmd, shell=True, cwd=cwd, env=env, capture_output=True, text=True)
    return p.returncode, p.stdout + p.stderr

def one(d):
    name = os.path.basename(d.rstrip("/"))
    meta = json.load(open(d + "meta.json"))
    wt = "/tmp/sc_" + name
    sh("git -C /repo worktree remove --force " + wt)
    shutil.rmtree(wt, ignore_errors=True)
    rc, out = sh("git -C /repo worktree add --detach %s HEAD" % wt)
    try:
        rc, out = sh("git apply %spatch.diff" % d, cwd=wt)
        if rc != 0:
            rc, out = sh("git apply -3 %spatch.diff" % d, cwd=wt)
        if rc != 0:
            return (name, "PATCH DOES NOT APPLY", [])
        tmpv = "/tmp/scv_" + name
        shutil.rmtree(tmpv, ignore_errors=True)
        os.makedirs(tmpv + "/evidence")
        shutil.copy("/verif/known-findings.txt", tmpv)
        rc, out = sh("/verif/bin/verifcheck -prop all -repo %s -verif %s" % (wt, tmpv))
        # a property's block ends with its SUMMARY line; rules shared between properties keep
        # the id of their home property, so lines are attributed by block, not by rule id
        fired = {}
        block = []
        for l in out.splitlines():
            if l.startswith("FAIL") or l.startswith("UNDECIDED"):
                block.append(l[:500])
            elif l.startswith("SUMMARY property="):
                prop = l.split("=", 1)[1].split()[0]
                if block:
                    fired.setdefault(prop, []).extend(block)
                block = []
        shutil.rmtree(tmpv, ignore_errors=True)
        own = meta["property"]
        meta["detection"] = {
            "checker_commit": sh("git -C /verif rev-parse --short HEAD")[1].strip(),
            "own_property_check_fires": own in fired,
            "properties_whose_check_fires": sorted(fired.keys()),
            "failing_obligations": {k: v[:4] for k, v in fired.items()},
            "how": "git worktree of /repo HEAD + git apply patch.diff; bin/verifcheck -prop all -repo <worktree>",
        }
        json.dump(meta, open(d + "meta.json", "w"), indent=1)
        return (name, "DETECTED by " + ",".join(sorted(fired.keys())) if fired else "MISSED", fired.get(own, [])[:1], own in fired)
    finally:
        sh("git -C /repo worktree remove --force " + wt)
        shutil.rmtree(wt, ignore_errors=True)

def main():
    from concurrent.futures import ThreadPoolExecutor
    args = sys.argv[1:]
    j = 4
    if "-j" in args:
        i = args.index("-j"); j = int(args[i+1]); del args[i:i+2]
    only = args[0] if args else ""
    dirs = [d for d in sorted(glob.glob("/verif/seeded/*/")) if only in os.path.basename(d.rstrip("/"))]
    missed_own = 0
    with ThreadPoolExecutor(max_workers=j) as ex:
        for row in ex.map(one, dirs):
            name, verdict, exm = row[0], row[1], row[2]
            own = row[3] if len(row) > 3 else False
            if not own:
                missed_own += 1
            print("%-50s %s%s" % (name, verdict, "" if own else "   [own property check silent]"))
            for e in exm:
                print("      " + e[:260])
            sys.stdout.flush()
    print("TOTAL seeds=%d own-property-check-silent=%d" % (len(dirs), missed_own))

if __name__ == "__main__":
    main()
