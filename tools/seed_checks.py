#!/usr/bin/env python3
"""Runs every check (one process, -prop all) against each seeded change applied to a scratch
worktree of /repo, and records in seeded/<name>/meta.json which checks fire.
usage: seed_checks.py [name-substring]"""
import json, os, subprocess, sys, shutil, glob

def sh(cmd, cwd=None):
    env = dict(os.environ, GOFLAGS="-mod=mod", GOPROXY="off")
    for k in ("GOTOOLCHAIN", "GOSUMDB", "GOWORK"):
        env.pop(k, None)
    p = subprocess.run(cmd, shell=True, cwd=cwd, env=env, capture_output=True, text=True)
    return p.returncode, p.stdout + p.stderr

def main():
    only = sys.argv[1] if len(sys.argv) > 1 else ""
    rows = []
    for d in sorted(glob.glob("/verif/seeded/*/")):
        name = os.path.basename(d.rstrip("/"))
        if only and only not in name:
            continue
        meta = json.load(open(d + "meta.json"))
        wt = "/tmp/sc_" + name
        sh("git -C /repo worktree remove --force " + wt)
        rc, out = sh("git -C /repo worktree add --detach %s HEAD" % wt)
        try:
            rc, out = sh("git apply %spatch.diff" % d, cwd=wt)
            if rc != 0:
                rows.append((name, "PATCH DOES NOT APPLY", []))
                continue
            tmpv = "/tmp/scv_" + name
            shutil.rmtree(tmpv, ignore_errors=True)
            os.makedirs(tmpv + "/evidence")
            shutil.copy("/verif/known-findings.txt", tmpv)
            rc, out = sh("/verif/bin/verifcheck -prop all -repo %s -verif %s" % (wt, tmpv))
            fired = {}
            for l in out.splitlines():
                if l.startswith("FAIL") or l.startswith("UNDECIDED"):
                    parts = l.split()
                    rule = parts[1]
                    prop = rule.split(".")[0]
                    fired.setdefault(prop, []).append(l[:500])
            shutil.rmtree(tmpv, ignore_errors=True)
            own = meta["property"]
            meta["detection"] = {
                "checker_commit": sh("git -C /verif rev-parse --short HEAD")[1].strip(),
                "own_property_check_fires": own in fired,
                "properties_whose_check_fires": sorted(fired.keys()),
                "failing_obligations": {k: v[:4] for k, v in fired.items()},
                "how": "git worktree of /repo HEAD + git apply patch.diff; bin/verifcheck -prop all -repo <worktree>",
            }
            json.dump(meta, open(d + "meta.json", "w"), indent=1)
            rows.append((name, "DETECTED by " + ",".join(sorted(fired.keys())) if fired else "MISSED", fired.get(own, [])[:1]))
        finally:
            sh("git -C /repo worktree remove --force " + wt)
            shutil.rmtree(wt, ignore_errors=True)
    for name, verdict, ex in rows:
        print("%-45s %s" % (name, verdict))
        for e in ex:
            print("      " + e[:260])

if __name__ == "__main__":
    main()
