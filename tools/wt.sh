#!/bin/sh
# usage: wt.sh make <patch> <dir> | wt.sh rm <dir> : scratch worktree of /repo HEAD with a patch applied (debugging aid)
case "$1" in
make) git -C /repo worktree remove --force "$3" 2>/dev/null; rm -rf "$3"; git -C /repo worktree add -q --detach "$3" HEAD && (cd "$3" && git apply "$2") ;;
rm) git -C /repo worktree remove --force "$2"; rm -rf "$2" ;;
esac
