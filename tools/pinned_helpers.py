#!/usr/bin/env python3
"""Regenerates checker/rules/pinned_helpers.txt: the unexported functions (pkg.Recv.name) of the
tree the rules were confirmed against. Run only when rules are re-confirmed against a new tree."""
import os, re, subprocess
out = set()
for root, dirs, files in os.walk("/repo"):
    if "/vendor" in root or "/.git" in root:
        continue
    for f in files:
        if not f.endswith(".go") or f.endswith("_test.go"):
            continue
        rel = os.path.relpath(root, "/repo")
        for line in open(os.path.join(root, f), errors="replace"):
            m = re.match(r"^func (?:\(\s*\w*\s*\*?(\w+)(?:\[[^\]]*\])?\s*\) )?([a-z_]\w*)\s*[\(\[]", line)
            if m:
                recv, name = m.group(1), m.group(2)
                out.add("%s.%s%s" % (rel, recv + "." if recv else "", name))
open("/verif/checker/rules/pinned_helpers.txt", "w").write("\n".join(sorted(out)) + "\n")
print(len(out))
