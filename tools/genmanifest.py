#!/usr/bin/env python3
"""Regenerates /verif/MANIFEST.json from the table below (keeps it valid at all times).
Properties whose check is registered in the checker (bin/verifcheck -list) are claimed;
the others are listed under not_applicable with the reason given here."""
import json, subprocess, sys

CLAIMS = {
 # id: (level text, level note, technique)
 "C01": ("structural necessary conditions decided over all paths: lock discipline on trie nodes/count for every accessor (the all-interleavings clause), count +/- only under AddUnique/Remove success, pruning guarded by emptiness of the detached node and performed upward, pooled share-group list reset per iteration, matcher exhaustiveness (wildcard / multi-wildcard / share branch, query[1:] recursion); integrity of the per-subscriber counter chains that gate Trie.Unsubscribe (R11); no unclassified mutable state added to the types/packages the property rests on (rule C01.S, pinned symbol table); the matching relation over hashed words is not decided",
         "trusts go/ssa, VTA call graph for the t.lookup method value; 32-bit hash collisions of subscriber ids are outside the rules",
         "static analysis: must-held lockset dataflow + requires-propagation, SSA guard cut-sets, must-pass-through"),
 "C02": ("structural necessary conditions over all paths/call sites: fold-keyed maps confirm full-ssid equality (the permuted/repeated-filter clause), every state-changing call of the three MQTT handlers is cut off by channel-valid, authorised and not-extendable, failure exits return an error, SUBACK/UNSUBACK/error replies follow on every path, the trie is only reachable through the per-connection bookkeeping, self-exclusion filter shape; collision-chain integrity of the counters (slot dropped only for a single-entry chain, re-link, bypass), who-may-call on the per-connection bookkeeping, link request decoded into a zero value; no unclassified mutable state added to the types/packages the property rests on (rule C02.S, pinned symbol table); delivery multiplicities and payload equality are not decided",
         "trusts go/ssa; purity of security.Key accessors; VTA for who-may-call",
         "static analysis: identity-key (permutation-invariant fold) rule, SSA guard cut-sets, must-pass-through, who-may-call"),
 "C03": ("structural necessary conditions decided over all paths and call sites: guard cut-sets on Authorize and on every Authorize call site, permission table, Validate conjuncts, tenant binding of ssids; the bytes of the key handed out alias only buffers allocated during the call (whole decrypt chain), one accepted spelling per key (decode table), key predicate normal forms (HasPermission/IsMaster/IsExpired/SetPermission); contract refresh always stores the fresh answer; key text reaches the cipher unchanged; no unclassified mutable state added to the types/packages the property rests on (rule C03.S, pinned symbol table); the bit-path/hash arithmetic of key targets is not decided",
         "trusts go/types, go/ssa (x/tools v0.29.0) and the hand-confirmed rule tables in checker/rules; accessor purity of security.Key",
         "static analysis: SSA guard cut-sets (dominance/reachability), call-site table"),
 "C04": ("structural necessary conditions decided on every path of the merge code: LWW kernel of both crdt.Map implementations (overwrite only with the remote time, only under strict local<remote, always then; no aliasing of the remote slice), Add/Del guarded by the clock, value predicates as comparison normal forms (add bias on ties), accessor byte ranges, codec wire layouts of both backends, Volatile lock discipline incl. both locks in Merge; Add/Del never return before comparing stamps; Range is a full scan filtered by prefix; no unclassified mutable state added to the types/packages the property rests on (rule C04.S, pinned symbol table); commutativity/associativity over histories is not decided",
         "trusts go/ssa; purity of crdt.Value accessors; kelindar/binary string/slice layout",
         "static analysis: SSA guard cut-sets two-sided (only-if + if), comparison normal forms, codec op-sequence extraction, lockset dataflow"),
 "C13": ("structural necessary conditions: delta side of both merge kernels (zero exactly when not new, delete iff IsZero, keep otherwise), State.Merge nil/delta decision and accumulation over all subsets, pass-through of the delta by Swarm.merge/OnGossip/OnGossipBroadcast, and the mesh.GossipData.Merge return-value contract checked for every implementation (State.Merge violates it: recorded known finding); no unclassified mutable state added to the types/packages the property rests on (rule C13.S, pinned symbol table); relay termination is not decided",
         "trusts go/ssa; the mesh contract was read from the vendored weaveworks/mesh source",
         "static analysis: SSA guard cut-sets two-sided, return-value provenance, interface-contract rule"),
 "C05": ("structural necessary conditions: identity-key rule on the per-peer counters, Swarm.merge drives the routing callbacks from the in-place delta (two-sided guards IsAdded/IsRemoved ∧ counter transition ∧ active), Notify symmetry and synchronous broadcast on every path, offline cleanup, local-only fan-out of forwarded messages, GossipData.Merge contract (known finding); per-peer counters move only in the merge callback, the deadPeer stand-in is found by id (no type filter), the lost peer's own key is deleted before handlers can re-stamp the event; counter update independent of peer activity; Range full scan (SubscriptionsOf); no unclassified mutable state added to the types/packages the property rests on (rule C05.S, pinned symbol table); quiescence and transport schedules are not decided",
         "trusts go/ssa; callbacks are those assigned in broker.NewService",
         "static analysis: SSA guard cut-sets two-sided, must-pass-through, identity-key rule, interface-contract rule"),
 "C08": ("structural necessary conditions: the per-connection goroutine defers Close itself before reading and Close recovers in its own frame; every path through Close unsubscribes each counter, fires the will exactly once outside the loop, closes the socket; Close has a single (deferred) call site; identity-key rule on the per-connection counters; OnLastWill nil-safe, authorised, not extendable; who-may-call on the per-connection bookkeeping, presence notification rules (exactly one blocking notification per transition); no unclassified mutable state added to the types/packages the property rests on (rule C08.S, pinned symbol table); observable cleanup counts are not decided",
         "trusts go/ssa",
         "static analysis: must-pass-through, who-may-call, SSA guard cut-sets, identity-key rule"),
 "C14": ("structural necessary conditions: ban lookup cuts off decryption and success in Authorize; cache-coherence rule for the durable set (every store write is followed by invalidation of that key's cache entry on every path, propagated to callers up to the exported API); keyban handler two-sided guards and authorisation; on-disk location and close chain of the ban set; Notify ordering; expiry only for tombstones; one accepted spelling per key (bans are by text), no deletion from the durable set, request decoded into a zero value; read cache keyed by the item itself; key text unchanged to the cipher; no unclassified mutable state added to the types/packages the property rests on (rule C14.S, pinned symbol table); fsync policy and cross-broker timing are not decided",
         "trusts go/ssa; freecache/buntdb API contracts",
         "static analysis: must-pass-through with call-graph propagation (coherence), SSA guard cut-sets two-sided, reachability"),
 "C06": ("structural necessary conditions: every append of the storage scan is cut off by ID.Match, HasPrefix, Valid, the limit and the size cap; Query always ends in Frame.Limit; ID.Match compares every query word including the contract word at the right offsets and rejects short ids (tenant isolation under the colliding XOR prefix); entry key/value/expiry provenance; id layout agreement of writers and readers; sort/limit and window comparison normal forms; continuation Seek+Next; lookupQuery.Limit write-set, request decoded into a zero value; every return of Query lies behind the survey decision; no unclassified mutable state added to the types/packages the property rests on (rule C06.S, pinned symbol table); which messages exist at run time is not decided",
         "trusts go/ssa; badger iterator/key-order semantics; encoding/binary",
         "static analysis: SSA guard cut-sets, loop induction-variable range analysis, affine offset tables, comparison normal forms, must-pass-through"),
 "C07": ("structural necessary conditions: Store exactly under Stored ∧ AllowStore ∧ authorised (two-sided), once, for the message built for the request; TTL write set (retain marker / ttl option, two-sided); history Query exactly under AllowLoad, synchronous, with the subscribed ssid, channel window and last-or-1 limit; replay inside the handler and SUBACK after it; retention mapping in SSD.Store; lookupQuery.Limit write-set; every acknowledged subscribe reaches the replay decision; Query always surveys; typed-nil gossiper safety (stand-alone brokers); no unclassified mutable state added to the types/packages the property rests on (rule C07.S, pinned symbol table); replay contents are not decided",
         "trusts go/ssa; accessor purity",
         "static analysis: SSA guard cut-sets two-sided, write-set dataflow, argument provenance, no-goroutine / must-pass-through ordering"),
 "C10": ("structural necessary conditions: lock discipline on the write queue with write+reset of the queue in one write-locked section; write-once linearity of listener.Conn.Write; every one of the 14 encoders hands its writer exactly one Write per path and uses it for nothing else; pooled buffer Get/deferred Put; size refusal before the fixed-buffer copy; websocket write under its mutex; no goroutine/channel hand-off anywhere on the publish-to-transport path; pool hygiene for the packet buffers (nothing derived from a pooled buffer used after Put or outliving a deferred Put); no unclassified mutable state added to the types/packages the property rests on (rule C10.S, pinned symbol table); the arrival order itself is not decided",
         "trusts go/ssa; atomicity of one Write on the underlying connection",
         "static analysis: lockset dataflow, linearity (exactly-once) path analysis, use-set of the writer parameter, effect (go/send/select) scan"),
 "C17": ("structural necessary conditions: write-queue rules of C10; sniffer replay window, advance-by-copied, record-exactly-when-sniffing, reset; serve rewinds before hand-off exactly on the matched path; websocket reader dropped exactly at io.EOF, next message only when none is current, data frames only, reads into the caller's buffer; no unclassified mutable state added to the types/packages the property rests on (rule C17.S, pinned symbol table); chunking arithmetic for all inputs is not decided",
         "trusts go/ssa; bytes.Buffer and gorilla/websocket contracts",
         "static analysis: SSA guard cut-sets two-sided, store/argument provenance, dominance ordering, lockset dataflow"),
 "C11": ("structural necessary conditions: CreateKey/ExtendKey guard cut-sets (who may mint, SetTarget must succeed before encryption), provenance of copied fields and of target/expiry arguments, ordering of permission writes (master bit cleared last; extend cleared then AND with the request, nothing after), bit-subset analysis of access(), sibling rule that no read/write handler accepts an extendable key, permission accessor normal forms; salts drawn from crypto/rand, request decoded into a zero value, key predicate normal forms; no unclassified mutable state added to the types/packages the property rests on (rule C11.S, pinned symbol table); the runtime authority of the minted key is not decided",
         "trusts go/ssa; security.Key setters write only their field",
         "static analysis: SSA guard cut-sets, argument provenance, write-order dominance, constant bit-set analysis, sibling cross-check"),
 "C12": ("integrity-before-trust rule over every license.Cipher implementation: search of DecryptKey's reachable code for an authenticity primitive; all three ciphers lack one (three recorded known findings, design-level); the remaining tamper evidence (contract.Validate conjuncts and its presence on every Authorize success path) is checked; a new unauthenticated cipher or a weakened Validate is a new violation; salts of minted keys drawn from crypto/rand; one accepted spelling per key (decode table, key text unchanged to the cipher); no unclassified mutable state added to the types/packages the property rests on (rule C12.S, pinned symbol table); acceptance probabilities are not decided",
         "list of authenticity primitives; go/ssa; in-scope call graph",
         "static analysis: call-graph reachability of authenticity primitives, SSA guard cut-sets, comparison normal form"),
 "C15": ("structural necessary conditions: no error of the badger write API is dropped; Store acknowledges exactly the result of one synchronous DB.Update in which every entry is set (no asynchronous commit, no goroutine); Configure opens the configured directory on disk and nothing on the configure path deletes/truncates files; Close chain; entry key/value/expiry provenance; per-process id nonce drawn from crypto/rand; no unclassified mutable state added to the types/packages the property rests on (rule C15.S, pinned symbol table); badger's own recovery is not decided",
         "badger DB.Update commits synchronously (library contract); go/ssa",
         "static analysis: error-discipline rule, return-value provenance, effect scan over the in-scope call graph, must-pass-through"),
 "C18": ("structural necessary conditions: exactly one notifier call per admitted subscribe/unsubscribe (after the trie insert), broker notifier maps to the right presence event for direct subscribers; presence.Notify is a single blocking send and the queue has one consumer publishing synchronously (order preservation); status lookup is the unfiltered trie lookup reporting id/username of connections; changes enable/cancel go through PubSub with the same presence-ssid event; request decoded into a zero value; typed-nil gossiper safety; counter-chain integrity; no unclassified mutable state added to the types/packages the property rests on (rule C18.S, pinned symbol table); the notification stream as a function of history is not decided",
         "Go channel FIFO; go/ssa",
         "static analysis: SSA guard cut-sets two-sided, effect scan (go/select/send), single-consumer count over the call graph, argument provenance"),
 "C19": ("structural necessary conditions: message codec field order/widths on both sides and error discipline of the decoder; id layout table of NewID against its readers (inverted atomic sequence, nonce, word offsets, length); Peer.frame lock discipline with a fresh queue on swap and append on Send; send loop sends each Split chunk once in order and only stops on an empty chunk; Split counts all variable fields, only splits at i>0, returns f[:i]/f[i:]; per-process id nonce drawn from crypto/rand, pool hygiene for the pooled encoders; one serial flusher per peer; no unclassified mutable state added to the types/packages the property rests on (rule C19.S, pinned symbol table); id uniqueness across processes is not decided",
         "trusts go/ssa; kelindar/binary primitives; sync/atomic",
         "static analysis: codec op-sequence tables, affine offset tables, lockset dataflow, allocation freshness, SSA guard cut-sets, loop-exit analysis"),
 "C20": ("structural necessary conditions: every fixed-offset access in the license parsers is covered by a dominating length test; Parse strips exactly the dispatched two-character suffix; sibling agreement of the three DecryptKey (32-byte refusal before decode, decode error returned, key = decoded prefix) and EncryptKey (RawURLEncoding of 24 bytes); V1 writer/reader byte-range table and version suffixes; the base64 table accepts exactly the URL-safe alphabet and unknown bytes are an error; cipher objects written only while constructed (no memo/state in DecryptKey/EncryptKey); no unclassified mutable state added to the types/packages the property rests on (rule C20.S, pinned symbol table); cipher bijectivity is not decided",
         "trusts go/ssa; encoding/base64",
         "static analysis: constant-bounds vs dominating length-test rule, sibling cross-check, offset tables, store-set analysis of the decode table"),
 "C16": ("table agreement with MQTT 3.1.1 (tables transcribed from the standard inside the checker): per packet type the field layout extracted from the encoder equals the decoder's and the standard's, optional fields exactly under their flags, type codes consistent across writeHeader/Type()/dispatch, empty packets; known-bits provenance of the CONNECT flags byte and the fixed-header byte on both sides; remaining-length algorithm transcription and encodeLength on every writeHeader path; big-endian u16 and length-prefixed strings; decoder length guards not stricter than the MQTT minimum sizes; no unclassified mutable state added to the types/packages the property rests on (rule C16.S, pinned symbol table); byte values at the length boundaries as such are not decided",
         "the transcribed tables; go/ssa; QoS fields are 2 bits wide (property precondition)",
         "static analysis: codec layout extraction vs independent spec table, known-bits abstract interpretation, algorithm transcription check, must-pass-through"),
 "C09": ("structural necessary conditions: size check before the body allocation, bounds before slicing, clamped configuration; interprocedural tainted-size slice over every make site; recover at the per-connection root and in async.Repeat, listing of the unrecovered gossip roots; on everything reachable from those roots constant-offset accesses of wire-derived slices need a covering length test, carrier conversions are guarded at their boundaries, undecodable events are skipped; decoder error discipline; unchecked Merge assertions (two known findings); every custom DecodeTo codec returns success only after rv.Set; option-scanner termination condition (loop-carried key/value empty on re-entry); no unclassified mutable state added to the types/packages the property rests on (rule C09.S, pinned symbol table); memory/CPU inside third-party decoders and hangs are not decided",
         "trusts go/ssa; in-scope call graph; store-derived values are trusted",
         "static analysis: tainted-size backward slice, constant-bounds vs dominating length-test rule over call-graph reachability, SSA guard cut-sets, recover-in-own-frame rule"),
}

NOT_YET = "no sound structural rule implemented yet in this static-analysis framework (see DESIGN.md §4 for the clauses planned); behavioural clauses quantify over runtime values"

def main():
    try:
        out = subprocess.run(["/verif/bin/verifcheck", "-list"], capture_output=True, text=True).stdout.split()
    except Exception:
        out = []
    props = [json.loads(l)["id"] for l in open("/verif/properties.jsonl")]
    checks, na = [], []
    for p in props:
        if p in CLAIMS and p in out:
            text, note, tech = CLAIMS[p]
            checks.append({
                "property_id": p,
                "quick_cmd": "./check %s quick" % p,
                "thorough_cmd": "./check %s thorough" % p,
                "evidence_file": "/verif/evidence/%s.json" % p,
                "replay_cmd_template": "./check %s quick  # {path} lists the violated obligations with witness paths" % p,
                "engine": "verifcheck",
                "level_claimed": {"category": "other", "text": text, "design_ref": "DESIGN.md §4 " + p},
                "level_note": note,
                "technique": tech,
            })
        else:
            na.append({"property_id": p, "reason": NA.get(p, NOT_YET)})
    m = {
        "version": 1,
        "setup_cmd": "cd /verif/checker && unset GOTOOLCHAIN GOSUMDB GOWORK && GOFLAGS=-mod=mod GOPROXY=off go build -o /verif/bin/verifcheck ./cmd/verifcheck",
        "hooks": {
            "guard": "verif",
            "enable": "no hooks are needed: the checker analyses /repo's source as it is (go/packages + go/ssa); nothing is instrumented and no emitter code is executed",
            "baseline_off_cmd": "cd /repo && GOFLAGS=-mod=mod GOPROXY=off go test -json -vet=off -count=1 -timeout 25m ./...",
            "source_commits": [],
            "add_only": True,
        },
        "engines": [{
            "name": "verifcheck", "path": "checker",
            "serves_properties": [c["property_id"] for c in checks],
            "kind_free_text": "repository-specific static analyser over the type-checked program and its SSA form: guard cut-sets, must-pass-through ordering, lock discipline, who-may-call over the VTA call graph, identity-key, tainted-size, codec/bit tables, comparison normal forms; thorough tier adds in-memory overlay mutants as checker self-validation",
        }],
        "checks": checks,
        "not_applicable": na,
        "notes": "Technique family: static analysis only. Every claimed property is claimed at level 'other': structural necessary conditions of the behavioural statement, decided for every path / call site of /repo's current source. What each check does not decide is stated in its evidence explanation and in DESIGN.md.",
    }
    json.dump(m, open("/verif/MANIFEST.json", "w"), indent=1)
    print("claimed", len(checks), "not_applicable", len(na))

NA = {}

if __name__ == "__main__":
    main()
