#!/bin/sh
# usage: refactor_checks.sh <dir-with-refactor*.diff>... : runs all checks on each behaviour-preserving patch; any FAIL/UNDECIDED is a false alarm
for d in "$@"; do
  for f in $d/refactor*.diff; do
    wt=/tmp/rc_$$
    git -C /repo worktree add -q --detach $wt HEAD || exit 2
    if ( cd $wt && git apply "$f" ); then
      mkdir -p /tmp/rcv_$$/evidence; cp /verif/known-findings.txt /tmp/rcv_$$/
      out=$(/verif/bin/verifcheck -prop all -repo $wt -verif /tmp/rcv_$$ | grep -E "^(FAIL|UNDECIDED)" | cut -c1-300)
      n=$(printf "%s" "$out" | grep -c . )
      echo "=== $f alarms=$n"
      printf "%s\n" "$out" | head -12
    else
      echo "=== $f PATCH DOES NOT APPLY"
    fi
    git -C /repo worktree remove --force $wt; rm -rf /tmp/rcv_$$ $wt
  done
done
