package eng

import (
	"go/token"
	"go/types"

	"golang.org/x/tools/go/ssa"
)

// IsCommutativeFold reports whether fn is a permutation-invariant fold of its slice
// parameter (or receiver): its result is a loop accumulator initialised from an element
// or a constant and updated only by acc = acc OP elem with one commutative-associative
// operator, where elem is an element of the slice and the position is not otherwise used.
// Such a function maps every permutation of the slice to the same value.
func IsCommutativeFold(fn *ssa.Function) (bool, token.Token) {
	if fn == nil || fn.Blocks == nil || len(fn.Params) != 1 {
		return false, token.ILLEGAL
	}
	p := fn.Params[0]
	if _, ok := p.Type().Underlying().(*types.Slice); !ok {
		return false, token.ILLEGAL
	}
	var rets []*ssa.Return
	Instrs(fn, func(in ssa.Instruction) {
		if r, ok := in.(*ssa.Return); ok {
			rets = append(rets, r)
		}
	})
	if len(rets) != 1 || len(rets[0].Results) != 1 {
		return false, token.ILLEGAL
	}
	phi, ok := rets[0].Results[0].(*ssa.Phi)
	if !ok {
		return false, token.ILLEGAL
	}
	isElem := func(v ssa.Value) bool {
		u, ok := v.(*ssa.UnOp)
		if !ok || u.Op != token.MUL {
			return false
		}
		ia, ok := u.X.(*ssa.IndexAddr)
		if !ok {
			return false
		}
		// element of p or of a reslice of p
		x := ia.X
		for {
			if sl, ok := x.(*ssa.Slice); ok {
				x = sl.X
				continue
			}
			break
		}
		return x == p
	}
	op := token.ILLEGAL
	for _, e := range phi.Edges {
		if isElem(e) {
			continue
		}
		if _, isC := e.(*ssa.Const); isC {
			continue
		}
		b, ok := e.(*ssa.BinOp)
		if !ok {
			return false, token.ILLEGAL
		}
		switch b.Op {
		case token.XOR, token.ADD, token.OR, token.AND, token.MUL:
		default:
			return false, token.ILLEGAL
		}
		if op != token.ILLEGAL && op != b.Op {
			return false, token.ILLEGAL
		}
		op = b.Op
		if !((b.X == phi && isElem(b.Y)) || (b.Y == phi && isElem(b.X))) {
			return false, token.ILLEGAL
		}
	}
	if op == token.ILLEGAL {
		return false, token.ILLEGAL
	}
	return true, op
}

// IsSliceEquality reports whether fn (two parameters of the same slice type -> bool) is an
// element-wise equality: true implies equal lengths, and some loop compares p0[i] with p1[i]
// for an index that starts at the first element and steps by one, leaving with false on a mismatch.
func IsSliceEquality(fn *ssa.Function) bool {
	if fn == nil || fn.Blocks == nil || len(fn.Params) != 2 {
		return false
	}
	a, b := fn.Params[0], fn.Params[1]
	if _, ok := a.Type().Underlying().(*types.Slice); !ok || !types.Identical(a.Type(), b.Type()) {
		return false
	}
	res := fn.Signature.Results()
	if res.Len() != 1 || !types.Identical(res.At(0).Type().Underlying(), types.Typ[types.Bool]) {
		return false
	}
	lenEq := EqPred("len(a)==len(b)", true, func(x, y ssa.Value) bool {
		lx, ok1 := LenOf(x)
		ly, ok2 := LenOf(y)
		return ok1 && ok2 && ((lx == a && ly == b) || (lx == b && ly == a))
	})
	if ok, _ := TrueImplies(fn, 0, lenEq); !ok || !HasLicensingEdge(fn, lenEq) {
		return false
	}
	elemOf := func(v ssa.Value) (ssa.Value, ssa.Value, bool) {
		u, ok := v.(*ssa.UnOp)
		if !ok || u.Op != token.MUL {
			return nil, nil, false
		}
		ia, ok := u.X.(*ssa.IndexAddr)
		if !ok {
			return nil, nil, false
		}
		return ia.X, ia.Index, true
	}
	found := false
	for _, blk := range fn.Blocks {
		if len(blk.Instrs) == 0 {
			continue
		}
		ifi, ok := blk.Instrs[len(blk.Instrs)-1].(*ssa.If)
		if !ok {
			continue
		}
		at := Normalize(ifi.Cond)
		if at.Op != token.EQL {
			continue
		}
		sx, ix, ok1 := elemOf(at.X)
		sy, iy, ok2 := elemOf(at.Y)
		if !ok1 || !ok2 || ix != iy {
			continue
		}
		if !((sx == a && sy == b) || (sx == b && sy == a)) {
			continue
		}
		// index is a unit-step loop variable from the first element
		if !unitStepFromStart(ix) {
			continue
		}
		// the "differ" edge must not be able to return true
		differ := 1 // cond true means equal (if !Neg)
		if at.Neg {
			differ = 0
		}
		if canReturnTrue(fn, blk.Succs[differ], blk, 0) {
			continue
		}
		if !InLoop(ifi) {
			continue
		}
		found = true
	}
	return found
}

func unitStepFromStart(ix ssa.Value) bool {
	phi, ok := ix.(*ssa.Phi)
	if !ok {
		// rotated range loops: index = phi + 1
		if b, ok := ix.(*ssa.BinOp); ok && b.Op == token.ADD {
			if k, ok := ConstInt(b.Y); ok && k == 1 {
				if p, ok := b.X.(*ssa.Phi); ok {
					for _, e := range p.Edges {
						if k, ok := ConstInt(e); ok {
							if k != -1 {
								return false
							}
						} else if e != ix {
							return false
						}
					}
					return true
				}
			}
		}
		return false
	}
	for _, e := range phi.Edges {
		if k, ok := ConstInt(e); ok {
			if k != 0 {
				return false
			}
			continue
		}
		b, ok := e.(*ssa.BinOp)
		if !ok || b.Op != token.ADD || b.X != phi {
			return false
		}
		if k, ok := ConstInt(b.Y); !ok || k != 1 {
			return false
		}
	}
	return true
}

// DerivedFromCall reports whether v is computed from a call of callee (through conversions,
// phis and local variables).
func DerivedFromCall(v ssa.Value, match func(*ssa.Call) bool, depth int) (*ssa.Call, bool) {
	if v == nil || depth > 8 {
		return nil, false
	}
	switch x := v.(type) {
	case *ssa.Call:
		if match(x) {
			return x, true
		}
	case *ssa.Convert:
		return DerivedFromCall(x.X, match, depth+1)
	case *ssa.ChangeType:
		return DerivedFromCall(x.X, match, depth+1)
	case *ssa.Phi:
		for _, e := range x.Edges {
			if c, ok := DerivedFromCall(e, match, depth+1); ok {
				return c, true
			}
		}
	case *ssa.UnOp:
		if x.Op == token.MUL {
			if a, ok := x.X.(*ssa.Alloc); ok {
				if refs := a.Referrers(); refs != nil {
					for _, r := range *refs {
						if st, ok := r.(*ssa.Store); ok && st.Addr == a {
							if c, ok := DerivedFromCall(st.Val, match, depth+1); ok {
								return c, true
							}
						}
					}
				}
			}
		}
	}
	return nil, false
}
