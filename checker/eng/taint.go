package eng

import (
	"fmt"
	"go/token"
	"go/types"

	"golang.org/x/tools/go/ssa"
)

// Taint is a backward interprocedural slice deciding whether an integer value can be
// controlled by a client or peer without having been bounded.
type Taint struct {
	CG          *CG
	Funcs       []*ssa.Function
	SourceCalls map[string]bool       // callee ids whose integer results are attacker-controlled
	DecodedType func(types.Type) bool // struct types filled by Unmarshal/Decode of untrusted bytes
	Trusted     func(v ssa.Value) bool // values that are configuration / bounded by construction
	fieldStores map[string][]*ssa.Store
	memo        map[ssa.Value]*TaintResult
	Visited     int
}

// TaintResult of a query.
type TaintResult struct {
	Tainted bool
	Chain   []string // source -> ... -> queried value
}

func (t *Taint) init() {
	if t.fieldStores != nil {
		return
	}
	t.fieldStores = map[string][]*ssa.Store{}
	t.memo = map[ssa.Value]*TaintResult{}
	for _, f := range t.Funcs {
		Instrs(f, func(in ssa.Instruction) {
			if st, ok := in.(*ssa.Store); ok {
				if owner, fl, _, ok := FieldOf(st.Addr); ok {
					if _, isFA := st.Addr.(*ssa.FieldAddr); isFA {
						t.fieldStores[owner+"."+fl] = append(t.fieldStores[owner+"."+fl], st)
					}
				}
			}
		})
	}
}

func smallInt(ty types.Type) bool {
	if b, ok := ty.Underlying().(*types.Basic); ok {
		switch b.Kind() {
		case types.Uint8, types.Int8, types.Uint16, types.Int16, types.Bool:
			return true
		}
	}
	return false
}

// boundedAt reports whether, at instruction `at`, value v is known to be at most a constant
// (a dominating comparison with a constant leaves the path to `at` when v is larger).
func boundedAt(v ssa.Value, at ssa.Instruction) bool {
	if at == nil || at.Parent() == nil {
		return false
	}
	p := Pred{Name: "upper bound", Match: func(a Atom) (bool, bool) {
		if a.Op != token.LSS {
			return false, false
		}
		// K < v  -> bounded when false
		if _, isC := ConstInt(a.X); isC && SameValue(StripConv(a.Y), StripConv(v)) {
			return false, true
		}
		// v < K -> bounded when true
		if _, isC := ConstInt(a.Y); isC && SameValue(StripConv(a.X), StripConv(v)) {
			return true, true
		}
		return false, false
	}}
	g := Guarded(at, p)
	return g.Guarded && g.Edges > 0
}

// edgeBounded: the CFG edge from -> to is itself the bounded side of a comparison of v with a constant.
func edgeBounded(from, to *ssa.BasicBlock, v ssa.Value) bool {
	p := Pred{Name: "upper bound", Match: func(a Atom) (bool, bool) {
		if a.Op != token.LSS {
			return false, false
		}
		if _, isC := ConstInt(a.X); isC && SameValue(StripConv(a.Y), StripConv(v)) {
			return false, true
		}
		if _, isC := ConstInt(a.Y); isC && SameValue(StripConv(a.X), StripConv(v)) {
			return true, true
		}
		return false, false
	}}
	return edgeLicensed(from, to, p)
}

// Query decides whether v (used at instruction `at`) is attacker-controlled and unbounded.
func (t *Taint) Query(v ssa.Value, at ssa.Instruction) *TaintResult {
	t.init()
	return t.query(v, at, 0, map[ssa.Value]bool{})
}

func clean() *TaintResult { return &TaintResult{} }

func (t *Taint) query(v ssa.Value, at ssa.Instruction, depth int, onPath map[ssa.Value]bool) *TaintResult {
	if v == nil || depth > 14 || onPath[v] {
		return clean()
	}
	if r, ok := t.memo[v]; ok && at == nil {
		return r
	}
	t.Visited++
	onPath[v] = true
	defer delete(onPath, v)
	if t.Trusted != nil && t.Trusted(v) {
		return clean()
	}
	if smallInt(v.Type()) {
		return clean()
	}
	if at != nil && boundedAt(v, at) {
		return clean()
	}
	wrap := func(r *TaintResult, step string) *TaintResult {
		if !r.Tainted {
			return r
		}
		return &TaintResult{Tainted: true, Chain: append(append([]string{}, r.Chain...), step)}
	}
	switch x := v.(type) {
	case *ssa.Const:
		return clean()
	case *ssa.Convert:
		return wrap(t.query(x.X, at, depth+1, onPath), "convert")
	case *ssa.ChangeType:
		return t.query(x.X, at, depth+1, onPath)
	case *ssa.BinOp:
		switch x.Op {
		case token.REM, token.AND, token.SHR:
			// bounded by the right operand when that is constant
			if _, isC := ConstInt(x.Y); isC {
				return clean()
			}
		}
		if r := t.query(x.X, at, depth+1, onPath); r.Tainted {
			return wrap(r, x.Op.String())
		}
		return wrap(t.query(x.Y, at, depth+1, onPath), x.Op.String())
	case *ssa.Phi:
		for i, e := range x.Edges {
			pb := x.Block().Preds[i]
			last := pb.Instrs[len(pb.Instrs)-1]
			if boundedAt(e, last) || edgeBounded(pb, x.Block(), e) {
				continue
			}
			if r := t.query(e, last, depth+1, onPath); r.Tainted {
				return wrap(r, "phi")
			}
		}
		return clean()
	case *ssa.Extract:
		call, ok := x.Tuple.(*ssa.Call)
		if !ok {
			return clean()
		}
		return t.callResult(call, x.Index, depth, onPath)
	case *ssa.Call:
		if b, isB := x.Call.Value.(*ssa.Builtin); isB {
			switch b.Name() {
			case "len", "cap", "min":
				return clean()
			}
			return clean()
		}
		return t.callResult(x, 0, depth, onPath)
	case *ssa.Parameter:
		f := x.Parent()
		idx := -1
		for i, p := range f.Params {
			if p == x {
				idx = i
			}
		}
		if idx < 0 || t.CG == nil {
			return clean()
		}
		for _, e := range t.CG.In[f] {
			args := CallArgs(e.Site.Common())
			if e.Kind == "funcvalue" {
				continue
			}
			if idx < len(args) {
				if r := t.query(args[idx], e.Site.(ssa.Instruction), depth+1, onPath); r.Tainted {
					return wrap(r, fmt.Sprintf("argument %d of %s (called from %s)", idx, f.Name(), e.Caller.Name()))
				}
			}
		}
		return clean()
	case *ssa.UnOp:
		if x.Op != token.MUL {
			return t.query(x.X, at, depth+1, onPath)
		}
		switch a := x.X.(type) {
		case *ssa.Alloc:
			if refs := a.Referrers(); refs != nil {
				for _, r := range *refs {
					if st, ok := r.(*ssa.Store); ok && st.Addr == a {
						if boundedAt(st.Val, st) {
							continue
						}
						if res := t.query(st.Val, st, depth+1, onPath); res.Tainted {
							return wrap(res, "local "+a.Comment)
						}
					}
				}
			}
			return clean()
		case *ssa.FieldAddr:
			owner, fl, base, ok := FieldOf(a)
			if !ok {
				return clean()
			}
			if t.DecodedType != nil {
				bt := base.Type()
				if p, isP := bt.Underlying().(*types.Pointer); isP {
					bt = p.Elem()
				}
				if t.DecodedType(bt) {
					return &TaintResult{Tainted: true, Chain: []string{"field " + shortOwner(owner) + "." + fl + " of a value decoded from untrusted bytes"}}
				}
			}
			for _, st := range t.fieldStores[owner+"."+fl] {
				if boundedAt(st.Val, st) {
					continue
				}
				if res := t.query(st.Val, st, depth+1, onPath); res.Tainted {
					return wrap(res, "field "+shortOwner(owner)+"."+fl)
				}
			}
			return clean()
		}
	case *ssa.Field:
		owner, fl, base, ok := FieldOf(x)
		if ok {
			if t.DecodedType != nil && t.DecodedType(base.Type()) {
				return &TaintResult{Tainted: true, Chain: []string{"field " + shortOwner(owner) + "." + fl + " of a value decoded from untrusted bytes"}}
			}
			// a struct value: follow how it was produced
			if r := t.structField(base, owner, fl, depth, onPath); r.Tainted {
				return r
			}
			for _, st := range t.fieldStores[owner+"."+fl] {
				if boundedAt(st.Val, st) {
					continue
				}
				if res := t.query(st.Val, st, depth+1, onPath); res.Tainted {
					return wrap(res, "field "+shortOwner(owner)+"."+fl)
				}
			}
		}
		return clean()
	}
	return clean()
}

// structField follows a struct value back to a parameter / call to find taint of one field.
func (t *Taint) structField(base ssa.Value, owner, fl string, depth int, onPath map[ssa.Value]bool) *TaintResult {
	if p, ok := base.(*ssa.Parameter); ok && t.CG != nil {
		f := p.Parent()
		idx := -1
		for i, q := range f.Params {
			if q == p {
				idx = i
			}
		}
		for _, e := range t.CG.In[f] {
			args := CallArgs(e.Site.Common())
			if idx >= 0 && idx < len(args) {
				a := args[idx]
				// the struct is loaded from a local filled by Unmarshal?
				if u, ok := a.(*ssa.UnOp); ok {
					if al, ok := u.X.(*ssa.Alloc); ok && t.DecodedType != nil {
						el := al.Type().(*types.Pointer).Elem()
						if t.DecodedType(el) && t.allocDecoded(al) {
							return &TaintResult{Tainted: true, Chain: []string{"field " + shortOwner(owner) + "." + fl + " of a value decoded from untrusted bytes in " + e.Caller.Name()}}
						}
					}
				}
			}
		}
	}
	return clean()
}

// allocDecoded: the local is passed by address to a decoding function.
func (t *Taint) allocDecoded(al *ssa.Alloc) bool {
	refs := al.Referrers()
	if refs == nil {
		return false
	}
	for _, r := range *refs {
		var v ssa.Value
		switch x := r.(type) {
		case *ssa.MakeInterface:
			v = x
		default:
			continue
		}
		if vr := v.Referrers(); vr != nil {
			for _, rr := range *vr {
				if call, ok := rr.(*ssa.Call); ok {
					if id := FuncID(CalleeObj(&call.Call)); t.SourceCalls[id+"#arg"] {
						return true
					}
				}
			}
		}
	}
	return false
}

func (t *Taint) callResult(call *ssa.Call, idx int, depth int, onPath map[ssa.Value]bool) *TaintResult {
	id := FuncID(CalleeObj(&call.Call))
	if t.SourceCalls[id] {
		return &TaintResult{Tainted: true, Chain: []string{"result of " + id}}
	}
	callee := call.Call.StaticCallee()
	if callee == nil || callee.Blocks == nil {
		return clean()
	}
	inScope := false
	for _, f := range t.Funcs {
		if f == callee {
			inScope = true
			break
		}
	}
	if !inScope {
		return clean()
	}
	var out *TaintResult = clean()
	Instrs(callee, func(in ssa.Instruction) {
		ret, ok := in.(*ssa.Return)
		if !ok || idx >= len(ret.Results) || out.Tainted {
			return
		}
		for _, rv := range resolveSpill(ret.Results[idx]) {
			if boundedAt(rv, ret) {
				continue
			}
			if r := t.query(rv, ret, depth+1, onPath); r.Tainted {
				out = &TaintResult{Tainted: true, Chain: append(append([]string{}, r.Chain...), "result of "+callee.Name())}
				return
			}
		}
	})
	return out
}

func resolveSpill(v ssa.Value) []ssa.Value {
	if u, ok := v.(*ssa.UnOp); ok && u.Op == token.MUL {
		if a, ok := u.X.(*ssa.Alloc); ok && !a.Heap {
			var out []ssa.Value
			if refs := a.Referrers(); refs != nil {
				for _, r := range *refs {
					if st, ok := r.(*ssa.Store); ok && st.Addr == a {
						out = append(out, st.Val)
					}
				}
			}
			if len(out) > 0 {
				return out
			}
		}
	}
	return []ssa.Value{v}
}

func shortOwner(s string) string {
	for i := len(s) - 1; i >= 0; i-- {
		if s[i] == '/' {
			return s[i+1:]
		}
	}
	return s
}
