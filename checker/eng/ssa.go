// Package eng holds the analysis engines: guard cut-sets (G), ordering (O),
// lock discipline (L), call-graph queries (W) and helpers over go/ssa.
package eng

import (
	"fmt"
	"sync"
	"go/constant"
	"go/token"
	"go/types"
	"strings"

	"golang.org/x/tools/go/ssa"
)

// CalleeObj returns the *types.Func a call refers to: the static callee's object,
// or the interface method for invoke-mode calls. nil for calls of func values.
func CalleeObj(c *ssa.CallCommon) *types.Func {
	if c.IsInvoke() {
		return c.Method
	}
	if f := c.StaticCallee(); f != nil {
		if o, ok := f.Object().(*types.Func); ok {
			return o
		}
		// bound method closure / instantiation
		if f.Origin() != nil {
			if o, ok := f.Origin().Object().(*types.Func); ok {
				return o
			}
		}
	}
	return nil
}

// FuncID renders pkgpath.(Recv).Name for a *types.Func.
func FuncID(f *types.Func) string {
	if f == nil {
		return "<nil>"
	}
	sig, _ := f.Type().(*types.Signature)
	pkg := ""
	if f.Pkg() != nil {
		pkg = f.Pkg().Path()
	}
	if sig != nil && sig.Recv() != nil {
		t := sig.Recv().Type()
		if p, ok := t.(*types.Pointer); ok {
			t = p.Elem()
		}
		name := t.String()
		if n, ok := t.(*types.Named); ok {
			name = n.Obj().Name()
			if n.Obj().Pkg() != nil {
				pkg = n.Obj().Pkg().Path()
			}
		}
		return pkg + "." + name + "." + f.Name()
	}
	return pkg + "." + f.Name()
}

// IsCallTo reports whether instr is a call (call/go/defer) whose callee has the given id
// (as rendered by FuncID). Suffix match on the package path is allowed by passing
// an id starting with "/" ... not used: ids are exact.
func IsCallTo(instr ssa.Instruction, ids ...string) bool {
	ci, ok := instr.(ssa.CallInstruction)
	if !ok {
		return false
	}
	id := FuncID(CalleeObj(ci.Common()))
	for _, want := range ids {
		if id == want {
			return true
		}
	}
	return false
}

// CallArgs returns the arguments including the receiver (index 0 for methods, both
// for invoke and static mode).
func CallArgs(c *ssa.CallCommon) []ssa.Value {
	if c.IsInvoke() {
		return append([]ssa.Value{c.Value}, c.Args...)
	}
	return c.Args
}

// ConstInt returns the integer value of a constant SSA value (through conversions).
func ConstInt(v ssa.Value) (int64, bool) { return constInt(v, 0) }

func constInt(v ssa.Value, d int) (int64, bool) {
	v = StripConv(v)
	if bo, isB := v.(*ssa.BinOp); isB && d < 6 {
		// arithmetic over constants (an inlined helper called with a constant argument
		// leaves `16 + 0*4` unfolded in the SSA form)
		x, okx := constInt(bo.X, d+1)
		y, oky := constInt(bo.Y, d+1)
		if okx && oky {
			switch bo.Op {
			case token.ADD:
				return x + y, true
			case token.SUB:
				return x - y, true
			case token.MUL:
				return x * y, true
			case token.SHL:
				if y >= 0 && y < 63 {
					return x << uint(y), true
				}
			case token.SHR:
				if y >= 0 && y < 63 {
					return x >> uint(y), true
				}
			case token.AND:
				return x & y, true
			case token.OR:
				return x | y, true
			}
		}
		return 0, false
	}
	c, ok := v.(*ssa.Const)
	if !ok || c.Value == nil {
		return 0, false
	}
	if c.Value.Kind() != constant.Int {
		return 0, false
	}
	i, ok := constant.Int64Val(c.Value)
	if !ok {
		if u, ok2 := constant.Uint64Val(c.Value); ok2 {
			return int64(u), true
		}
	}
	return i, ok
}

// StripConv strips Convert/ChangeType/MakeInterface wrappers.
func StripConv(v ssa.Value) ssa.Value {
	for {
		switch x := v.(type) {
		case *ssa.Convert:
			v = x.X
		case *ssa.ChangeType:
			v = x.X
		case *ssa.MakeInterface:
			v = x.X
		case *ssa.ChangeInterface:
			v = x.X
		case *ssa.Phi:
			// a phi whose only non-nil source is X (the other edges are the nil of error
			// paths, as in `k, err := helper()` after inlining) denotes X wherever it is used
			if u := nilPhiSource(x); u != nil {
				v = u
				continue
			}
			return v
		default:
			return v
		}
	}
}

func nilPhiSource(p *ssa.Phi) ssa.Value {
	var src ssa.Value
	nils := 0
	for _, e := range p.Edges {
		if c, ok := e.(*ssa.Const); ok && c.Value == nil {
			switch c.Type().Underlying().(type) {
			case *types.Pointer, *types.Interface, *types.Slice, *types.Map, *types.Signature, *types.Chan:
				nils++
				continue
			}
			return nil
		}
		if src != nil && src != e {
			return nil
		}
		src = e
	}
	if src == nil || nils == 0 || src == ssa.Value(p) {
		return nil
	}
	return src
}

// ResultValues returns the values result #idx of fn may carry at its returns, resolving
// results spilled to locals (functions with defer) and phis. Zero values of spilled
// results (never stored) are not included.
func ResultValues(fn *ssa.Function, idx int) []ssa.Value {
	seen := map[ssa.Value]bool{}
	var out []ssa.Value
	var add func(v ssa.Value, d int)
	add = func(v ssa.Value, d int) {
		if v == nil || seen[v] || d > 6 {
			return
		}
		seen[v] = true
		if phi, ok := StripConv(v).(*ssa.Phi); ok && phi != v {
			// a converted phi (e.g. Key(buffer) of an inlined helper's result): look through
			for _, e := range phi.Edges {
				add(e, d+1)
			}
			return
		}
		switch x := v.(type) {
		case *ssa.Phi:
			for _, e := range x.Edges {
				add(e, d+1)
			}
			return
		case *ssa.UnOp:
			if a, ok := x.X.(*ssa.Alloc); ok && x.Op == token.MUL && !a.Heap {
				if refs := a.Referrers(); refs != nil {
					for _, r := range *refs {
						if st, ok := r.(*ssa.Store); ok && st.Addr == a {
							add(st.Val, d+1)
						}
					}
				}
				return
			}
		}
		out = append(out, v)
	}
	Instrs(fn, func(in ssa.Instruction) {
		if ret, ok := in.(*ssa.Return); ok && idx < len(ret.Results) {
			add(ret.Results[idx], 0)
		}
	})
	return out
}

// Atom is a normalised condition: the underlying value with a negation flag.
// For comparisons, Op is EQL or LSS with operands X, Y (LSS: X < Y).
type Atom struct {
	V   ssa.Value   // the underlying value (call, load, phi ...) when Op == ILLEGAL
	Op  token.Token // token.EQL, token.LSS or token.ILLEGAL
	X   ssa.Value
	Y   ssa.Value
	Neg bool // the condition is the negation of the atom
	// VInv: for comparison atoms, V (the original comparison instruction) is true exactly
	// when the normalised atom is false (V was !=, >= or <=).
	VInv bool
}

// Normalize reduces a boolean SSA value to an atom with polarity.
func Normalize(v ssa.Value) Atom {
	neg := false
	for {
		switch x := v.(type) {
		case *ssa.UnOp:
			if x.Op == token.NOT {
				neg = !neg
				v = x.X
				continue
			}
		case *ssa.BinOp:
			switch x.Op {
			case token.EQL, token.NEQ:
				n := x.Op == token.NEQ
				// comparisons with boolean constants fold into polarity
				if c, ok := x.Y.(*ssa.Const); ok && c.Value != nil && c.Value.Kind() == constant.Bool {
					if !constant.BoolVal(c.Value) {
						n = !n
					}
					if n {
						neg = !neg
					}
					v = x.X
					continue
				}
				if c, ok := x.X.(*ssa.Const); ok && c.Value != nil && c.Value.Kind() == constant.Bool {
					if !constant.BoolVal(c.Value) {
						n = !n
					}
					if n {
						neg = !neg
					}
					v = x.Y
					continue
				}
				if n {
					neg = !neg
				}
				return Atom{Op: token.EQL, X: x.X, Y: x.Y, Neg: neg, V: x, VInv: x.Op == token.NEQ}
			case token.LSS:
				return Atom{Op: token.LSS, X: x.X, Y: x.Y, Neg: neg, V: x}
			case token.GTR: // a > b == b < a
				return Atom{Op: token.LSS, X: x.Y, Y: x.X, Neg: neg, V: x}
			case token.GEQ: // a >= b == !(a < b)
				return Atom{Op: token.LSS, X: x.X, Y: x.Y, Neg: !neg, V: x, VInv: true}
			case token.LEQ: // a <= b == !(b < a)
				return Atom{Op: token.LSS, X: x.Y, Y: x.X, Neg: !neg, V: x, VInv: true}
			}
		}
		return Atom{V: v, Neg: neg}
	}
}

// Describe renders an SSA value compactly for reports (access-path style).
func Describe(v ssa.Value) string {
	return describe(v, 0)
}

func describe(v ssa.Value, d int) string {
	if v == nil {
		return "nil"
	}
	if d > 6 {
		return v.Name()
	}
	switch x := v.(type) {
	case *ssa.Const:
		if x.Value == nil {
			return "nil"
		}
		return x.Value.ExactString()
	case *ssa.Parameter:
		return x.Name()
	case *ssa.FreeVar:
		return x.Name()
	case *ssa.Global:
		return x.Name()
	case *ssa.Function:
		return x.Name()
	case *ssa.FieldAddr:
		return describe(x.X, d+1) + "." + fieldName(x.X.Type(), x.Field)
	case *ssa.Field:
		return describe(x.X, d+1) + "." + fieldNameV(x.X.Type(), x.Field)
	case *ssa.UnOp:
		if x.Op == token.MUL {
			return describe(x.X, d+1)
		}
		return x.Op.String() + describe(x.X, d+1)
	case *ssa.BinOp:
		return "(" + describe(x.X, d+1) + " " + x.Op.String() + " " + describe(x.Y, d+1) + ")"
	case *ssa.Call:
		obj := CalleeObj(&x.Call)
		name := "call"
		if obj != nil {
			name = obj.Name()
		}
		args := []string{}
		for _, a := range CallArgs(&x.Call) {
			args = append(args, describe(a, d+1))
		}
		return name + "(" + strings.Join(args, ",") + ")"
	case *ssa.Extract:
		return describe(x.Tuple, d+1) + fmt.Sprintf("#%d", x.Index)
	case *ssa.Convert:
		return describe(x.X, d+1)
	case *ssa.ChangeType:
		return describe(x.X, d+1)
	case *ssa.MakeInterface:
		return describe(x.X, d+1)
	case *ssa.IndexAddr:
		return describe(x.X, d+1) + "[" + describe(x.Index, d+1) + "]"
	case *ssa.Index:
		return describe(x.X, d+1) + "[" + describe(x.Index, d+1) + "]"
	case *ssa.Lookup:
		return describe(x.X, d+1) + "[" + describe(x.Index, d+1) + "]"
	case *ssa.Slice:
		return describe(x.X, d+1) + "[:]"
	case *ssa.Alloc:
		if x.Comment != "" {
			return x.Comment
		}
		return "new"
	case *ssa.Phi:
		return "phi(" + x.Comment + ")"
	case *ssa.TypeAssert:
		return describe(x.X, d+1) + ".(" + x.AssertedType.String() + ")"
	}
	return v.Name()
}

func fieldName(t types.Type, i int) string {
	if p, ok := t.Underlying().(*types.Pointer); ok {
		if s, ok := p.Elem().Underlying().(*types.Struct); ok && i < s.NumFields() {
			return s.Field(i).Name()
		}
	}
	return fmt.Sprintf("#%d", i)
}

func fieldNameV(t types.Type, i int) string {
	if s, ok := t.Underlying().(*types.Struct); ok && i < s.NumFields() {
		return s.Field(i).Name()
	}
	return fmt.Sprintf("#%d", i)
}

// FieldOf returns (struct named type, field name) if v is a FieldAddr or a load of one.
func FieldOf(v ssa.Value) (owner string, field string, base ssa.Value, ok bool) {
	if u, isU := v.(*ssa.UnOp); isU && u.Op == token.MUL {
		v = u.X
	}
	switch fa := v.(type) {
	case *ssa.FieldAddr:
		t := fa.X.Type()
		if p, okp := t.Underlying().(*types.Pointer); okp {
			if n, okn := p.Elem().(*types.Named); okn {
				return n.Obj().Pkg().Path() + "." + n.Obj().Name(), fieldName(t, fa.Field), fa.X, true
			}
			if _, oks := p.Elem().Underlying().(*types.Struct); oks {
				return p.Elem().String(), fieldName(t, fa.Field), fa.X, true
			}
		}
	case *ssa.Field:
		t := fa.X.Type()
		if n, okn := t.(*types.Named); okn {
			return n.Obj().Pkg().Path() + "." + n.Obj().Name(), fieldNameV(t, fa.Field), fa.X, true
		}
	}
	return "", "", nil, false
}

// SameValue is a conservative "denotes the same value" test: identical SSA value,
// or structurally identical pure expressions (field loads, pure accessor calls,
// extracts, conversions) over the same roots.
func SameValue(a, b ssa.Value) bool {
	return sameValue(a, b, 0)
}

func sameValue(a, b ssa.Value, d int) bool {
	if a == b {
		return true
	}
	if a == nil || b == nil || d > 8 {
		return false
	}
	a, b = StripConv(a), StripConv(b)
	if a == b {
		return true
	}
	switch x := a.(type) {
	case *ssa.Const:
		y, ok := b.(*ssa.Const)
		if !ok {
			return false
		}
		if x.Value == nil || y.Value == nil {
			return x.Value == nil && y.Value == nil && types.Identical(x.Type(), y.Type())
		}
		return constant.Compare(x.Value, token.EQL, y.Value)
	case *ssa.UnOp:
		y, ok := b.(*ssa.UnOp)
		return ok && x.Op == y.Op && sameValue(x.X, y.X, d+1)
	case *ssa.FieldAddr:
		y, ok := b.(*ssa.FieldAddr)
		return ok && x.Field == y.Field && sameValue(x.X, y.X, d+1)
	case *ssa.Field:
		y, ok := b.(*ssa.Field)
		return ok && x.Field == y.Field && sameValue(x.X, y.X, d+1)
	case *ssa.Extract:
		y, ok := b.(*ssa.Extract)
		return ok && x.Index == y.Index && sameValue(x.Tuple, y.Tuple, d+1)
	case *ssa.Call:
		y, ok := b.(*ssa.Call)
		if !ok {
			return false
		}
		ox, oy := CalleeObj(&x.Call), CalleeObj(&y.Call)
		if ox == nil || ox != oy {
			return false
		}
		// only accessor-like calls (results of basic type) are treated as denoting the same
		// value when repeated; constructors/decoders returning pointers, slices or maps are not
		if !basicResults(x.Type()) {
			return false
		}
		ax, ay := CallArgs(&x.Call), CallArgs(&y.Call)
		if len(ax) != len(ay) {
			return false
		}
		for i := range ax {
			if !sameValue(ax[i], ay[i], d+1) {
				return false
			}
		}
		return true
	case *ssa.BinOp:
		y, ok := b.(*ssa.BinOp)
		return ok && x.Op == y.Op && sameValue(x.X, y.X, d+1) && sameValue(x.Y, y.Y, d+1)
	case *ssa.IndexAddr:
		y, ok := b.(*ssa.IndexAddr)
		return ok && sameValue(x.X, y.X, d+1) && sameValue(x.Index, y.Index, d+1)
	case *ssa.Slice:
		y, ok := b.(*ssa.Slice)
		return ok && sameValue(x.X, y.X, d+1) && sameValue(x.Low, y.Low, d+1) && sameValue(x.High, y.High, d+1)
	}
	return false
}

// KnownNonNil reports values that are never nil: results of errors.New / fmt.Errorf and of
// in-scope constructors all of whose returns are non-nil, boxed concrete values, allocations,
// closures, freshly made maps, slices and channels, and loads of package-level variables that
// are only ever assigned non-nil values by their package initialiser (error sentinels).
func KnownNonNil(v ssa.Value) bool { return knownNonNil(v, 0) }

func knownNonNil(v ssa.Value, d int) bool {
	if d > 3 {
		return false
	}
	switch x := v.(type) {
	case *ssa.MakeInterface, *ssa.Alloc, *ssa.MakeClosure, *ssa.MakeMap, *ssa.MakeChan, *ssa.MakeSlice, *ssa.FieldAddr, *ssa.IndexAddr, *ssa.Function, *ssa.Global:
		return true
	case *ssa.ChangeInterface:
		return knownNonNil(x.X, d+1)
	case *ssa.ChangeType:
		return knownNonNil(x.X, d+1)
	case *ssa.UnOp:
		if g, ok := x.X.(*ssa.Global); ok && x.Op == token.MUL {
			return sentinelNonNil(g, d)
		}
	case *ssa.Call:
		switch FuncID(CalleeObj(&x.Call)) {
		case "errors.New", "fmt.Errorf":
			return true
		}
		if f := x.Call.StaticCallee(); f != nil && f.Blocks != nil && f.Signature.Results().Len() == 1 {
			n, ok := 0, true
			Instrs(f, func(in ssa.Instruction) {
				if ret, isRet := in.(*ssa.Return); isRet && len(ret.Results) == 1 {
					n++
					if !knownNonNil(ret.Results[0], d+1) {
						ok = false
					}
				}
			})
			return ok && n > 0
		}
	}
	return false
}

var (
	globalStoresOnce sync.Once
	globalStores     map[*ssa.Global][]*ssa.Store
	globalEscapes    map[*ssa.Global]bool // address used for anything but a load or a direct store
	scopeFuncsForIdx []*ssa.Function
)

// IndexGlobals registers the functions (production functions and package initialisers) whose
// stores to package-level variables are indexed for KnownNonNil.
func IndexGlobals(fns []*ssa.Function) {
	scopeFuncsForIdx = fns
	globalStoresOnce = sync.Once{}
}

func sentinelNonNil(g *ssa.Global, d int) bool {
	globalStoresOnce.Do(func() {
		globalStores = map[*ssa.Global][]*ssa.Store{}
		globalEscapes = map[*ssa.Global]bool{}
		for _, f := range scopeFuncsForIdx {
			Instrs(f, func(in ssa.Instruction) {
				for _, op := range in.Operands(nil) {
					gl, ok := (*op).(*ssa.Global)
					if !ok {
						continue
					}
					switch x := in.(type) {
					case *ssa.Store:
						if x.Addr == ssa.Value(gl) {
							globalStores[gl] = append(globalStores[gl], x)
							if x.Val == ssa.Value(gl) {
								globalEscapes[gl] = true
							}
							continue
						}
					case *ssa.UnOp:
						if x.Op == token.MUL {
							continue
						}
					}
					globalEscapes[gl] = true
				}
			})
		}
	})
	if scopeFuncsForIdx == nil || globalEscapes[g] {
		return false
	}
	sts := globalStores[g]
	if len(sts) == 0 {
		return false
	}
	for _, st := range sts {
		f := st.Parent()
		if f == nil || f.Pkg != g.Pkg || f.Synthetic == "" || f.Name() != "init" {
			return false // assigned outside the package initialiser
		}
		if !knownNonNil(st.Val, d+1) {
			return false
		}
	}
	return true
}

// Instrs iterates over all instructions of fn (not descending into closures).
func Instrs(fn *ssa.Function, f func(ssa.Instruction)) {
	for _, b := range fn.Blocks {
		for _, in := range b.Instrs {
			f(in)
		}
	}
}

// WithAnon returns fn and all closures transitively nested in it.
func WithAnon(fn *ssa.Function) []*ssa.Function {
	out := []*ssa.Function{fn}
	for _, a := range fn.AnonFuncs {
		out = append(out, WithAnon(a)...)
	}
	return out
}

// Calls returns the call instructions in fn (optionally in nested closures too)
// whose callee id is one of ids.
func Calls(fn *ssa.Function, nested bool, ids ...string) []ssa.CallInstruction {
	var out []ssa.CallInstruction
	fns := []*ssa.Function{fn}
	if nested {
		fns = WithAnon(fn)
	}
	for _, f := range fns {
		Instrs(f, func(in ssa.Instruction) {
			if IsCallTo(in, ids...) {
				out = append(out, in.(ssa.CallInstruction))
			}
		})
	}
	return out
}

// ConstValInt converts a constant.Value to int64.
func ConstValInt(v constant.Value) (int64, bool) {
	if v == nil || v.Kind() != constant.Int {
		return 0, false
	}
	if i, ok := constant.Int64Val(v); ok {
		return i, true
	}
	if u, ok := constant.Uint64Val(v); ok {
		return int64(u), true
	}
	return 0, false
}

func basicResults(t types.Type) bool {
	switch u := t.(type) {
	case *types.Tuple:
		for i := 0; i < u.Len(); i++ {
			if !basicResults(u.At(i).Type()) {
				return false
			}
		}
		return true
	default:
		_, ok := t.Underlying().(*types.Basic)
		return ok
	}
}

// FuncValue resolves a function value passed as a callback: a closure literal, a plain
// function, or a bound method value (`s.method`), whose wrapper is looked through. off is the
// number of leading parameters of the returned function that are not parameters of the
// callback (1 for the receiver of a bound method).
func FuncValue(v ssa.Value) (fn *ssa.Function, off int) {
	switch x := StripConv(v).(type) {
	case *ssa.Function:
		return x, 0
	case *ssa.MakeClosure:
		f, _ := x.Fn.(*ssa.Function)
		if f == nil {
			return nil, 0
		}
		if f.Synthetic != "" && len(x.Bindings) == 1 {
			// bound method wrapper: its body is a single call of the method
			var target *ssa.Function
			Instrs(f, func(in ssa.Instruction) {
				if c, ok := in.(ssa.CallInstruction); ok {
					if t := c.Common().StaticCallee(); t != nil {
						target = t
					}
				}
			})
			if target != nil && target.Blocks != nil {
				return target, 1
			}
		}
		return f, 0
	}
	return nil, 0
}
