package eng

import (
	"go/types"
	"sort"

	"golang.org/x/tools/go/ssa"
)

// Edge is one call edge of the in-scope call graph.
type Edge struct {
	Caller *ssa.Function
	Site   ssa.CallInstruction
	Callee *ssa.Function
	Kind   string // static | invoke | funcvalue
}

// CG is a call graph restricted to a set of in-scope functions. Static calls are
// resolved exactly; interface calls to every in-scope method whose receiver type
// implements the interface (CHA); calls of function values to every in-scope
// function, closure or bound method whose value is taken somewhere in scope and
// whose signature is identical (address-taken + signature matching).
type CG struct {
	Funcs []*ssa.Function
	Out   map[*ssa.Function][]Edge
	In    map[*ssa.Function][]Edge
	// AddrTaken lists functions whose value escapes into data (fields, arguments, go).
	AddrTaken map[*ssa.Function][]ssa.Instruction
}

// unwrap resolves synthetic wrappers (bound-method closures, thunks) to the declared method.
func unwrap(f *ssa.Function) *ssa.Function {
	for d := 0; d < 3 && f != nil && f.Synthetic != "" && f.Blocks != nil; d++ {
		var next *ssa.Function
		for _, b := range f.Blocks {
			for _, in := range b.Instrs {
				if c, ok := in.(ssa.CallInstruction); ok {
					if sc := c.Common().StaticCallee(); sc != nil {
						next = sc
					}
				}
			}
		}
		if next == nil {
			return f
		}
		f = next
	}
	return f
}

// BuildCG builds the in-scope call graph.
func BuildCG(prog *ssa.Program, funcs []*ssa.Function) *CG {
	g := &CG{Funcs: funcs, Out: map[*ssa.Function][]Edge{}, In: map[*ssa.Function][]Edge{}, AddrTaken: map[*ssa.Function][]ssa.Instruction{}}
	in := map[*ssa.Function]bool{}
	for _, f := range funcs {
		in[f] = true
	}
	// address-taken functions
	for _, f := range funcs {
		for _, b := range f.Blocks {
			for _, instr := range b.Instrs {
				var callee ssa.Value
				if c, ok := instr.(ssa.CallInstruction); ok {
					callee = c.Common().Value
				}
				for _, op := range instr.Operands(nil) {
					if op == nil || *op == nil {
						continue
					}
					v := *op
					var target *ssa.Function
					switch x := v.(type) {
					case *ssa.Function:
						target = x
					case *ssa.MakeClosure:
						target, _ = x.Fn.(*ssa.Function)
					}
					if target == nil {
						continue
					}
					if v == callee {
						if _, isFn := v.(*ssa.Function); isFn {
							continue // direct static call, not an escape
						}
					}
					t := unwrap(target)
					g.AddrTaken[t] = append(g.AddrTaken[t], instr)
				}
			}
		}
	}
	// MakeClosure instructions themselves take the address (value defined by instr)
	for _, f := range funcs {
		for _, b := range f.Blocks {
			for _, instr := range b.Instrs {
				if mc, ok := instr.(*ssa.MakeClosure); ok {
					if t, ok := mc.Fn.(*ssa.Function); ok {
						t = unwrap(t)
						g.AddrTaken[t] = append(g.AddrTaken[t], instr)
					}
				}
			}
		}
	}
	add := func(caller *ssa.Function, site ssa.CallInstruction, callee *ssa.Function, kind string) {
		callee = unwrap(callee)
		if callee == nil || !in[callee] {
			return
		}
		e := Edge{caller, site, callee, kind}
		g.Out[caller] = append(g.Out[caller], e)
		g.In[callee] = append(g.In[callee], e)
	}
	// index methods by name for invoke resolution
	byName := map[string][]*ssa.Function{}
	for _, f := range funcs {
		if f.Signature.Recv() != nil {
			byName[f.Name()] = append(byName[f.Name()], f)
		}
	}
	for _, f := range funcs {
		for _, b := range f.Blocks {
			for _, instr := range b.Instrs {
				site, ok := instr.(ssa.CallInstruction)
				if !ok {
					continue
				}
				cc := site.Common()
				if cc.IsInvoke() {
					iface, _ := cc.Value.Type().Underlying().(*types.Interface)
					for _, m := range byName[cc.Method.Name()] {
						rt := m.Signature.Recv().Type()
						if iface != nil && (types.Implements(rt, iface) || types.Implements(types.NewPointer(rt), iface)) {
							add(f, site, m, "invoke")
						}
					}
					continue
				}
				if sc := cc.StaticCallee(); sc != nil {
					add(f, site, sc, "static")
					continue
				}
				if _, isB := cc.Value.(*ssa.Builtin); isB {
					continue
				}
				// function value: match by signature among address-taken functions
				sig, _ := cc.Value.Type().Underlying().(*types.Signature)
				if sig == nil {
					continue
				}
				for t := range g.AddrTaken {
					if !in[t] {
						continue
					}
					if sigMatches(t, sig) {
						add(f, site, t, "funcvalue")
					}
				}
			}
		}
	}
	for _, es := range g.In {
		sort.Slice(es, func(i, j int) bool { return es[i].Site.Pos() < es[j].Site.Pos() })
	}
	return g
}

// sigMatches: calling a value of type sig may invoke t (for methods the receiver is bound).
func sigMatches(t *ssa.Function, sig *types.Signature) bool {
	ts := t.Signature
	// compare params/results ignoring the receiver (bound) and free variables
	if ts.Params().Len() != sig.Params().Len() || ts.Results().Len() != sig.Results().Len() || ts.Variadic() != sig.Variadic() {
		return false
	}
	for i := 0; i < ts.Params().Len(); i++ {
		if !types.Identical(ts.Params().At(i).Type(), sig.Params().At(i).Type()) {
			return false
		}
	}
	for i := 0; i < ts.Results().Len(); i++ {
		if !types.Identical(ts.Results().At(i).Type(), sig.Results().At(i).Type()) {
			return false
		}
	}
	return true
}

// Reachable returns the set of in-scope functions reachable from roots.
func (g *CG) Reachable(roots ...*ssa.Function) map[*ssa.Function]bool {
	seen := map[*ssa.Function]bool{}
	var stack []*ssa.Function
	for _, r := range roots {
		if r != nil {
			stack = append(stack, r)
		}
	}
	for len(stack) > 0 {
		f := stack[len(stack)-1]
		stack = stack[:len(stack)-1]
		if seen[f] {
			continue
		}
		seen[f] = true
		for _, e := range g.Out[f] {
			stack = append(stack, e.Callee)
		}
		for _, a := range f.AnonFuncs {
			stack = append(stack, a)
		}
	}
	return seen
}

// Callers returns the distinct callers of f.
func (g *CG) Callers(f *ssa.Function) []*ssa.Function {
	seen := map[*ssa.Function]bool{}
	var out []*ssa.Function
	for _, e := range g.In[f] {
		if !seen[e.Caller] {
			seen[e.Caller] = true
			out = append(out, e.Caller)
		}
	}
	sort.Slice(out, func(i, j int) bool { return out[i].String() < out[j].String() })
	return out
}
