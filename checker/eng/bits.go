package eng

import (
	"fmt"
	"go/token"
	"go/types"

	"golang.org/x/tools/go/ssa"
)

// Bit is one bit of an abstract value: constant 0/1, a named bit of a named source, or unknown.
type Bit struct {
	Kind int // 0 zero, 1 one, 2 source bit, 3 unknown
	Src  string
	Idx  int
}

func (b Bit) String() string {
	switch b.Kind {
	case 0:
		return "0"
	case 1:
		return "1"
	case 2:
		return fmt.Sprintf("%s.%d", b.Src, b.Idx)
	}
	return "?"
}

var (
	bit0   = Bit{Kind: 0}
	bit1   = Bit{Kind: 1}
	bitTop = Bit{Kind: 3}
)

// BitEval evaluates known-bits provenance of integer/boolean SSA values.
type BitEval struct {
	// Source classifies a value as a named source of the given width (bits above it are 0).
	Source func(v ssa.Value) (name string, width int, ok bool)
	// BoolToInt reports callee functions that map bool -> {0,1}.
	BoolToInt func(f *ssa.Function) bool
	depth     int
}

func widthOf(t types.Type) int {
	if b, ok := t.Underlying().(*types.Basic); ok {
		switch b.Kind() {
		case types.Bool, types.UntypedBool:
			return 1
		case types.Uint8, types.Int8:
			return 8
		case types.Uint16, types.Int16:
			return 16
		case types.Uint32, types.Int32:
			return 32
		default:
			return 64
		}
	}
	return 64
}

func zeros(n int) []Bit {
	out := make([]Bit, n)
	return out
}

func tops(n int) []Bit {
	out := make([]Bit, n)
	for i := range out {
		out[i] = bitTop
	}
	return out
}

func resize(b []Bit, n int) []Bit {
	out := zeros(n)
	copy(out, b)
	return out
}

// Bits returns the bit vector (LSB first) of v.
func (e *BitEval) Bits(v ssa.Value) []Bit {
	e.depth++
	defer func() { e.depth-- }()
	w := widthOf(v.Type())
	if e.depth > 40 {
		return tops(w)
	}
	if e.Source != nil {
		if name, sw, ok := e.Source(v); ok {
			out := zeros(w)
			for i := 0; i < sw && i < w; i++ {
				out[i] = Bit{Kind: 2, Src: name, Idx: i}
			}
			return out
		}
	}
	switch x := v.(type) {
	case *ssa.Const:
		if k, ok := ConstInt(x); ok {
			out := zeros(w)
			for i := 0; i < w && i < 64; i++ {
				if (uint64(k)>>uint(i))&1 == 1 {
					out[i] = bit1
				}
			}
			return out
		}
		if b, ok := constBool(x); ok {
			if b {
				return []Bit{bit1}
			}
			return []Bit{bit0}
		}
	case *ssa.Convert:
		return resize(e.Bits(x.X), w)
	case *ssa.ChangeType:
		return resize(e.Bits(x.X), w)
	case *ssa.UnOp:
		if x.Op == token.NOT {
			b := e.Bits(x.X)
			if len(b) == 1 {
				switch b[0].Kind {
				case 0:
					return []Bit{bit1}
				case 1:
					return []Bit{bit0}
				}
			}
			return tops(w)
		}
	case *ssa.BinOp:
		a, b := e.Bits(x.X), e.Bits(x.Y)
		switch x.Op {
		case token.AND, token.OR, token.XOR, token.AND_NOT:
			a, b = resize(a, w), resize(b, w)
			out := make([]Bit, w)
			for i := 0; i < w; i++ {
				out[i] = combine(x.Op, a[i], b[i])
			}
			return out
		case token.SHL, token.SHR:
			k, ok := ConstInt(x.Y)
			if !ok || k < 0 || k > 64 {
				return tops(w)
			}
			a = resize(a, w)
			out := zeros(w)
			for i := 0; i < w; i++ {
				var j int
				if x.Op == token.SHL {
					j = i - int(k)
				} else {
					j = i + int(k)
				}
				if j >= 0 && j < w {
					out[i] = a[j]
				}
			}
			return out
		case token.ADD:
			a, b = resize(a, w), resize(b, w)
			out := make([]Bit, w)
			for i := 0; i < w; i++ {
				if a[i].Kind != 0 && b[i].Kind != 0 {
					return tops(w)
				}
				if a[i].Kind != 0 {
					out[i] = a[i]
				} else {
					out[i] = b[i]
				}
			}
			return out
		case token.GTR, token.NEQ, token.EQL:
			// (x & m) > 0  / != 0 / == 0 on a value with exactly one possibly-set bit
			var val []Bit
			if k, ok := ConstInt(x.Y); ok && k == 0 {
				val = a
			} else if k, ok := ConstInt(x.X); ok && k == 0 && x.Op != token.GTR {
				val = b
			}
			if val != nil {
				var cand []Bit
				for _, bb := range val {
					if bb.Kind != 0 {
						cand = append(cand, bb)
					}
				}
				if len(cand) == 1 && cand[0].Kind == 2 {
					if x.Op == token.EQL {
						return []Bit{bitTop} // negated bit: not representable, report unknown
					}
					return []Bit{cand[0]}
				}
				if len(cand) == 0 {
					if x.Op == token.EQL {
						return []Bit{bit1}
					}
					return []Bit{bit0}
				}
			}
			return []Bit{bitTop}
		}
	case *ssa.Call:
		if callee := x.Call.StaticCallee(); callee != nil && e.BoolToInt != nil && e.BoolToInt(callee) && len(x.Call.Args) == 1 {
			arg := e.Bits(x.Call.Args[0])
			out := zeros(w)
			if len(arg) >= 1 {
				out[0] = arg[0]
			}
			return out
		}
	case *ssa.Phi:
		if out, ok := e.condPhi(x, w); ok {
			return out
		}
		var out []Bit
		for i, ed := range x.Edges {
			b := resize(e.Bits(ed), w)
			if i == 0 {
				out = b
				continue
			}
			for j := range out {
				if out[j] != b[j] {
					out[j] = bitTop
				}
			}
		}
		if out != nil {
			return out
		}
	}
	return tops(w)
}

// PhiCases evaluates a phi as a list of cases: edges whose predecessor blocks are the two
// sides of one `if c` (the then-block and the branch block itself, or the then- and
// else-blocks) are merged into one case in which a bit that is 1 on the side taken when c is
// true and 0 on the other side becomes the bit of c (`if c { x |= MASK }`,
// `if c { r = 1 } else { r = 0 }`). Unrelated edges stay separate cases.
func (e *BitEval) PhiCases(x *ssa.Phi) [][]Bit {
	w := widthOf(x.Type())
	type entry struct {
		pred *ssa.BasicBlock // representative predecessor
		bits []Bit
	}
	blk := x.Block()
	var ents []entry
	for i, ed := range x.Edges {
		ents = append(ents, entry{blk.Preds[i], resize(e.Bits(ed), w)})
	}
	// the If block that decides between reaching the join directly/through p
	merge := func(a, b entry) (entry, bool) {
		// b's block is entered only from a's block, which ends in an If
		var c *ssa.BasicBlock
		aDirect := false
		switch {
		case len(b.pred.Preds) == 1 && b.pred.Preds[0] == a.pred && termIf(a.pred) != nil && len(b.pred.Succs) == 1:
			c, aDirect = a.pred, true
		case len(a.pred.Preds) == 1 && len(b.pred.Preds) == 1 && a.pred.Preds[0] == b.pred.Preds[0] && termIf(a.pred.Preds[0]) != nil && len(a.pred.Succs) == 1 && len(b.pred.Succs) == 1 && a.pred != b.pred:
			c = a.pred.Preds[0]
		default:
			return entry{}, false
		}
		cb := e.Bits(termIf(c).Cond)
		if len(cb) != 1 || cb[0].Kind != 2 {
			return entry{}, false
		}
		// which entry is the side taken when the condition is true?
		t, f := b, a
		if aDirect {
			if c.Succs[0] != b.pred {
				t, f = a, b
			}
		} else if c.Succs[0] == a.pred {
			t, f = a, b
		}
		out := make([]Bit, w)
		for i := 0; i < w; i++ {
			switch {
			case t.bits[i] == f.bits[i]:
				out[i] = t.bits[i]
			case t.bits[i].Kind == 1 && f.bits[i].Kind == 0:
				out[i] = cb[0]
			default:
				out[i] = bitTop
			}
		}
		return entry{c, out}, true
	}
	for changed := true; changed && len(ents) > 1; {
		changed = false
	search:
		for i := range ents {
			for j := range ents {
				if i == j {
					continue
				}
				if m, ok := merge(ents[i], ents[j]); ok {
					var rest []entry
					for k := range ents {
						if k != i && k != j {
							rest = append(rest, ents[k])
						}
					}
					ents = append(rest, m)
					changed = true
					break search
				}
			}
		}
	}
	var out [][]Bit
	for _, en := range ents {
		out = append(out, en.bits)
	}
	return out
}

// condPhi: the phi evaluates to a single case.
func (e *BitEval) condPhi(x *ssa.Phi, w int) ([]Bit, bool) {
	cases := e.PhiCases(x)
	if len(cases) == 1 && len(x.Edges) > 1 {
		return cases[0], true
	}
	return nil, false
}

func combine(op token.Token, a, b Bit) Bit {
	switch op {
	case token.AND:
		if a.Kind == 0 || b.Kind == 0 {
			return bit0
		}
		if a.Kind == 1 {
			return b
		}
		if b.Kind == 1 {
			return a
		}
		if a == b {
			return a
		}
	case token.OR:
		if a.Kind == 1 || b.Kind == 1 {
			return bit1
		}
		if a.Kind == 0 {
			return b
		}
		if b.Kind == 0 {
			return a
		}
		if a == b {
			return a
		}
	case token.XOR:
		if a.Kind == 0 {
			return b
		}
		if b.Kind == 0 {
			return a
		}
	case token.AND_NOT:
		if a.Kind == 0 || b.Kind == 1 {
			return bit0
		}
		if b.Kind == 0 {
			return a
		}
	}
	return bitTop
}

// IsBoolToInt reports whether f has the shape func(bool) uintN { if v {return 1}; return 0 }.
func IsBoolToInt(f *ssa.Function) bool {
	if f == nil || f.Blocks == nil || len(f.Params) != 1 {
		return false
	}
	if b, ok := f.Params[0].Type().Underlying().(*types.Basic); !ok || b.Kind() != types.Bool {
		return false
	}
	p := ValuePred("v", f.Params[0], true)
	nOne, nZero := 0, 0
	okShape := true
	Instrs(f, func(in ssa.Instruction) {
		ret, ok := in.(*ssa.Return)
		if !ok || len(ret.Results) != 1 {
			return
		}
		k, isC := ConstInt(ret.Results[0])
		if !isC {
			okShape = false
			return
		}
		switch k {
		case 1:
			nOne++
			if g := Guarded(ret, p); !g.Guarded || g.Edges == 0 {
				okShape = false
			}
		case 0:
			nZero++
			np := ValuePred("!v", f.Params[0], false)
			if g := Guarded(ret, np); !g.Guarded || g.Edges == 0 {
				okShape = false
			}
		default:
			okShape = false
		}
	})
	return okShape && nOne == 1 && nZero == 1
}

// BitsString renders a vector MSB first.
func BitsString(b []Bit) string {
	s := ""
	for i := len(b) - 1; i >= 0; i-- {
		if i != len(b)-1 {
			s += " "
		}
		s += b[i].String()
	}
	return s
}
