package eng

import (
	"fmt"
	"go/constant"

	"golang.org/x/tools/go/ssa"
)

func constBool(v ssa.Value) (bool, bool) {
	c, ok := v.(*ssa.Const)
	if !ok || c.Value == nil || c.Value.Kind() != constant.Bool {
		return false, false
	}
	return constant.BoolVal(c.Value), true
}

// TrueImplies checks that whenever the bool result (index ri) of fn is true, pred holds:
// every `return true` is cut off by pred, and every non-constant returned value is
// either the predicate's own atom with the right polarity or is computed on a path cut off by pred.
// It returns ok and a list of human-readable counterexamples.
func TrueImplies(fn *ssa.Function, ri int, pred Pred) (bool, []string) {
	var bad []string
	ok := true
	for _, b := range fn.Blocks {
		for _, in := range b.Instrs {
			ret, isRet := in.(*ssa.Return)
			if !isRet || ri >= len(ret.Results) {
				continue
			}
			if !valueTrueImplies(ret.Results[ri], ret, pred, map[ssa.Value]bool{}, &bad) {
				ok = false
			}
		}
	}
	return ok, bad
}

// valueTrueImplies: v (a bool available at instruction `at`) being true implies pred.
func valueTrueImplies(v ssa.Value, at ssa.Instruction, pred Pred, seen map[ssa.Value]bool, bad *[]string) bool {
	if seen[v] {
		return true
	}
	seen[v] = true
	if c, isC := constBool(v); isC {
		if !c {
			return true
		}
		g := Guarded(at, pred)
		if !g.Guarded {
			*bad = append(*bad, fmt.Sprintf("constant true reaches %s without %s via %v", at.Parent().Name(), pred.Name, g.Witness))
		}
		return g.Guarded
	}
	if phi, isPhi := v.(*ssa.Phi); isPhi {
		ok := true
		for i, e := range phi.Edges {
			pb := phi.Block().Preds[i]
			last := pb.Instrs[len(pb.Instrs)-1]
			// the edge pb -> phi.Block() itself may be a licensing edge
			if edgeLicensed(pb, phi.Block(), pred) {
				continue
			}
			if !valueTrueImplies(e, last, pred, seen, bad) {
				ok = false
			}
		}
		return ok
	}
	a := Normalize(v)
	if want, m := pred.Match(a); m {
		// v true  => atom == !a.Neg ; need atom == want
		if (!a.Neg) == want {
			return true
		}
	}
	// the value is something else: it must have been computed on a guarded path
	if vi, isI := v.(ssa.Instruction); isI {
		g := Guarded(vi, pred)
		if g.Guarded {
			return true
		}
	}
	g := Guarded(at, pred)
	if !g.Guarded {
		*bad = append(*bad, fmt.Sprintf("value %s can be true without %s via %v", Describe(v), pred.Name, g.Witness))
	}
	return g.Guarded
}

// EdgeLicensed reports whether the CFG edge from->to is taken only when pred holds.
func EdgeLicensed(from, to *ssa.BasicBlock, pred Pred) bool { return edgeLicensed(from, to, pred) }

func edgeLicensed(from, to *ssa.BasicBlock, pred Pred) bool {
	lic := licensedSucc(from, pred)
	for _, l := range lic {
		if from.Succs[l] == to {
			// make sure the other successor is not the same block
			if len(from.Succs) == 2 && from.Succs[0] == from.Succs[1] {
				return false
			}
			return true
		}
	}
	return false
}

// ConjunctAtoms returns the atoms (with the polarity required for a true result)
// of a bool function that is a pure conjunction: `return a && b && c` or early-return
// chains ending in `return true`. ok=false if the function has another shape.
func ConjunctAtoms(fn *ssa.Function, ri int) (atoms []Atom, ok bool) {
	// Collect: all If conditions on paths, plus the final returned value.
	// Shape accepted: every Return returns const false, const true, or a value v;
	// the set of atoms = conditions of all Ifs in fn + non-constant returned values / phi inputs.
	seen := map[ssa.Value]bool{}
	add := func(v ssa.Value, wantTrue bool) {
		if seen[v] {
			return
		}
		seen[v] = true
		a := Normalize(v)
		if !wantTrue {
			a.Neg = !a.Neg
		}
		atoms = append(atoms, a)
	}
	for _, b := range fn.Blocks {
		for _, in := range b.Instrs {
			switch x := in.(type) {
			case *ssa.If:
				// which successor leads to possibly-true result? Determine by checking
				// whether the false/true successor can only yield false.
				tTrue := canReturnTrue(fn, b.Succs[0], b, ri)
				fTrue := canReturnTrue(fn, b.Succs[1], b, ri)
				switch {
				case tTrue && !fTrue:
					add(x.Cond, true)
				case !tTrue && fTrue:
					add(x.Cond, false)
				default:
					return nil, false
				}
			case *ssa.Return:
				if ri >= len(x.Results) {
					return nil, false
				}
				r := x.Results[ri]
				if _, isC := constBool(r); isC {
					continue
				}
				if phi, isPhi := r.(*ssa.Phi); isPhi {
					for _, e := range phi.Edges {
						if _, isC := constBool(e); isC {
							continue
						}
						if _, nested := e.(*ssa.Phi); nested {
							return nil, false
						}
						add(e, true)
					}
					continue
				}
				add(r, true)
			}
		}
	}
	return atoms, true
}

// canReturnTrue: starting at block s (entered from `from`), can the function return a
// non-false value for result ri?
func canReturnTrue(fn *ssa.Function, s *ssa.BasicBlock, from *ssa.BasicBlock, ri int) bool {
	type edge struct{ from, to *ssa.BasicBlock }
	seen := map[edge]bool{}
	var walk func(from, b *ssa.BasicBlock) bool
	walk = func(from, b *ssa.BasicBlock) bool {
		e := edge{from, b}
		if seen[e] {
			return false
		}
		seen[e] = true
		for _, in := range b.Instrs {
			if ret, ok := in.(*ssa.Return); ok {
				r := ret.Results[ri]
				if c, isC := constBool(r); isC {
					return c
				}
				if phi, isPhi := r.(*ssa.Phi); isPhi && phi.Block() == b {
					for i, p := range b.Preds {
						if p == from {
							if c, isC := constBool(phi.Edges[i]); isC {
								return c
							}
							return true
						}
					}
				}
				return true
			}
		}
		for _, nx := range b.Succs {
			if walk(b, nx) {
				return true
			}
		}
		return false
	}
	return walk(from, s)
}
