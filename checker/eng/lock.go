package eng

import (
	"fmt"
	"go/token"
	"go/types"
	"sort"
	"strings"

	"golang.org/x/tools/go/ssa"
)

// GuardedField declares that Owner.Field may only be accessed while the lock
// LockOwner.LockField is held (write mode for writes; read mode suffices for reads).
type GuardedField struct {
	Owner, Field         string // e.g. pkg.node, subs
	LockOwner, LockField string // e.g. pkg.Trie, RWMutex
	SameInstance         bool   // the lock must belong to the same object as the field (Owner == LockOwner)
	// ReadMethods: methods called with &field (or field) as receiver/argument that only read.
	// Any other method call on the field counts as a write.
	ReadMethods map[string]bool
	// ValueArgIsRead: passing the field's loaded value to a call counts as a read (default true).
}

// held is one element of a lockset.
type held struct {
	class    string // LockOwner.LockField
	write    bool
	inst     string // access path of the object owning the lock
	instV    ssa.Value
	deferred bool // released by a deferred unlock
}

func (h held) key() string {
	m := "R"
	if h.write {
		m = "W"
	}
	return h.class + "|" + m + "|" + h.inst
}

type lockset map[string]held

func (l lockset) clone() lockset {
	n := lockset{}
	for k, v := range l {
		n[k] = v
	}
	return n
}

func intersect(a, b lockset) lockset {
	n := lockset{}
	for k, v := range a {
		if w, ok := b[k]; ok {
			if w.deferred && !v.deferred {
				v.deferred = false
			}
			v.deferred = v.deferred && w.deferred
			n[k] = v
		}
	}
	return n
}

func sameSet(a, b lockset) bool {
	if len(a) != len(b) {
		return false
	}
	for k, v := range a {
		if w, ok := b[k]; !ok || w.deferred != v.deferred {
			return false
		}
	}
	return true
}

// Access is one access to a guarded field.
type Access struct {
	Instr ssa.Instruction
	G     *GuardedField
	Base  ssa.Value
	Write bool
	What  string
}

// Requirement: the function needs the lock to be held by its caller.
type Requirement struct {
	Class     string
	Write     bool
	BaseParam int // parameter index whose object must own the lock, or -1 (any instance)
	Why       string
	Pos       token.Pos
}

func (r Requirement) key() string { return fmt.Sprintf("%s|%v|%d", r.Class, r.Write, r.BaseParam) }

// LockFinding is a violation found by the lock engine.
type LockFinding struct {
	Kind string // "unguarded", "leak", "unlock-not-held"
	Fn   *ssa.Function
	Pos  token.Pos
	Msg  string
	Key  string
}

// LockAnalysis is the result of the lock engine over a set of functions.
type LockAnalysis struct {
	Guards   []*GuardedField
	SyncHOF  map[string]bool // callee ids that invoke their func argument synchronously
	Fresh    func(v ssa.Value) bool
	// Exempt lists (function, lock class) pairs whose unguarded accesses are tabled exceptions:
	// they are recorded in Exempted and neither reported nor propagated to callers.
	Exempt   func(f *ssa.Function, class string) bool
	Exempted []Access
	funcs    []*ssa.Function
	cg       *CG
	in       map[*ssa.Function]map[*ssa.BasicBlock]lockset
	entry    map[*ssa.Function]lockset
	Accesses map[*ssa.Function][]Access
	Requires map[*ssa.Function]map[string]Requirement
	Findings []LockFinding
	// statistics
	NAccess, NLockOps, NFuncs int
}

func lockOp(in ssa.Instruction) (op string, recv ssa.Value, isDefer bool) {
	var cc *ssa.CallCommon
	switch x := in.(type) {
	case *ssa.Call:
		cc = &x.Call
	case *ssa.Defer:
		cc = &x.Call
		isDefer = true
	default:
		return "", nil, false
	}
	id := FuncID(CalleeObj(cc))
	switch id {
	case "sync.Mutex.Lock", "sync.RWMutex.Lock":
		op = "Lock"
	case "sync.Mutex.Unlock", "sync.RWMutex.Unlock":
		op = "Unlock"
	case "sync.RWMutex.RLock":
		op = "RLock"
	case "sync.RWMutex.RUnlock":
		op = "RUnlock"
	default:
		return "", nil, false
	}
	args := CallArgs(cc)
	if len(args) == 0 {
		return "", nil, false
	}
	return op, args[0], isDefer
}

// lockClassOf resolves the receiver of a Lock call to (class, instance path).
func lockClassOf(recv ssa.Value) (class string, inst string, instV ssa.Value, ok bool) {
	owner, field, base, ok := FieldOf(recv)
	if !ok {
		return "", "", nil, false
	}
	return owner + "." + field, Describe(base), base, true
}

// NewLockAnalysis runs the engine over funcs.
func NewLockAnalysis(funcs []*ssa.Function, cg *CG, guards []*GuardedField, syncHOF map[string]bool, exempt func(f *ssa.Function, class string) bool) *LockAnalysis {
	la := &LockAnalysis{Guards: guards, SyncHOF: syncHOF, funcs: funcs, cg: cg, Exempt: exempt,
		in:       map[*ssa.Function]map[*ssa.BasicBlock]lockset{},
		entry:    map[*ssa.Function]lockset{},
		Accesses: map[*ssa.Function][]Access{},
		Requires: map[*ssa.Function]map[string]Requirement{},
	}
	inScope := map[*ssa.Function]bool{}
	for _, f := range funcs {
		inScope[f] = true
	}
	// order: parents before closures (ScopeFuncs sorted by pos gives that), iterate twice for closure entry states
	for round := 0; round < 2; round++ {
		for _, f := range funcs {
			la.flow(f)
			// set the entry state of closures passed to synchronous higher-order callees
			la.closureEntries(f)
		}
	}
	la.NFuncs = len(funcs)
	for _, f := range funcs {
		la.collect(f)
	}
	la.propagate(inScope)
	return la
}

func (la *LockAnalysis) transfer(st lockset, in ssa.Instruction, f *ssa.Function, report bool) lockset {
	op, recv, isDefer := lockOp(in)
	if op == "" {
		return st
	}
	class, inst, instV, ok := lockClassOf(recv)
	if !ok {
		return st
	}
	if report {
		la.NLockOps++
	}
	w := op == "Lock" || op == "Unlock"
	h := held{class: class, write: w, inst: inst, instV: instV}
	switch op {
	case "Lock", "RLock":
		if isDefer {
			return st
		}
		st = st.clone()
		st[h.key()] = h
	case "Unlock", "RUnlock":
		if isDefer {
			if cur, ok := st[h.key()]; ok {
				st = st.clone()
				cur.deferred = true
				st[h.key()] = cur
			} else if report {
				// a deferred unlock placed before the lock is taken (rare) — remember as pending
				st = st.clone()
				st["pending|"+h.key()] = held{class: "pending", inst: h.key()}
			}
			return st
		}
		if _, ok := st[h.key()]; ok {
			st = st.clone()
			delete(st, h.key())
		} else if report {
			la.Findings = append(la.Findings, LockFinding{Kind: "unlock-not-held", Fn: f, Pos: in.Pos(),
				Key: "unlock-not-held:" + class, Msg: fmt.Sprintf("%s of %s on a path where it is not held (must-analysis)", op, class)})
		}
	}
	return st
}

// flow computes the must-held locksets at block entries.
func (la *LockAnalysis) flow(f *ssa.Function) {
	ins := map[*ssa.BasicBlock]lockset{}
	entry := la.entry[f]
	if entry == nil {
		entry = lockset{}
	}
	ins[f.Blocks[0]] = entry.clone()
	work := []*ssa.BasicBlock{f.Blocks[0]}
	for len(work) > 0 {
		b := work[0]
		work = work[1:]
		st := ins[b]
		for _, in := range b.Instrs {
			st = la.transfer(st, in, f, false)
		}
		for _, s := range b.Succs {
			old, seen := ins[s]
			var nw lockset
			if !seen {
				nw = st.clone()
			} else {
				nw = intersect(old, st)
			}
			if !seen || !sameSet(old, nw) {
				ins[s] = nw
				work = append(work, s)
			}
		}
	}
	la.in[f] = ins
}

// At returns the lockset holding just before instruction in.
func (la *LockAnalysis) At(in ssa.Instruction) lockset {
	f := in.Parent()
	b := in.Block()
	st, ok := la.in[f][b]
	if !ok {
		return lockset{}
	}
	for _, x := range b.Instrs {
		if x == in {
			break
		}
		st = la.transfer(st, x, f, false)
	}
	return st
}

func (la *LockAnalysis) closureEntries(f *ssa.Function) {
	for _, b := range f.Blocks {
		for _, in := range b.Instrs {
			call, ok := in.(*ssa.Call)
			if !ok {
				continue
			}
			id := FuncID(CalleeObj(&call.Call))
			sync := la.SyncHOF[id]
			if !sync {
				continue
			}
			for _, a := range CallArgs(&call.Call) {
				if mc, ok := a.(*ssa.MakeClosure); ok {
					if cf, ok := mc.Fn.(*ssa.Function); ok {
						la.entry[cf] = la.At(call).clone()
					}
				}
			}
		}
	}
}

// isSyncClosure reports whether f is a closure whose entry state was inherited.
func (la *LockAnalysis) isSyncClosure(f *ssa.Function) bool {
	_, ok := la.entry[f]
	return ok
}

func (la *LockAnalysis) guardFor(owner, field string) *GuardedField {
	for _, g := range la.Guards {
		if g.Owner == owner && g.Field == field {
			return g
		}
	}
	return nil
}

// accessesOf enumerates accesses to guarded fields in f.
func (la *LockAnalysis) accessesOf(f *ssa.Function) []Access {
	var out []Access
	add := func(in ssa.Instruction, g *GuardedField, base ssa.Value, w bool, what string) {
		out = append(out, Access{Instr: in, G: g, Base: base, Write: w, What: what})
	}
	var useOfValue func(v ssa.Value, g *GuardedField, base ssa.Value, depth int)
	useOfValue = func(v ssa.Value, g *GuardedField, base ssa.Value, depth int) {
		refs := v.Referrers()
		if refs == nil || depth > 3 {
			return
		}
		for _, r := range *refs {
			switch x := r.(type) {
			case *ssa.MapUpdate:
				if x.Map == v {
					add(x, g, base, true, "map update")
				}
			case *ssa.Call:
				if b, ok := x.Call.Value.(*ssa.Builtin); ok {
					switch b.Name() {
					case "delete":
						if len(x.Call.Args) > 0 && x.Call.Args[0] == v {
							add(x, g, base, true, "map delete")
						}
					}
				}
			case *ssa.ChangeType:
				useOfValue(x, g, base, depth+1)
			}
		}
	}
	for _, b := range f.Blocks {
		for _, in := range b.Instrs {
			switch fa := in.(type) {
			case *ssa.FieldAddr:
				owner, field, base, ok := FieldOf(fa)
				if !ok {
					continue
				}
				g := la.guardFor(owner, field)
				if g == nil {
					continue
				}
				refs := fa.Referrers()
				if refs == nil {
					continue
				}
				for _, r := range *refs {
					switch x := r.(type) {
					case *ssa.Store:
						if x.Addr == fa {
							add(x, g, base, true, "store")
						}
					case *ssa.UnOp:
						if x.Op == token.MUL {
							add(x, g, base, false, "load")
							useOfValue(x, g, base, 0)
						}
					case ssa.CallInstruction:
						cc := x.Common()
						name := "call"
						if obj := CalleeObj(cc); obj != nil {
							name = obj.Name()
						}
						w := !g.ReadMethods[name]
						add(x, g, base, w, "method "+name)
					case *ssa.FieldAddr, *ssa.IndexAddr:
						// nested access: conservatively a read at this point
						add(x.(ssa.Instruction), g, base, false, "address of element")
					}
				}
			case *ssa.Field:
				owner, field, base, ok := FieldOf(fa)
				if !ok {
					continue
				}
				g := la.guardFor(owner, field)
				if g == nil {
					continue
				}
				add(fa, g, base, false, "load")
				useOfValue(fa, g, base, 0)
			}
		}
	}
	return out
}

// rootParam returns the index of the parameter/freevar v denotes (through loads), or -1.
func rootParam(f *ssa.Function, v ssa.Value) int {
	for d := 0; d < 6 && v != nil; d++ {
		switch x := v.(type) {
		case *ssa.Parameter:
			for i, p := range f.Params {
				if p == x {
					return i
				}
			}
			return -1
		case *ssa.UnOp:
			v = x.X
		case *ssa.ChangeType:
			v = x.X
		default:
			return -1
		}
	}
	return -1
}

func (la *LockAnalysis) addReq(f *ssa.Function, r Requirement) bool {
	m := la.Requires[f]
	if m == nil {
		m = map[string]Requirement{}
		la.Requires[f] = m
	}
	if _, ok := m[r.key()]; ok {
		return false
	}
	m[r.key()] = r
	return true
}

// satisfied reports whether lockset st satisfies a need for class (write?) on the instance base.
func satisfied(st lockset, class string, write bool, sameInst bool, base ssa.Value) bool {
	for _, h := range st {
		if h.class != class {
			continue
		}
		if write && !h.write {
			continue
		}
		if sameInst && base != nil {
			if !(SameValue(h.instV, base) || h.inst == Describe(base)) {
				continue
			}
		}
		return true
	}
	return false
}

func (la *LockAnalysis) collect(f *ssa.Function) {
	// re-run transfer with reporting (unlock-not-held) and check exits
	ins := la.in[f]
	for _, b := range f.Blocks {
		st, ok := ins[b]
		if !ok {
			continue // unreachable
		}
		for _, in := range b.Instrs {
			if _, isRet := in.(*ssa.Return); isRet {
				for _, h := range st {
					if h.class == "pending" {
						continue
					}
					if inherited, ok := la.entry[f][h.key()]; ok && inherited.key() == h.key() {
						continue // held by the caller of a synchronous closure
					}
					if !h.deferred {
						la.Findings = append(la.Findings, LockFinding{Kind: "leak", Fn: f, Pos: in.Pos(), Key: "leak:" + h.class,
							Msg: fmt.Sprintf("return with %s still held and no deferred unlock", h.class)})
					}
				}
			}
			st = la.transfer(st, in, f, true)
		}
	}
	acc := la.accessesOf(f)
	la.Accesses[f] = acc
	la.NAccess += len(acc)
	for _, a := range acc {
		if la.Fresh != nil && la.Fresh(a.Base) {
			continue
		}
		if isFreshAlloc(a.Base, 0) {
			continue
		}
		class := a.G.LockOwner + "." + a.G.LockField
		st := la.At(a.Instr)
		if satisfied(st, class, a.Write, a.G.SameInstance, a.Base) {
			continue
		}
		if la.Exempt != nil && la.Exempt(f, class) && !a.Write {
			la.Exempted = append(la.Exempted, a)
			continue
		}
		bp := -1
		if a.G.SameInstance {
			bp = rootParam(f, a.Base)
		}
		la.addReq(f, Requirement{Class: class, Write: a.Write, BaseParam: bp, Pos: a.Instr.Pos(),
			Why: fmt.Sprintf("%s of %s.%s in %s", a.What, shortType(a.G.Owner), a.G.Field, f.Name())})
	}
}

func shortType(s string) string {
	if i := strings.LastIndex(s, "/"); i >= 0 {
		return s[i+1:]
	}
	return s
}

// isFreshAlloc: v is an object allocated in this function (constructor idiom) or returned
// by a constructor-shaped function (every return is a fresh allocation), depth-limited.
func isFreshAlloc(v ssa.Value, depth int) bool {
	if depth > 3 || v == nil {
		return false
	}
	switch x := v.(type) {
	case *ssa.Alloc:
		return true
	case *ssa.Call:
		callee := x.Call.StaticCallee()
		if callee == nil || callee.Blocks == nil {
			return false
		}
		n := 0
		for _, b := range callee.Blocks {
			for _, in := range b.Instrs {
				if ret, ok := in.(*ssa.Return); ok {
					if len(ret.Results) == 0 {
						return false
					}
					n++
					if !isFreshAlloc(ret.Results[0], depth+1) {
						return false
					}
				}
			}
		}
		return n > 0
	case *ssa.UnOp:
		if x.Op == token.MUL {
			// load from a local variable holding a fresh pointer
			if a, ok := x.X.(*ssa.Alloc); ok {
				refs := a.Referrers()
				if refs == nil {
					return false
				}
				n := 0
				for _, r := range *refs {
					if st, ok := r.(*ssa.Store); ok && st.Addr == a {
						n++
						if !isFreshAlloc(st.Val, depth+1) {
							return false
						}
					}
				}
				return n > 0
			}
		}
	case *ssa.Phi:
		for _, e := range x.Edges {
			if !isFreshAlloc(e, depth+1) {
				return false
			}
		}
		return len(x.Edges) > 0
	case *ssa.ChangeType:
		return isFreshAlloc(x.X, depth+1)
	}
	return false
}

// propagate pushes requirements to callers until they are discharged by a held lock
// or reach a root (no in-scope caller, exported API, go statement, stored callback).
func (la *LockAnalysis) propagate(inScope map[*ssa.Function]bool) {
	type item struct {
		f *ssa.Function
		r Requirement
	}
	var work []item
	for f, m := range la.Requires {
		for _, r := range m {
			work = append(work, item{f, r})
		}
	}
	sort.Slice(work, func(i, j int) bool {
		if work[i].f.String() != work[j].f.String() {
			return work[i].f.String() < work[j].f.String()
		}
		return work[i].r.key() < work[j].r.key()
	})
	reported := map[string]bool{}
	report := func(f *ssa.Function, r Requirement, why string) {
		k := f.String() + "|" + r.key()
		if reported[k] {
			return
		}
		reported[k] = true
		mode := "read"
		if r.Write {
			mode = "write"
		}
		la.Findings = append(la.Findings, LockFinding{Kind: "unguarded", Fn: f, Pos: r.Pos,
			Key: "unguarded:" + r.Class + ":" + f.String(),
			Msg: fmt.Sprintf("%s requires %s (%s) but %s; origin: %s", f.String(), r.Class, mode, why, r.Why)})
	}
	for len(work) > 0 {
		it := work[0]
		work = work[1:]
		f, r := it.f, it.r
		if la.isSyncClosure(f) {
			// entry state was inherited from the creation site; an unmet requirement is final
			// unless the parent can be asked: push to the parent function with any-instance
			if p := f.Parent(); p != nil {
				// find the site where the closure is passed
				pushed := false
				Instrs(p, func(in ssa.Instruction) {
					call, ok := in.(*ssa.Call)
					if !ok {
						return
					}
					for _, a := range CallArgs(&call.Call) {
						if mc, ok := a.(*ssa.MakeClosure); ok && mc.Fn == f {
							nr := r
							nr.BaseParam = -1
							// translate free variable to the parent's value
							if la.addReq(p, nr) {
								work = append(work, item{p, nr})
							}
							pushed = true
						}
					}
				})
				if pushed {
					continue
				}
			}
			report(f, r, "the closure is not invoked under the lock")
			continue
		}
		nIn := 0
		var edges []Edge
		if la.cg != nil {
			edges = la.cg.In[f]
		}
		for _, e := range edges {
			caller := e.Caller
			nIn++
			switch e.Site.(type) {
			case *ssa.Go:
				report(f, r, "it is started as a goroutine from "+caller.String())
				continue
			case *ssa.Defer:
				report(f, r, "it is deferred in "+caller.String()+" (lock state at exit not tracked)")
				continue
			}
			site := e.Site.(ssa.Instruction)
			st := la.At(site)
			var actual ssa.Value
			if r.BaseParam >= 0 {
				args := CallArgs(e.Site.Common())
				if e.Kind == "funcvalue" {
					// bound method value: the receiver is not among the call's arguments
					args = nil
				}
				if r.BaseParam < len(args) {
					actual = args[r.BaseParam]
				}
			}
			if satisfied(st, r.Class, r.Write, r.BaseParam >= 0 && actual != nil, actual) {
				continue
			}
			nr := Requirement{Class: r.Class, Write: r.Write, BaseParam: -1, Why: r.Why + " <- " + f.Name(), Pos: site.Pos()}
			if actual != nil {
				if isFreshAlloc(actual, 0) {
					continue
				}
				nr.BaseParam = rootParam(caller, actual)
				if nr.BaseParam < 0 {
					// the instance is not a parameter of the caller: cannot be discharged further up
					report(caller, nr, "the lock of the accessed object ("+Describe(actual)+") is not held at the call to "+f.Name())
					continue
				}
			}
			if la.addReq(caller, nr) {
				work = append(work, item{caller, nr})
			}
		}
		if nIn == 0 {
			if f.Parent() == nil && f.Object() != nil && !f.Object().Exported() {
				// an unexported declared function without any call, go, defer, interface or
				// function-value edge is unreachable (e.g. a helper whose calls were all
				// inlined by the normalisation): nothing to discharge
				continue
			}
			why := "it has no in-scope caller that holds it (API root or callback)"
			report(f, r, why)
		} else if f.Object() != nil && f.Object().Exported() && isExportedRecv(f) {
			report(f, r, "it is exported API, callable without the lock")
		}
	}
	sort.Slice(la.Findings, func(i, j int) bool {
		if la.Findings[i].Key != la.Findings[j].Key {
			return la.Findings[i].Key < la.Findings[j].Key
		}
		return la.Findings[i].Pos < la.Findings[j].Pos
	})
}

func isExportedRecv(f *ssa.Function) bool {
	sig := f.Signature
	if sig.Recv() == nil {
		return true
	}
	t := sig.Recv().Type()
	if p, ok := t.(*types.Pointer); ok {
		t = p.Elem()
	}
	if n, ok := t.(*types.Named); ok {
		return n.Obj().Exported()
	}
	return false
}

// Holds reports whether, just before instruction in, a lock of the given class
// (LockOwner.LockField) is held in at least the given mode (must-analysis).
func (la *LockAnalysis) Holds(in ssa.Instruction, class string, write bool) bool {
	return satisfied(la.At(in), class, write, false, nil)
}
