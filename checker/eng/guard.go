package eng

import (
	"fmt"
	"go/constant"
	"go/token"
	"strings"

	"golang.org/x/tools/go/ssa"
)

// Pred decides, for a normalised atom, whether the predicate P is established
// when the atom evaluates to the returned truth value.
// ok=false: the atom is unrelated to P.
type Pred struct {
	Name  string
	Match func(a Atom) (holdsWhenAtom bool, ok bool)
}

// bstate is a CFG position refined by the predecessor the block was entered from. The
// refinement matters for blocks whose terminating If tests a phi defined in the same block
// (how go/ssa lowers a short-circuit expression used as a value, e.g. the case expressions of
// a tagless switch): knowing the incoming edge tells which operand the phi carries.
type bstate struct {
	b    *ssa.BasicBlock
	from int // index into b.Preds, or -1 when irrelevant
}

func termIf(b *ssa.BasicBlock) *ssa.If {
	if len(b.Instrs) == 0 {
		return nil
	}
	ifi, _ := b.Instrs[len(b.Instrs)-1].(*ssa.If)
	return ifi
}

// phiCond reports whether b ends in an If whose condition is, or compares, a phi defined in b
// itself: then the condition depends on the edge b was entered from.
func phiCond(b *ssa.BasicBlock) *ssa.Phi {
	ifi := termIf(b)
	if ifi == nil {
		return nil
	}
	a := Normalize(ifi.Cond)
	own := func(v ssa.Value) *ssa.Phi {
		if v == nil {
			return nil
		}
		if p, ok := StripConv(v).(*ssa.Phi); ok && p.Block() == b {
			return p
		}
		return nil
	}
	if a.Op == token.ILLEGAL {
		return own(a.V)
	}
	if p := own(a.X); p != nil {
		return p
	}
	return own(a.Y)
}

// effAtom returns the condition tested at the end of s.b as an atom, specialised to the
// incoming edge: a phi of s.b that is the condition or one of its comparison operands is
// replaced by the value it carries on that edge.
func effAtom(s bstate) (Atom, bool) {
	ifi := termIf(s.b)
	if ifi == nil {
		return Atom{}, false
	}
	a := Normalize(ifi.Cond)
	if s.from < 0 {
		return a, true
	}
	sub := func(v ssa.Value) (ssa.Value, bool) {
		if v == nil {
			return v, false
		}
		if p, ok := StripConv(v).(*ssa.Phi); ok && p.Block() == s.b && s.from < len(p.Edges) {
			return p.Edges[s.from], true
		}
		return v, false
	}
	if a.Op == token.ILLEGAL {
		if e, ok := sub(a.V); ok {
			n := Normalize(e)
			n.Neg = n.Neg != a.Neg
			return n, true
		}
		return a, true
	}
	if e, ok := sub(a.X); ok {
		a.X = e
		a.V = nil // no longer the original comparison instruction
	}
	if e, ok := sub(a.Y); ok {
		a.Y = e
		a.V = nil
	}
	return a, true
}

// atomConst evaluates an atom whose truth value is known statically (bool constants,
// comparisons of two constants, nil against a freshly made value); the returned value is
// that of the condition (negation applied).
func atomConst(a Atom) (bool, bool) {
	switch a.Op {
	case token.ILLEGAL:
		if c, ok := constBool(a.V); ok {
			return c != a.Neg, true
		}
	case token.EQL:
		x, xok := StripConv(a.X).(*ssa.Const)
		y, yok := StripConv(a.Y).(*ssa.Const)
		if xok && yok {
			if x.Value == nil || y.Value == nil {
				return (x.Value == nil && y.Value == nil) != a.Neg, true
			}
			if x.Value.Kind() == y.Value.Kind() {
				return constant.Compare(x.Value, token.EQL, y.Value) != a.Neg, true
			}
		}
		if (xok && x.Value == nil && KnownNonNil(a.Y)) || (yok && y.Value == nil && KnownNonNil(a.X)) {
			return a.Neg, true // value == nil is false
		}
	case token.LSS:
		x, xok := ConstInt(a.X)
		y, yok := ConstInt(a.Y)
		if xok && yok {
			return (x < y) != a.Neg, true
		}
	}
	return false, false
}

// succStates returns, for every feasible successor of s, its index and the refined state.
func succStates(s bstate) (idx []int, out []bstate) {
	a, ok := effAtom(s)
	for i, nx := range s.b.Succs {
		if ok {
			if val, isC := atomConst(a); isC {
				if (i == 0) != val {
					continue // infeasible edge for this incoming value
				}
			}
		}
		ns := bstate{nx, -1}
		if phiCond(nx) != nil {
			for k, p := range nx.Preds {
				if p == s.b {
					ns.from = k
					break
				}
			}
		}
		idx = append(idx, i)
		out = append(out, ns)
	}
	return
}

// licensedFrom returns the successor indices of s on which pred holds.
func licensedFrom(s bstate, p Pred) []int {
	a, ok := effAtom(s)
	if !ok {
		return nil
	}
	if _, isC := atomConst(a); isC {
		return nil
	}
	if s.from >= 0 {
		// the condition as written (over the phi) is tried first, then its edge-specialised form
		if l := licensedByAtom(Normalize(termIf(s.b).Cond), p); l != nil {
			return l
		}
	}
	return licensedByAtom(a, p)
}

// licensedSucc: unrefined variant (used where no path context exists).
func licensedSucc(b *ssa.BasicBlock, p Pred) []int {
	if phiCond(b) != nil {
		// union over incoming edges is not sound for "licensed"; report only if all agree
		var common []int
		for k := range b.Preds {
			l := licensedFrom(bstate{b, k}, p)
			if k == 0 {
				common = l
				continue
			}
			var keep []int
			for _, x := range common {
				for _, y := range l {
					if x == y {
						keep = append(keep, x)
					}
				}
			}
			common = keep
		}
		return common
	}
	return licensedFrom(bstate{b, -1}, p)
}

func licensedByCond(cond ssa.Value, p Pred, depth int) []int {
	return licensedByAtom(Normalize(cond), p)
}

func licensedByAtom(a Atom, p Pred) []int {
	if want, ok := p.Match(a); ok {
		// atom value needed: want. cond = atom XOR neg.
		condVal := want != a.Neg // cond value when atom == want
		if condVal {
			return []int{0}
		}
		return []int{1}
	}
	return nil
}

// pstate is a bstate plus the outcomes of the tests already taken on the path (a small memo
// keyed by the tested atom): a later test of the very same SSA values must have the same
// outcome, so paths that contradict themselves are not explored. The memo is dropped on loop
// back edges (values are recomputed in the next iteration).
type pstate struct {
	bstate
	memo string
}

func valKey(v ssa.Value) string {
	if v == nil {
		return "-"
	}
	v = StripConv(v)
	if c, ok := v.(*ssa.Const); ok {
		if c.Value == nil {
			return "c:nil"
		}
		return "c:" + c.Value.ExactString()
	}
	return fmt.Sprintf("%p", v)
}

func atomKey(a Atom) string {
	if a.Op == token.ILLEGAL {
		return "v" + valKey(a.V)
	}
	return fmt.Sprintf("%d(%s,%s)", a.Op, valKey(a.X), valKey(a.Y))
}

func memoLookup(memo, key string) (val bool, ok bool) {
	for _, e := range strings.Split(memo, ";") {
		if len(e) > 2 && e[:len(e)-2] == key {
			return e[len(e)-1] == '1', true
		}
	}
	return false, false
}

func memoAdd(memo, key string, val bool) string {
	ents := []string{}
	if memo != "" {
		ents = strings.Split(memo, ";")
	}
	if len(ents) >= 8 {
		ents = ents[1:]
	}
	b := "0"
	if val {
		b = "1"
	}
	ents = append(ents, key+"="+b)
	return strings.Join(ents, ";")
}

// psuccs returns the feasible successors of s (index and refined state).
func psuccs(s pstate) (idx []int, out []pstate) {
	a, ok := effAtom(s.bstate)
	is, ns := succStates(s.bstate)
	isConst := false
	if ok {
		_, isConst = atomConst(a)
	}
	for k, n := range ns {
		memo := s.memo
		if ok && !isConst && len(s.b.Succs) == 2 {
			key := atomKey(a)
			atomVal := (is[k] == 0) != a.Neg
			if prev, seen := memoLookup(memo, key); seen {
				if prev != atomVal {
					continue // contradicts an earlier test of the same values
				}
			} else {
				memo = memoAdd(memo, key, atomVal)
			}
		}
		if n.b.Dominates(s.b) {
			memo = ""
		}
		idx = append(idx, is[k])
		out = append(out, pstate{n, memo})
	}
	return
}

// GuardResult of a cut-set query.
type GuardResult struct {
	Guarded bool
	Witness []string // block path avoiding every licensing edge
	Edges   int      // number of licensing edges found
}

func countLicensing(fn *ssa.Function, pred Pred) int {
	n := 0
	for _, b := range fn.Blocks {
		if phiCond(b) != nil {
			seen := map[int]bool{}
			for k := range b.Preds {
				for _, l := range licensedFrom(bstate{b, k}, pred) {
					if !seen[l] {
						seen[l] = true
					}
				}
			}
			n += len(seen)
			continue
		}
		n += len(licensedFrom(bstate{b, -1}, pred))
	}
	return n
}

// Guarded reports whether every path from fn's entry to the target instruction
// passes through an edge on which pred holds.
func Guarded(target ssa.Instruction, pred Pred) GuardResult {
	fn := target.Parent()
	tb := target.Block()
	start := pstate{bstate{fn.Blocks[0], -1}, ""}
	prev := map[pstate]pstate{}
	seen := map[pstate]bool{start: true}
	queue := []pstate{start}
	edges := countLicensing(fn, pred)
	var hit *pstate
	for len(queue) > 0 && hit == nil {
		s := queue[0]
		queue = queue[1:]
		if s.b == tb {
			x := s
			hit = &x
			break
		}
		lic := licensedFrom(s.bstate, pred)
		idx, nxt := psuccs(s)
		for k, ns := range nxt {
			skip := false
			for _, l := range lic {
				if l == idx[k] {
					skip = true
				}
			}
			if skip || seen[ns] {
				continue
			}
			seen[ns] = true
			prev[ns] = s
			queue = append(queue, ns)
		}
	}
	if hit == nil {
		return GuardResult{Guarded: true, Edges: edges}
	}
	var path []string
	for x := *hit; ; {
		path = append([]string{fmt.Sprintf("block %d (%s)", x.b.Index, x.b.Comment)}, path...)
		p, ok := prev[x]
		if !ok {
			break
		}
		x = p
	}
	return GuardResult{Guarded: false, Witness: path, Edges: edges}
}

// ---- predicate constructors ------------------------------------------------

// CallPred: the atom is a call (or an Extract #idx of a call) of callee id whose
// arguments satisfy argOK; P holds when the result equals want.
func CallPred(name string, id string, resultIdx int, want bool, argOK func(args []ssa.Value) bool) Pred {
	return Pred{Name: name, Match: func(a Atom) (bool, bool) {
		if a.Op != token.ILLEGAL {
			return false, false
		}
		v := a.V
		idx := -1
		if e, ok := v.(*ssa.Extract); ok {
			idx = e.Index
			v = e.Tuple
		}
		c, ok := v.(*ssa.Call)
		if !ok {
			return false, false
		}
		if FuncID(CalleeObj(&c.Call)) != id {
			return false, false
		}
		if resultIdx >= 0 && idx != resultIdx {
			return false, false
		}
		if resultIdx < 0 && idx != -1 {
			return false, false
		}
		if argOK != nil && !argOK(CallArgs(&c.Call)) {
			return false, false
		}
		return want, true
	}}
}

// ValuePred: the atom is exactly the given SSA value (e.g. the `allowed` Extract).
func ValuePred(name string, v ssa.Value, want bool) Pred {
	return Pred{Name: name, Match: func(a Atom) (bool, bool) {
		if a.Op != token.ILLEGAL {
			// the value is itself a comparison instruction
			if a.V != nil && a.V == v {
				return want != a.VInv, true
			}
			return false, false
		}
		if SameValue(a.V, v) {
			return want, true
		}
		return false, false
	}}
}

// EqPred: atom is X == Y where sel(X,Y) (either order) holds; P = (X==Y) == want.
func EqPred(name string, want bool, sel func(x, y ssa.Value) bool) Pred {
	return Pred{Name: name, Match: func(a Atom) (bool, bool) {
		if a.Op != token.EQL {
			return false, false
		}
		if sel(a.X, a.Y) || sel(a.Y, a.X) {
			return want, true
		}
		return false, false
	}}
}

// LtPred: atom is X < Y with sel(X,Y); P = (X<Y) == want.
// The reversed relation (Y < X) is not matched.
func LtPred(name string, want bool, sel func(x, y ssa.Value) bool) Pred {
	return Pred{Name: name, Match: func(a Atom) (bool, bool) {
		if a.Op != token.LSS {
			return false, false
		}
		if sel(a.X, a.Y) {
			return want, true
		}
		return false, false
	}}
}

// IsNilConst reports whether v is the nil constant.
func IsNilConst(v ssa.Value) bool {
	c, ok := v.(*ssa.Const)
	return ok && c.Value == nil
}

// ---- ordering (O) ----------------------------------------------------------

// Reach explores forward from the instruction after `from` (or from fn entry
// if from == nil), stopping at instructions for which stop() is true, and reports
// whether an instruction satisfying goal() is reachable. The witness is the block path.
func Reach(fn *ssa.Function, from ssa.Instruction, stop func(ssa.Instruction) bool, goal func(ssa.Instruction) bool) (bool, []string) {
	// The exploration is over path states (block, incoming edge for phi-tested conditions,
	// outcomes of earlier tests), so a path that contradicts its own tests is not reported.
	start := pstate{bstate{fn.Blocks[0], -1}, ""}
	if from != nil {
		start = pstate{bstate{from.Block(), -1}, ""}
	}
	prev := map[pstate]pstate{}
	seen := map[pstate]bool{}
	queue := []pstate{start}
	first := true
	for len(queue) > 0 {
		s := queue[0]
		queue = queue[1:]
		skipping := first && from != nil
		first = false
		stopped := false
		for _, in := range s.b.Instrs {
			if skipping {
				if in == from {
					skipping = false
				}
				continue
			}
			if goal(in) {
				var path []string
				for x, n := s, 0; n < 200; n++ {
					path = append([]string{fmt.Sprintf("block %d (%s)", x.b.Index, x.b.Comment)}, path...)
					p, ok := prev[x]
					if !ok {
						break
					}
					x = p
				}
				return true, path
			}
			if stop != nil && stop(in) {
				stopped = true
				break
			}
		}
		if stopped {
			continue
		}
		_, nxt := psuccs(s)
		for _, ns := range nxt {
			if seen[ns] {
				continue
			}
			seen[ns] = true
			prev[ns] = s
			queue = append(queue, ns)
		}
	}
	return false, nil
}

// ReachEdge is Reach started at the top of block b entered through its predecessor edge
// b.Preds[in] (so that conditions testing a phi of b are specialised to the value that edge
// carries): is an instruction satisfying goal reachable without passing one satisfying stop
// and without entering b again?
func ReachEdge(fn *ssa.Function, b *ssa.BasicBlock, in int, stop func(ssa.Instruction) bool, goal func(ssa.Instruction) bool) bool {
	start := pstate{bstate{b, in}, ""}
	seen := map[pstate]bool{start: true}
	queue := []pstate{start}
	for len(queue) > 0 {
		s := queue[0]
		queue = queue[1:]
		stopped := false
		for _, ins := range s.b.Instrs {
			if goal(ins) {
				return true
			}
			if stop != nil && stop(ins) {
				stopped = true
				break
			}
		}
		if stopped {
			continue
		}
		_, nxt := psuccs(s)
		for _, ns := range nxt {
			if ns.b == b {
				continue // re-entering b gives its phis new values: another question
			}
			if !seen[ns] {
				seen[ns] = true
				queue = append(queue, ns)
			}
		}
	}
	return false
}

// IsReturn reports a normal return instruction.
func IsReturn(in ssa.Instruction) bool {
	_, ok := in.(*ssa.Return)
	return ok
}

// MustPass reports whether every path from `from` (nil = entry) to a normal return
// passes an instruction matching m. Returns (ok, witness path to an unprotected return).
func MustPass(fn *ssa.Function, from ssa.Instruction, m func(ssa.Instruction) bool) (bool, []string) {
	reached, path := Reach(fn, from, m, IsReturn)
	return !reached, path
}

// InLoop reports whether the instruction's block lies on a CFG cycle.
func InLoop(in ssa.Instruction) bool {
	b := in.Block()
	seen := map[*ssa.BasicBlock]bool{}
	var stack []*ssa.BasicBlock
	stack = append(stack, b.Succs...)
	for len(stack) > 0 {
		x := stack[len(stack)-1]
		stack = stack[:len(stack)-1]
		if x == b {
			return true
		}
		if seen[x] {
			continue
		}
		seen[x] = true
		stack = append(stack, x.Succs...)
	}
	return false
}

// Dominates reports whether instruction a dominates instruction b (same function).
func Dominates(a, b ssa.Instruction) bool {
	ba, bb := a.Block(), b.Block()
	if ba == bb {
		for _, in := range ba.Instrs {
			if in == a {
				return true
			}
			if in == b {
				return false
			}
		}
		return false
	}
	return ba.Dominates(bb)
}

// MustFollow checks the "if" direction of a pairing rule: there is no path from the
// function entry to a normal return that (a) passes a licensing edge of every predicate
// in preds (and does not afterwards take the opposite edge of the same test) and
// (b) does not execute an instruction matching effect. It returns ok and a witness.
// Paths that take contradictory edges of tests on the very same SSA value (e.g. the cases
// `x == true` and `x == false` of one switch) are infeasible and pruned; the memory of
// tested values is dropped on loop back edges.
func MustFollow(fn *ssa.Function, preds []Pred, effect func(ssa.Instruction) bool) (bool, []string) {
	return MustFollowFrom(fn, nil, preds, effect)
}

// MustFollowFrom is MustFollow for the paths that start right after the instruction `from`
// (nil: at the function entry).
func MustFollowFrom(fn *ssa.Function, from ssa.Instruction, preds []Pred, effect func(ssa.Instruction) bool) (bool, []string) {
	const maxP = 8
	if len(preds) > maxP {
		preds = preds[:maxP]
	}
	type state struct {
		s     bstate
		memo  string // outcomes of the tests taken so far (see pstate)
		flags uint32
		est   [maxP]ssa.Value // atom that established pred i on this path
		ref   [maxP]ssa.Value // atom that refuted pred i on this path
	}
	full := uint32(1)<<uint(len(preds)) - 1
	start := state{s: bstate{fn.Blocks[0], -1}}
	if from != nil {
		start = state{s: bstate{from.Block(), -1}}
	}
	first := true
	seen := map[state]bool{}
	prev := map[state]state{}
	queue := []state{start}
	atomOf := func(s bstate) ssa.Value {
		a, ok := effAtom(s)
		if !ok {
			return nil
		}
		if a.V == nil && a.Op != token.ILLEGAL {
			// substituted comparison: identify it by the substituted operand
			if _, isC := StripConv(a.Y).(*ssa.Const); isC {
				return a.X
			}
			return a.Y
		}
		return a.V
	}
	for len(queue) > 0 {
		s := queue[0]
		queue = queue[1:]
		hit := false
		skipping := first && from != nil
		first = false
		for _, in := range s.s.b.Instrs {
			if skipping {
				if in == from {
					skipping = false
				}
				continue
			}
			if effect(in) {
				hit = true
				break
			}
			if IsReturn(in) && s.flags == full {
				var path []string
				for x := s; ; {
					path = append([]string{fmt.Sprintf("block %d (%s) flags=%b", x.s.b.Index, x.s.b.Comment, x.flags)}, path...)
					p, ok := prev[x]
					if !ok {
						break
					}
					x = p
				}
				return false, path
			}
		}
		if hit {
			continue
		}
		idx, pnxt := psuccs(pstate{s.s, s.memo})
		av := atomOf(s.s)
		for k, pn := range pnxt {
			nb := pn.bstate
			i := idx[k]
			ns := state{s: nb, memo: pn.memo, flags: s.flags, est: s.est, ref: s.ref}
			infeasible := false
			for pi, p := range preds {
				lic := licensedFrom(s.s, p)
				if len(lic) == 0 {
					continue
				}
				isLic := false
				for _, l := range lic {
					if l == i {
						isLic = true
					}
				}
				if isLic {
					if av != nil && ns.ref[pi] == av {
						infeasible = true
					}
					ns.flags |= 1 << uint(pi)
					ns.est[pi] = av
				} else {
					if av != nil && ns.est[pi] == av && ns.flags&(1<<uint(pi)) != 0 {
						infeasible = true
					}
					ns.flags &^= 1 << uint(pi)
					ns.est[pi] = nil
					ns.ref[pi] = av
				}
			}
			if infeasible {
				continue
			}
			if nb.b.Dominates(s.s.b) { // loop back edge: values are recomputed
				ns.est = [maxP]ssa.Value{}
				ns.ref = [maxP]ssa.Value{}
			}
			if !seen[ns] {
				seen[ns] = true
				prev[ns] = s
				queue = append(queue, ns)
			}
		}
	}
	return true, nil
}

// HasLicensingEdge reports whether fn contains at least one edge establishing pred.
func HasLicensingEdge(fn *ssa.Function, pred Pred) bool {
	return countLicensing(fn, pred) > 0
}

// IsBuiltinCall reports whether in is a call of the named builtin; returns its args.
func IsBuiltinCall(in ssa.Instruction, name string) ([]ssa.Value, bool) {
	c, ok := in.(*ssa.Call)
	if !ok {
		return nil, false
	}
	b, ok := c.Call.Value.(*ssa.Builtin)
	if !ok || b.Name() != name {
		return nil, false
	}
	return c.Call.Args, true
}

// LenOf reports whether v is len(x) and returns x.
func LenOf(v ssa.Value) (ssa.Value, bool) {
	v = StripConv(v)
	c, ok := v.(*ssa.Call)
	if !ok {
		return nil, false
	}
	b, ok := c.Call.Value.(*ssa.Builtin)
	if !ok || b.Name() != "len" || len(c.Call.Args) != 1 {
		return nil, false
	}
	return c.Call.Args[0], true
}

// LoadOfField reports whether v is a load of field `field` and returns the base object.
func LoadOfField(v ssa.Value, field string) (ssa.Value, bool) {
	v = StripConv(v)
	switch x := v.(type) {
	case *ssa.UnOp:
		if x.Op != token.MUL {
			return nil, false
		}
		_, f, base, ok := FieldOf(x.X)
		if ok && f == field {
			return base, true
		}
	case *ssa.Field:
		_, f, base, ok := FieldOf(x)
		if ok && f == field {
			return base, true
		}
	}
	return nil, false
}

// AddrOfField reports whether v is &base.field.
func AddrOfField(v ssa.Value, field string) (ssa.Value, bool) {
	fa, ok := v.(*ssa.FieldAddr)
	if !ok {
		return nil, false
	}
	_, f, base, ok2 := FieldOf(fa)
	if ok2 && f == field {
		return base, true
	}
	return nil, false
}

// HasLicensingEdgeOrValue reports whether pred's atom occurs in fn as a branch condition
// or as a returned boolean value (directly or as a phi operand).
func HasLicensingEdgeOrValue(fn *ssa.Function, pred Pred) bool {
	if countLicensing(fn, pred) > 0 {
		return true
	}
	found := false
	var visit func(v ssa.Value, d int)
	visit = func(v ssa.Value, d int) {
		if v == nil || d > 4 || found {
			return
		}
		if phi, ok := v.(*ssa.Phi); ok {
			for _, e := range phi.Edges {
				visit(e, d+1)
			}
			return
		}
		if _, ok := pred.Match(Normalize(v)); ok {
			found = true
		}
	}
	Instrs(fn, func(in ssa.Instruction) {
		if ret, ok := in.(*ssa.Return); ok {
			for _, r := range ret.Results {
				visit(r, 0)
			}
		}
	})
	return found
}

// ZeroPred: P = "x == 0" for a value x accepted by sel. Recognised tests: x == 0 / x != 0, and,
// when x is known to be non-negative (len, cap, sizes), x < 1, x <= 0, x > 0, x >= 1.
func ZeroPred(name string, nonneg bool, sel func(x ssa.Value) bool) Pred {
	return Pred{Name: name, Match: func(a Atom) (bool, bool) {
		isK := func(v ssa.Value, k int64) bool { c, ok := ConstInt(v); return ok && c == k }
		switch a.Op {
		case token.EQL:
			if (isK(a.Y, 0) && sel(a.X)) || (isK(a.X, 0) && sel(a.Y)) {
				return true, true
			}
		case token.LSS:
			if !nonneg {
				return false, false
			}
			if isK(a.Y, 1) && sel(a.X) { // x < 1
				return true, true
			}
			if isK(a.X, 0) && sel(a.Y) { // 0 < x
				return false, true
			}
		}
		return false, false
	}}
}

// NonZeroPred: P = "x != 0" for a value x accepted by sel. Recognised tests: x != 0 / x == 0,
// x > 0, x >= 1, x < 0 (each implies x != 0), and for non-negative x also the negations of
// x < 1 and x <= 0.
func NonZeroPred(name string, nonneg bool, sel func(x ssa.Value) bool) Pred {
	return Pred{Name: name, Match: func(a Atom) (bool, bool) {
		isK := func(v ssa.Value, k int64) bool { c, ok := ConstInt(v); return ok && c == k }
		switch a.Op {
		case token.EQL:
			if (isK(a.Y, 0) && sel(a.X)) || (isK(a.X, 0) && sel(a.Y)) {
				return false, true
			}
		case token.LSS:
			if isK(a.X, 0) && sel(a.Y) { // 0 < x
				return true, true
			}
			if isK(a.Y, 1) && sel(a.X) { // x < 1 false => x >= 1
				return false, true
			}
		}
		return false, false
	}}
}

// GuardedEdge reports whether every path from the instruction `from` to a CFG edge accepted by
// target passes an edge on which pred holds (paths are followed past returns never).
func GuardedEdge(from ssa.Instruction, target func(src, dst *ssa.BasicBlock) bool, pred Pred) GuardResult {
	start := pstate{bstate{from.Block(), -1}, ""}
	seen := map[pstate]bool{start: true}
	queue := []pstate{start}
	edges := 0
	for len(queue) > 0 {
		s := queue[0]
		queue = queue[1:]
		lic := licensedFrom(s.bstate, pred)
		idx, nxt := psuccs(s)
		for k, ns := range nxt {
			skip := false
			for _, l := range lic {
				if l == idx[k] {
					skip = true
				}
			}
			if skip {
				edges++
				continue
			}
			if target(s.b, ns.b) {
				return GuardResult{Guarded: false, Edges: edges, Witness: []string{fmt.Sprintf("block %d (%s) -> block %d (%s)", s.b.Index, s.b.Comment, ns.b.Index, ns.b.Comment)}}
			}
			if seen[ns] {
				continue
			}
			seen[ns] = true
			queue = append(queue, ns)
		}
	}
	return GuardResult{Guarded: true, Edges: edges}
}

// GuardedBetween reports whether every path from the instruction after `from` to an
// instruction accepted by goal passes an edge on which pred holds.
func GuardedBetween(from ssa.Instruction, goal func(ssa.Instruction) bool, pred Pred) GuardResult {
	start := pstate{bstate{from.Block(), -1}, ""}
	seen := map[pstate]bool{}
	queue := []pstate{start}
	edges := 0
	first := true
	for len(queue) > 0 {
		s := queue[0]
		queue = queue[1:]
		skipping := first
		first = false
		for _, in := range s.b.Instrs {
			if skipping {
				if in == from {
					skipping = false
				}
				continue
			}
			if goal(in) {
				return GuardResult{Guarded: false, Edges: edges, Witness: []string{fmt.Sprintf("reaches block %d (%s)", s.b.Index, s.b.Comment)}}
			}
		}
		lic := licensedFrom(s.bstate, pred)
		idx, nxt := psuccs(s)
		for k, ns := range nxt {
			skip := false
			for _, l := range lic {
				if l == idx[k] {
					skip = true
				}
			}
			if skip {
				edges++
				continue
			}
			if seen[ns] {
				continue
			}
			seen[ns] = true
			queue = append(queue, ns)
		}
	}
	return GuardResult{Guarded: true, Edges: edges}
}
