package rules

import (
	"fmt"
	"os"
	"go/token"
	"go/types"
	"sort"
	"strings"

	"golang.org/x/tools/go/ssa"

	"verif/checker/core"
	"verif/checker/eng"
)

const (
	idDecodeValue = M + "event/crdt.decodeValue"
	idDecodeState = M + "event.DecodeState"
	idNewState    = M + "event.NewState"
	idDecodeSub   = M + "event.decodeSubscription"
	idDecodeConn  = M + "event.decodeConnection"
)

func init() {
	register(&Prop{
		ID:  "C09",
		Run: runC09,
		Explanation: "Structural necessary conditions of 'hostile input cannot take the broker down': " +
			"(R1) DecodePacket allocates the body only after `size > maxMessageSize ⇒ refuse`, readString slices only after its bounds test, Config.MaxMessageBytes clamps to the protocol maximum and Process passes it on; " +
			"(R2) tainted-size rule: a backward interprocedural slice from every make (slice length/capacity, map size, channel size) in production code finds no integer that comes from strconv parsing, a binary/JSON decoder or a struct decoded from untrusted bytes without a dominating upper bound; " +
			"(R3) goroutine roots that consume untrusted bytes either recover at the root (per-connection Process via Close; async.Repeat) or are listed as unrecovered roots (the mesh.Gossiper callbacks); " +
			"(R4) on code reachable from the unrecovered roots every constant-offset index/slice of a wire-derived slice is cut off by a covering length test (carrier types Value/ID/Ssid/Key are checked at their conversion boundaries: decoded CRDT values ≥ 16 bytes before decodeValue, forwarded message ids ≥ 20 bytes before OnMessage, event keys inside decodeSubscription/decodeConnection, survey channel parts), and decode errors of events skip the callback; " +
			"(R5) the message decoder reports every read error (shared with C19.R1b); DecodeState returns a state built from NewState so that every subset Merge iterates exists; " +
			"(R6) unchecked type assertions on the crdt.Map argument of Merge are listed with the concrete types that exist — both panic when a full durable state meets a queued delta (known finding, consequence of the GossipData.Merge defect of C13). " +
			"NOT decided: memory proportionality inside third-party decoders (snappy, kelindar/binary, gob), hangs, CPU; R4 is a necessary condition, not a proof of panic freedom.",
		Assumptions: []string{"weaveworks/mesh has no recover around Gossiper callbacks (read from the vendored source)", "values read back from the broker's own buntdb/badger stores are trusted"},
	})
}

func runC09(c *core.Ctx) {
	c09R1(c)
	c09R2(c)
	c09R3(c)
	c08R1as(c, "C09.R3b")
	c09R4(c)
	c09R5(c)
	c09R6(c)
	c09R7(c, "C09.R7")
}

func c09R1(c *core.Ctx) {
	rule := "C09.R1"
	c.Rule(rule, "DecodePacket: make([]byte, sizeOf) only under !(maxMessageSize < int64(sizeOf)); readString: the slice b[start:start+l] only under !(len(b) < l+start); MaxMessageBytes returns the protocol constant when the configured size is <= 0 or larger; Conn.Process hands Config.MaxMessageBytes() to DecodePacket", 4)
	if f := fn(c, rule, "internal/network/mqtt", "", "DecodePacket"); f != nil {
		n := 0
		eng.Instrs(f, func(in ssa.Instruction) {
			ms, ok := in.(*ssa.MakeSlice)
			if !ok {
				return
			}
			n++
			size := eng.StripConv(ms.Len)
			p := eng.LtPred("!(max < size)", false, func(x, y ssa.Value) bool {
				return eng.StripConv(x) == ssa.Value(f.Params[1]) && eng.StripConv(y) == size
			})
			g := eng.Guarded(ms, p)
			c.Check(g.Guarded && g.Edges > 0, rule, fnName(f)+":size refused before allocation", ms.Pos(), "the body buffer is allocated only for sizes within the configured limit", "DecodePacket allocates the packet body before comparing its size with the limit (a 4-byte header can demand 256 MiB)")
		})
		if n == 0 {
			c.Fail(rule, fnName(f)+":allocation", f.Pos(), "no body allocation found")
		}
	}
	if f := fn(c, rule, "internal/network/mqtt", "", "readString"); f != nil {
		okB := false
		eng.Instrs(f, func(in ssa.Instruction) {
			sl, ok := in.(*ssa.Slice)
			if !ok || sl.X != f.Params[0] {
				return
			}
			hi := sl.High
			p := eng.LtPred("!(len(b) < end)", false, func(x, y ssa.Value) bool {
				l, isL := eng.LenOf(eng.StripConv(x))
				return isL && l == f.Params[0] && eng.SameValue(y, hi)
			})
			g := eng.Guarded(sl, p)
			okB = g.Guarded && g.Edges > 0
		})
		c.Check(okB, rule, fnName(f)+":bounds before slicing", f.Pos(), "a declared string length beyond the packet is refused", "readString slices the packet without first checking that the declared length fits")
	}
	if f := fn(c, rule, "internal/config", "Config", "MaxMessageBytes"); f != nil {
		maxC, _ := constOf(c, rule, "internal/config", "maxMessageSize")
		ok := true
		n := 0
		for _, rv := range eng.ResultValues(f, 0) {
			n++
			if k, isC := eng.ConstInt(rv); isC {
				if k != maxC {
					ok = false
				}
				continue
			}
		}
		// the non-constant return is cut off by 0 < size <= max
		eng.Instrs(f, func(in ssa.Instruction) {
			ret, isRet := in.(*ssa.Return)
			if !isRet {
				return
			}
			if _, isC := eng.ConstInt(ret.Results[0]); isC {
				return
			}
			v := eng.StripConv(ret.Results[0])
			upper := eng.LtPred("!(max < size)", false, func(x, y ssa.Value) bool {
				k, isC := eng.ConstInt(x)
				return isC && k == maxC && eng.SameValue(eng.StripConv(y), v)
			})
			if g := eng.Guarded(ret, upper); !g.Guarded || g.Edges == 0 {
				ok = false
			}
		})
		c.Check(ok && n >= 2, rule, fnName(f)+":clamped", f.Pos(), "the configured size never exceeds the 64 KiB protocol maximum", "MaxMessageBytes can return a value above the protocol maximum")
	}
	if f := fn(c, rule, "internal/broker", "Conn", "Process"); f != nil {
		ok := false
		for _, call := range eng.Calls(f, false, idDecodePacket) {
			if isCallOn(eng.CallArgs(call.Common())[1], M+"config.Config.MaxMessageBytes", nil) {
				ok = true
			}
		}
		c.Check(ok, rule, fnName(f)+":limit passed to the decoder", f.Pos(), "DecodePacket(reader, Config.MaxMessageBytes())", "Conn.Process does not pass Config.MaxMessageBytes() to DecodePacket")
	}
}

func newTaint(c *core.Ctx) *eng.Taint {
	// struct types decoded from untrusted bytes
	decoded := []types.Type{}
	decodeFns := map[string]int{
		"encoding/json.Unmarshal":              1,
		"github.com/kelindar/binary.Unmarshal": 1,
		"encoding/json.Decoder.Decode":         1,
	}
	for _, f := range c.P.ScopeFuncs() {
		eng.Instrs(f, func(in ssa.Instruction) {
			call, ok := in.(*ssa.Call)
			if !ok {
				return
			}
			id := eng.FuncID(eng.CalleeObj(&call.Call))
			ai, isDec := decodeFns[id]
			if !isDec {
				return
			}
			args := eng.CallArgs(&call.Call)
			if ai >= len(args) {
				return
			}
			t := eng.StripConv(args[ai]).Type()
			if p, isP := t.Underlying().(*types.Pointer); isP {
				decoded = append(decoded, p.Elem())
			}
		})
	}
	src := map[string]bool{
		"strconv.ParseInt": true, "strconv.ParseUint": true, "strconv.Atoi": true, "strconv.ParseFloat": true,
		"github.com/kelindar/binary.Decoder.ReadUvarint": true, "github.com/kelindar/binary.Decoder.ReadVarint": true,
		"github.com/kelindar/binary.Decoder.ReadUint32": true, "github.com/kelindar/binary.Decoder.ReadUint64": true,
		"encoding/json.Unmarshal#arg": true, "github.com/kelindar/binary.Unmarshal#arg": true, "encoding/json.Decoder.Decode#arg": true,
	}
	return &eng.Taint{CG: c.P.CG(), Funcs: c.P.ScopeFuncs(), SourceCalls: src, DecodedType: func(t types.Type) bool {
		for _, d := range decoded {
			if types.Identical(t, d) {
				return true
			}
		}
		return false
	}}
}

func c09R2(c *core.Ctx) {
	rule := "C09.R2"
	c.Rule(rule, "tainted size: for every make([]T, n[, m]) / make(map, n) / make(chan, n) in production code with a non-constant size, the backward slice of the size reaches no strconv.Parse*/Atoi result, binary.Decoder integer, or integer field of a struct filled by json/binary Unmarshal, unless a dominating comparison with a constant bounds it", 15)
	t := newTaint(c)
	nSites, nDyn := 0, 0
	var bad []string
	for _, f := range c.P.ScopeFuncs() {
		eng.Instrs(f, func(in ssa.Instruction) {
			var sizes []ssa.Value
			what := ""
			switch x := in.(type) {
			case *ssa.MakeSlice:
				sizes, what = []ssa.Value{x.Len, x.Cap}, "make slice"
			case *ssa.MakeMap:
				if x.Reserve != nil {
					sizes, what = []ssa.Value{x.Reserve}, "make map"
				}
			case *ssa.MakeChan:
				sizes, what = []ssa.Value{x.Size}, "make chan"
			default:
				return
			}
			nSites++
			dyn := false
			for _, s := range sizes {
				if s == nil {
					continue
				}
				if _, isC := eng.ConstInt(s); isC {
					continue
				}
				dyn = true
				r := t.Query(s, in)
				if r.Tainted {
					key := fmt.Sprintf("%s:%s sized by untrusted input", fnName(f), what)
					chain := append([]string{}, r.Chain...)
					c.Fail(rule, key, in.Pos(), "an allocation is sized by a client/peer-controlled integer without an upper bound: "+strings.Join(chain, " -> "), chain...)
					bad = append(bad, key)
					return
				}
			}
			if dyn {
				nDyn++
				c.OK(rule, fmt.Sprintf("%s:%s@%s", fnName(f), what, eng.Describe(sizes[0])), in.Pos(), "size is a length, a constant-bounded value or configuration")
			}
		})
	}
	c.Count("make_sites", nSites)
	c.Count("make_sites_dynamic_size", nDyn)
	c.Count("taint_values_visited", t.Visited)
}

func c09R3(c *core.Ctx) {
	rule := "C09.R3"
	c.Rule(rule, "goroutine roots: every `go` statement in production code starts either a function whose entry defers a recover (Conn.Process via Close — C08.R1; async.Repeat's safeAction) or a root listed here; implementations of mesh.Gossiper are unrecovered roots and define the scope of R4", 5)
	// async.Repeat: the action runs under a deferred recover
	if f := fn(c, rule, "internal/async", "", "Repeat"); f != nil {
		// every call of a function value (the periodic action) anywhere in the package happens
		// in a function that has registered, before the call, a deferred function that recovers
		recovers := func(h *ssa.Function) bool {
			found := false
			if h != nil {
				eng.Instrs(h, func(i2 ssa.Instruction) {
					if _, isR := eng.IsBuiltinCall(i2, "recover"); isR {
						found = true
					}
				})
			}
			return found
		}
		ok, nDyn := true, 0
		var bad []string
		for _, g := range c.P.ScopeFuncs() {
			if g.Pkg != f.Pkg {
				continue
			}
			eng.Instrs(g, func(in ssa.Instruction) {
				call, isC := in.(*ssa.Call)
				if !isC || call.Call.StaticCallee() != nil || call.Call.IsInvoke() {
					return
				}
				if _, isB := call.Call.Value.(*ssa.Builtin); isB {
					return
				}
				if sig, isSig := call.Call.Value.Type().Underlying().(*types.Signature); !isSig || sig.Params().Len() != 0 {
					return
				}
				nDyn++
				// a local closure variable (possibly captured by another closure) that only ever
				// holds closures of this package is a static call in disguise: those closures are
				// subject to this rule themselves
				protected := onlyLocalClosures(call.Call.Value, 0)
				eng.Instrs(g, func(i2 ssa.Instruction) {
					if d, isD := i2.(*ssa.Defer); isD && recovers(d.Call.StaticCallee()) && eng.Dominates(d, call) {
						protected = true
					}
				})
				if !protected {
					ok = false
					bad = append(bad, fnName(g)+": "+eng.Describe(call))
				}
			})
		}
		ok = ok && nDyn > 0
		c.Check(ok, rule, fnName(f)+":action under recover", f.Pos(), "periodic actions run under a deferred recover", fmt.Sprintf("a function value is called in package async without a deferred recover registered before it (calls found: %d, unprotected: %v)", nDyn, bad))
	}
	recovered := map[string]string{
		"(*internal/broker.Conn).Process": "defers Conn.Close which recovers (C08.R1)",
	}
	tolerated := map[string]string{
		"net/http.ListenAndServe": "standard library server, recovers per request",
		"(*internal/network/listener.Listener).Serve":       "accept loop, reads no payload bytes",
		"(*internal/network/listener.Listener).serve":       "runs protocol matchers over sniffed bytes (bounded reads, no indexing beyond checked lengths)",
		"(*internal/network/listener.Listener).ServeAsync$": "starts the protocol servers",
	}
	n := 0
	for _, f := range c.P.ScopeFuncs() {
		eng.Instrs(f, func(in ssa.Instruction) {
			g, ok := in.(*ssa.Go)
			if !ok {
				return
			}
			n++
			name := "<dynamic>"
			if sc := g.Call.StaticCallee(); sc != nil {
				name = fnName(sc)
			} else if obj := eng.CalleeObj(&g.Call); obj != nil {
				name = eng.FuncID(obj)
			}
			note := "listed goroutine root"
			if r, ok := recovered[name]; ok {
				note = "recovered root: " + r
			} else if r, ok := tolerated[name]; ok {
				note = r
			}
			c.OK(rule, fmt.Sprintf("%s:go %s", fnName(f), name), in.Pos(), note)
		})
	}
	c.Count("go_statements", n)
	// unrecovered roots: Gossiper implementations
	for _, m := range []string{"OnGossip", "OnGossipBroadcast", "OnGossipUnicast", "Gossip"} {
		if f := fn(c, rule, "internal/service/cluster", "Swarm", m); f != nil {
			c.OK(rule, "unrecovered root:"+fnName(f), f.Pos(), "called by weaveworks/mesh without recover; everything reachable from here is subject to R4")
		}
	}
}

// gossipReach returns the in-scope functions reachable from the unrecovered roots.
func gossipReach(c *core.Ctx) map[*ssa.Function]bool {
	var roots []*ssa.Function
	for _, m := range []string{"OnGossip", "OnGossipBroadcast", "OnGossipUnicast", "Gossip"} {
		if f := c.P.Func("internal/service/cluster", "Swarm", m); f != nil {
			roots = append(roots, f)
		}
	}
	for _, m := range []string{"Merge", "Encode"} {
		if f := c.P.Func("internal/event", "State", m); f != nil {
			roots = append(roots, f)
		}
	}
	// the OnMessage callback is assigned dynamically
	if f := c.P.Func("internal/broker", "Service", "onPeerMessage"); f != nil {
		roots = append(roots, f)
	}
	return c.P.CG().Reachable(roots...)
}

var carrierTypes = map[string]bool{
	M + "event/crdt.Value": true, M + "message.ID": true, M + "message.Ssid": true, M + "security.Key": true,
}

func isCarrier(t types.Type) bool {
	if n, ok := t.(*types.Named); ok && n.Obj().Pkg() != nil {
		return carrierTypes[n.Obj().Pkg().Path()+"."+n.Obj().Name()]
	}
	return false
}

func c09R4(c *core.Ctx) {
	rule := "C09.R4"
	c.Rule(rule, "on functions reachable from the unrecovered gossip roots (restricted to the packages that parse wire data: event, event/crdt, message, service/cluster, service/survey, provider/storage OnSurvey): every constant-offset index/slice of a plain (non-carrier) slice that is not locally allocated is cut off by a covering length test; carrier conversions are guarded at the boundary: decodeValue in codec DecodeTo under len>=16, OnMessage in OnGossipUnicast under len(ID)>=20; event decode errors skip the callbacks", 8)
	reach := gossipReach(c)
	wirePkgs := map[string]bool{M + "event": true, M + "event/crdt": true, M + "service/cluster": true, M + "service/survey": true, M + "message": true}
	var fns []*ssa.Function
	for f := range reach {
		if f.Pkg != nil && wirePkgs[f.Pkg.Pkg.Path()] {
			fns = append(fns, f)
		}
	}
	sort.Slice(fns, func(i, j int) bool { return fns[i].String() < fns[j].String() })
	c.Count("functions_reachable_from_gossip_roots", len(reach))
	c.Count("wire_parsing_functions_checked", len(fns))
	nAcc := 0
	for _, f := range fns {
		// locally allocated slices with constant length are fine
		isTarget := func(x ssa.Value) bool {
			if _, isSlice := x.Type().Underlying().(*types.Slice); !isSlice {
				return false
			}
			if isCarrier(x.Type()) {
				return false
			}
			if u, isU := eng.StripConv(x).(*ssa.UnOp); isU && u.Op == token.MUL {
				// a local variable holding a slice made in this function
				if al, isAl := u.X.(*ssa.Alloc); isAl {
					if refs := al.Referrers(); refs != nil {
						fresh, n := true, 0
						for _, r := range *refs {
							if st, isSt := r.(*ssa.Store); isSt && st.Addr == al {
								n++
								switch sv := eng.StripConv(st.Val).(type) {
								case *ssa.MakeSlice:
								case *ssa.Slice:
									if _, isArr := sv.X.(*ssa.Alloc); !isArr {
										fresh = false
									}
								default:
									fresh = false
								}
							}
						}
						if fresh && n > 0 {
							return false
						}
					}
				}
			}
			switch y := eng.StripConv(x).(type) {
			case *ssa.MakeSlice:
				return false
			case *ssa.Slice:
				if _, isAl := y.X.(*ssa.Alloc); isAl {
					return false
				}
				if isCarrier(y.X.Type()) {
					return false
				}
			case *ssa.Alloc:
				return false
			}
			if isCarrier(eng.StripConv(x).Type()) {
				return false
			}
			return true
		}
		nAcc += constBoundsGuarded(c, rule, f, isTarget, "a wire-derived slice")
	}
	c.Count("constant_offset_accesses_checked", nAcc)
	// boundary 1: decodeValue in the volatile codec
	if f := fn(c, rule, "internal/event/crdt", "codecVolatile", "DecodeTo"); f != nil {
		calls := eng.Calls(f, false, idDecodeValue)
		ok := len(calls) >= 1
		for _, call := range calls {
			// the argument string is built from a decoded slice v: require !(len(v) < 16)
			p := eng.LtPred("!(len(v) < 16)", false, func(x, y ssa.Value) bool {
				k, isC := eng.ConstInt(y)
				_, isL := eng.LenOf(x)
				return isC && k >= 16 && isL
			})
			if g := eng.Guarded(call, p); !g.Guarded || g.Edges == 0 {
				ok = false
			}
		}
		c.Check(ok, rule, fnName(f)+":values shorter than the time pair rejected", f.Pos(), "a gossiped value reaches decodeValue only with at least 16 bytes", "a gossiped CRDT value of any length is turned into a crdt.Value: AddTime/DelTime panic on the gossip goroutine")
	}
	// boundary 2: forwarded messages
	if f := fn(c, rule, "internal/service/cluster", "Swarm", "OnGossipUnicast"); f != nil {
		ok := false
		eng.Instrs(f, func(in ssa.Instruction) {
			call, isCall := fieldFuncCall(in, "OnMessage")
			if !isCall {
				return
			}
			p := eng.LtPred("!(len(m.ID) < 20)", false, func(x, y ssa.Value) bool {
				k, isC := eng.ConstInt(y)
				l, isL := eng.LenOf(x)
				if !isC || k < 20 || !isL {
					return false
				}
				_, isID := eng.LoadOfField(l, "ID")
				return isID
			})
			g := eng.Guarded(call, p)
			ok = g.Guarded && g.Edges > 0
		})
		c.Check(ok, rule, fnName(f)+":short message ids skipped", f.Pos(), "a forwarded message reaches the local fan-out only with an id holding the fixed part and the contract", "a peer frame message with a short id is passed to OnMessage: ID.Ssid/Contract panic on the gossip goroutine")
	}
	// boundary 3: event decode errors skip the callback
	for _, m := range []struct{ name, dec string }{{"Subscriptions", idDecodeSub}, {"SubscriptionsOf", idDecodeSub}, {"ConnectionsOf", idDecodeConn}} {
		f := c.P.Func("internal/event", "State", m.name)
		if f == nil {
			c.Undecided(rule, "anchor:State."+m.name, token.NoPos, "anchor missing")
			continue
		}
		ok := false
		for _, g := range eng.WithAnon(f) {
			for _, call := range eng.Calls(g, false, m.dec) {
				okErr := errNilPred("decode ok", call.Value(), 1)
				// the callback call: a call of a function-typed parameter/free variable
				eng.Instrs(g, func(in ssa.Instruction) {
					cl, isCall := in.(*ssa.Call)
					if !isCall || cl.Call.IsInvoke() || cl.Call.StaticCallee() != nil {
						return
					}
					if _, isB := cl.Call.Value.(*ssa.Builtin); isB {
						return
					}
					if gr := eng.Guarded(cl, okErr); gr.Guarded && gr.Edges > 0 {
						ok = true
					}
				})
			}
		}
		c.Check(ok, rule, fnName(f)+":undecodable events skipped", f.Pos(), "the callback only sees events whose key decoded", "events that failed to decode are still handed to the routing callbacks")
	}
}

func c09R5(c *core.Ctx) {
	rule := "C09.R5"
	c.Rule(rule, "decoders report failures: every readBytes/ReadUvarint error in messageCodec.DecodeTo reaches its result; DecodeState builds its result from NewState(\"\") (all subsets present) and returns the decode error; every custom DecodeTo codec returns success only after rv.Set", 8)
	if dec := fn(c, rule, "internal/message", "messageCodec", "DecodeTo"); dec != nil {
		rvs := eng.ResultValues(dec, 0)
		i := 0
		eng.Instrs(dec, func(in ssa.Instruction) {
			call, ok := in.(*ssa.Call)
			if !ok {
				return
			}
			id := eng.FuncID(eng.CalleeObj(&call.Call))
			if id != idReadBytes && id != idDecReadUvar {
				return
			}
			e := extractOf(call, 1)
			found := false
			for _, rv := range rvs {
				if rv == e {
					found = true
				}
			}
			c.Check(found, rule, fmt.Sprintf("%s:error of read #%d returned", fnName(dec), i), call.Pos(), "a failed read is reported", "the error of this read is dropped or shadowed: a truncated frame decodes to zero messages without an error")
			i++
		})
	}
	// every custom codec (kelindar/binary `DecodeTo(*binary.Decoder, reflect.Value) error`): a
	// success return (nil error) is reachable only after rv.Set(...) — a decoder that reports
	// success without producing its value hands out a zero struct (nil lock, nil map, nil db)
	// that the next Merge/use dereferences on a goroutine without recover.
	nDec := 0
	for _, f := range c.P.ScopeFuncs() {
		if f.Name() != "DecodeTo" || f.Signature.Recv() == nil || len(f.Params) != 3 || f.Signature.Results().Len() != 1 {
			continue
		}
		if !strings.HasSuffix(f.Params[1].Type().String(), "binary.Decoder") || f.Params[2].Type().String() != "reflect.Value" {
			continue
		}
		nDec++
		c.Count("functions_analysed", 1)
		rv := ssa.Value(f.Params[2])
		isSet := func(in ssa.Instruction) bool {
			if !eng.IsCallTo(in, "reflect.Value.Set") {
				return false
			}
			return denotesParam(f, eng.CallArgs(in.(ssa.CallInstruction).Common())[0], rv, 0)
		}
		nonNilPred := func(v ssa.Value) eng.Pred {
			return eng.EqPred("result != nil", false, func(x, y ssa.Value) bool { return eng.SameValue(x, v) && eng.IsNilConst(y) })
		}
		// may v, returned at ret, be nil (a success)? nil constant: yes; a sentinel/new error: no;
		// `return err` behind `err != nil`: no; anything else: possibly.
		mayBeNil := func(v ssa.Value, ret ssa.Instruction) bool {
			if eng.IsNilConst(v) {
				return true
			}
			if eng.KnownNonNil(v) {
				return false
			}
			if g := eng.Guarded(ret, nonNilPred(v)); g.Guarded && g.Edges > 0 {
				return false
			}
			return true
		}
		success := func(in ssa.Instruction) bool {
			switch x := in.(type) {
			case *ssa.Return:
				if len(x.Results) != 1 {
					return false
				}
				if _, isPhi := x.Results[0].(*ssa.Phi); isPhi {
					return false // decided per incoming edge of the phi (below)
				}
				return mayBeNil(x.Results[0], x)
			case *ssa.If, *ssa.Jump:
				b := in.Block()
				// a phi further up that some return hands back (an inlined helper's error result
				// tested by `if err != nil { return err }`): entering the phi's block through an
				// edge that carries nil, can that return be reached (the path-sensitive search
				// specialises the test of the phi to the value on the edge)?
				for _, succ := range b.Succs {
					for _, pi := range succ.Instrs {
						phi, isPhi := pi.(*ssa.Phi)
						if !isPhi {
							break
						}
						var rets []ssa.Instruction
						eng.Instrs(f, func(i2 ssa.Instruction) {
							if r, ok := i2.(*ssa.Return); ok && len(r.Results) == 1 && r.Results[0] == ssa.Value(phi) && r.Block() != succ {
								rets = append(rets, r)
							}
						})
						if len(rets) == 0 {
							continue
						}
						for k, p := range succ.Preds {
							if p != b || !eng.IsNilConst(phi.Edges[k]) {
								continue
							}
							for _, r := range rets {
								if eng.ReachEdge(f, succ, k, isSet, func(i2 ssa.Instruction) bool { return i2 == r }) {
									if os.Getenv("VERIF_DEBUG") != "" {
										fmt.Println("DEBUG phi-edge", b.Index, succ.Index, k, phi.Name())
									}
									return true
								}
							}
						}
					}
				}
				// the last instruction of a predecessor of a `return phi(...)` block: the edge is a
				// success edge if the value it carries may be nil on that edge
				for _, succ := range b.Succs {
					if len(succ.Instrs) == 0 {
						continue
					}
					ret, isRet := succ.Instrs[len(succ.Instrs)-1].(*ssa.Return)
					if !isRet || len(ret.Results) != 1 {
						continue
					}
					phi, isPhi := ret.Results[0].(*ssa.Phi)
					if !isPhi || phi.Block() != succ {
						continue
					}
					// only phi + return (+ debug) in the block
					for k, p := range succ.Preds {
						if p != b {
							continue
						}
						v := phi.Edges[k]
						if eng.IsNilConst(v) {
							return true
						}
						if eng.KnownNonNil(v) || eng.EdgeLicensed(b, succ, nonNilPred(v)) {
							continue
						}
						if g := eng.Guarded(in, nonNilPred(v)); g.Guarded && g.Edges > 0 {
							continue
						}
						return true
					}
				}
			}
			return false
		}
		reached, path := eng.Reach(f, nil, isSet, success)
		key := fnName(f) + ":success only after rv.Set"
		if reached {
			c.Fail(rule, key, f.Pos(), "the decoder can return nil (success) on a path that never sets the decoded value: the caller receives a zero value (nil lock/map/db pointers) and the next use of it panics — on the gossip path, on a goroutine without recover", path...)
		} else {
			c.OK(rule, key, f.Pos(), "every success return is preceded by rv.Set")
		}
	}
	if nDec < 3 {
		c.Undecided(rule, "codecs", token.NoPos, fmt.Sprintf("expected at least 3 custom DecodeTo codecs in production code, found %d", nDec))
	}
	if f := fn(c, rule, "internal/event", "", "DecodeState"); f != nil {
		ns := eng.Calls(f, false, idNewState)
		ok := len(ns) == 1
		if ok {
			for _, rv := range eng.ResultValues(f, 0) {
				if rv != ns[0].Value() {
					ok = false
				}
			}
		}
		c.Check(ok, rule, fnName(f)+":result has every subset", f.Pos(), "the decoded state starts from NewState(\"\"), so Merge finds a subset for each type even in a partial payload", "DecodeState does not build its result from NewState: a payload lacking a subset leaves a nil crdt.Map and State.Merge panics on the gossip goroutine")
	}
}

func c09R6(c *core.Ctx) {
	rule := "C09.R6"
	c.Rule(rule, "unchecked type assertions `other.(*T)` on the crdt.Map argument of a Merge method, when more than one concrete crdt.Map type exists", 2)
	n := c.P.Type("internal/event/crdt", "Map")
	if n == nil {
		c.Undecided(rule, "anchor:crdt.Map", token.NoPos, "anchor missing")
		return
	}
	impls := c.P.Implementers(n.Underlying().(*types.Interface))
	var names []string
	for _, t := range impls {
		names = append(names, "*"+t.Obj().Name())
	}
	for _, t := range impls {
		f := c.P.MethodOf(t, "Merge")
		if f == nil || f.Blocks == nil {
			continue
		}
		eng.Instrs(f, func(in ssa.Instruction) {
			ta, ok := in.(*ssa.TypeAssert)
			if !ok || ta.CommaOk || ta.X != f.Params[1] {
				return
			}
			c.Check(len(impls) < 2, rule, fnName(f)+":unchecked assertion", ta.Pos(), "only one concrete crdt.Map exists", fmt.Sprintf("Merge asserts other.(%s) unconditionally but %v all implement crdt.Map: when the gossip sender coalesces a queued delta (volatile) with the full state of a broker whose subsets are durable (State.Merge used as GossipData.Merge), the assertion panics on the gossip goroutine", shortT(ta.AssertedType.String()), names))
		})
	}
}

// onlyLocalClosures: v (a function value) can only be a closure created in the enclosing
// function chain: a MakeClosure, or a load of a local cell (directly or through a captured
// variable) into which only MakeClosures are stored.
func onlyLocalClosures(v ssa.Value, d int) bool {
	if d > 4 {
		return false
	}
	switch x := v.(type) {
	case *ssa.MakeClosure:
		return true
	case *ssa.Function:
		return x.Parent() != nil
	case *ssa.UnOp:
		if x.Op != token.MUL {
			return false
		}
		cell := x.X
		if fv, ok := cell.(*ssa.FreeVar); ok {
			// the binding of this free variable at the closure's creation
			fn := fv.Parent()
			par := fn.Parent()
			if par == nil {
				return false
			}
			idx := -1
			for i, f := range fn.FreeVars {
				if f == fv {
					idx = i
				}
			}
			found := false
			var bind ssa.Value
			eng.Instrs(par, func(in ssa.Instruction) {
				if mc, ok := in.(*ssa.MakeClosure); ok && mc.Fn == fn && idx >= 0 && idx < len(mc.Bindings) {
					bind = mc.Bindings[idx]
					found = true
				}
			})
			if !found {
				return false
			}
			cell = bind
		}
		a, ok := cell.(*ssa.Alloc)
		if !ok {
			return false
		}
		n := 0
		okAll := true
		var scan func(f *ssa.Function)
		scan = func(f *ssa.Function) {
			eng.Instrs(f, func(in ssa.Instruction) {
				if st, ok := in.(*ssa.Store); ok && st.Addr == ssa.Value(a) {
					n++
					if !onlyLocalClosures(st.Val, d+1) {
						okAll = false
					}
				}
			})
		}
		scan(a.Parent())
		// stores through captured references inside nested closures are not resolved: require
		// that the cell is only read there
		for _, anon := range eng.WithAnon(a.Parent())[1:] {
			eng.Instrs(anon, func(in ssa.Instruction) {
				if st, ok := in.(*ssa.Store); ok {
					if fv, ok := st.Addr.(*ssa.FreeVar); ok && fv.Name() == a.Comment {
						okAll = false
					}
				}
			})
		}
		return okAll && n > 0
	}
	return false
}

// c09R7: the channel-option scanner terminates on every input. parseOptions advances its index
// only when a key ('=') or a value ('&' / end of text) was found; an iteration that finds
// neither must hit the `len(key) == 0 || len(val) == 0 ⇒ return false` test, which works only
// if key and val are empty at the start of every iteration. In SSA terms: every []byte loop
// variable that reaches a `len(x) == 0` test of the outer loop re-enters the loop (back edge of
// the loop header phi) as an empty slice (nil, or x[0:0]) — or is declared inside the loop and
// has no header phi at all. A value carried around the back edge makes the scanner spin forever
// (appending an option per turn) on `?a=1&b`, before any authorisation.
func c09R7(c *core.Ctx, rule string) {
	c.Rule(rule, "security.Channel.parseOptions: the byte-slice loop variables tested by `len(x) == 0` are empty whenever the outer loop is re-entered (termination of the option scanner on hostile topics)", 1)
	f := fn(c, rule, "internal/security", "Channel", "parseOptions")
	if f == nil {
		return
	}
	// slices whose length is tested against 0
	tested := map[ssa.Value]bool{}
	eng.Instrs(f, func(in ssa.Instruction) {
		bo, ok := in.(*ssa.BinOp)
		if !ok || (bo.Op != token.EQL && bo.Op != token.NEQ && bo.Op != token.LSS && bo.Op != token.GTR) {
			return
		}
		for _, pr := range [][2]ssa.Value{{bo.X, bo.Y}, {bo.Y, bo.X}} {
			if k, isC := eng.ConstInt(pr[1]); isC && (k == 0 || k == 1) {
				if b, isLen := eng.LenOf(pr[0]); isLen {
					if _, isSlice := b.Type().Underlying().(*types.Slice); isSlice {
						tested[b] = true
					}
				}
			}
		}
	})
	isEmpty := func(v ssa.Value) bool {
		if eng.IsNilConst(v) {
			return true
		}
		if sl, ok := v.(*ssa.Slice); ok && sl.Low != nil && sl.High != nil {
			lo, ok1 := eng.ConstInt(sl.Low)
			hi, ok2 := eng.ConstInt(sl.High)
			return ok1 && ok2 && lo == 0 && hi == 0
		}
		return false
	}
	// header phis feeding a tested value
	feeds := map[*ssa.Phi]bool{}
	var walk func(v ssa.Value, d int)
	walk = func(v ssa.Value, d int) {
		phi, ok := v.(*ssa.Phi)
		if !ok || feeds[phi] || d > 8 {
			return
		}
		feeds[phi] = true
		for _, e := range phi.Edges {
			walk(e, d+1)
		}
	}
	for v := range tested {
		walk(v, 0)
	}
	n, bad := 0, ""
	for phi := range feeds {
		b := phi.Block()
		for k, pred := range b.Preds {
			if !b.Dominates(pred) {
				continue // not a back edge
			}
			n++
			e := phi.Edges[k]
			ok := isEmpty(e)
			if p2, isPhi := e.(*ssa.Phi); isPhi && !ok {
				ok = true
				for _, e2 := range p2.Edges {
					if !isEmpty(e2) {
						ok = false
					}
				}
			}
			if !ok {
				bad = fmt.Sprintf("%s (%s) re-enters the loop at block %d as %s", phi.Comment, phi.Name(), b.Index, eng.Describe(e))
			}
		}
	}
	// variables that live in memory (their address is taken, e.g. binary.ToString(&key)): every
	// store of a non-empty value is followed, before the loop is re-entered, by a store of an
	// empty one
	for v := range tested {
		u, ok := v.(*ssa.UnOp)
		if !ok || u.Op != token.MUL {
			continue
		}
		al, ok := u.X.(*ssa.Alloc)
		if !ok {
			continue
		}
		// outer loop header: the dominating block with a back edge that is closest to the entry
		var header *ssa.BasicBlock
		for _, b := range f.Blocks {
			if !b.Dominates(u.Block()) {
				continue
			}
			for _, p := range b.Preds {
				if b.Dominates(p) && (header == nil || b.Index < header.Index) {
					header = b
				}
			}
		}
		if header == nil {
			continue
		}
		emptyStore := func(i ssa.Instruction) bool {
			st, ok := i.(*ssa.Store)
			return ok && st.Addr == ssa.Value(al) && isEmpty(st.Val)
		}
		for _, r := range *al.Referrers() {
			st, ok := r.(*ssa.Store)
			if !ok || st.Addr != ssa.Value(al) || isEmpty(st.Val) {
				continue
			}
			n++
			again, w := eng.Reach(f, st, emptyStore, func(i ssa.Instruction) bool { return i == header.Instrs[0] })
			if again {
				bad = fmt.Sprintf("%s assigned at %s is still set when the loop is re-entered: %v", al.Comment, c.P.Pos(st.Pos()), w)
			}
		}
	}
	c.Count("loop_carried_slices_checked", n)
	if len(tested) == 0 {
		c.Fail(rule, fnName(f)+":emptiness test", f.Pos(), "parseOptions no longer tests that a key and a value were found before appending an option")
		return
	}
	c.Check(bad == "", rule, fnName(f)+":key and value start every iteration empty", f.Pos(), "the scanned key/value never survive an iteration, so an iteration that finds nothing returns false", "a scanned key or value survives into the next iteration of the option loop ("+bad+"): an input whose last option has no '=' (\"?a=1&b\") passes the emptiness test with the previous option's key and value, the index never advances and the connection goroutine spins forever, allocating an option per turn")
}
