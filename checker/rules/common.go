// Package rules holds the per-property rule instances.
package rules

import (
	"fmt"
	"go/token"
	"go/types"
	"sort"
	"strings"

	"golang.org/x/tools/go/ssa"

	"verif/checker/core"
	"verif/checker/eng"
)

// M is the import-path prefix of the repository's internal packages.
const M = core.ModPath + "/internal/"

// Prop describes one property check.
type Prop struct {
	ID          string
	Run         func(c *core.Ctx)
	Thorough    func(c *core.Ctx) // extra work of the thorough tier (may be nil)
	Explanation string
	Assumptions []string
}

// Props is the registry.
var Props = map[string]*Prop{}

func register(p *Prop) { Props[p.ID] = p }

// IDs returns the registered property ids, sorted.
func IDs() []string {
	var ids []string
	for id := range Props {
		ids = append(ids, id)
	}
	sort.Strings(ids)
	return ids
}

// fn resolves an anchored function; a missing anchor is recorded as UNDECIDED.
func fn(c *core.Ctx, rule, rel, recv, name string) *ssa.Function {
	f := c.P.Func(rel, recv, name)
	if f == nil || f.Blocks == nil {
		n := name
		if recv != "" {
			n = recv + "." + name
		}
		c.Undecided(rule, "anchor:"+rel+"."+n, token.NoPos, "anchor missing: function "+rel+"."+n+" not found in the current tree (update the rule table)")
		return nil
	}
	c.Count("functions_analysed", 1)
	c.Count("blocks_analysed", len(f.Blocks))
	return f
}

// callsIn returns calls in f (incl. closures) to any of ids.
func callsIn(f *ssa.Function, ids ...string) []ssa.CallInstruction {
	return eng.Calls(f, true, ids...)
}

// param returns the i-th parameter of f (0 = receiver for methods).
func param(f *ssa.Function, i int) ssa.Value {
	if i < len(f.Params) {
		return f.Params[i]
	}
	return nil
}

// constOf returns the int64 value of a package-level constant.
func constOf(c *core.Ctx, rule, rel, name string) (int64, bool) {
	k := c.P.Const(rel, name)
	if k == nil {
		c.Undecided(rule, "anchor:"+rel+"."+name, token.NoPos, "anchor missing: constant "+rel+"."+name)
		return 0, false
	}
	v, ok := constInt64(k)
	return v, ok
}

func constInt64(k *types.Const) (int64, bool) {
	return eng.ConstValInt(k.Val())
}

// isExtractOf reports v == Extract(call, idx).
func isExtractOf(v ssa.Value, call ssa.Value, idx int) bool {
	v = eng.StripConv(v)
	e, ok := v.(*ssa.Extract)
	return ok && e.Tuple == call && e.Index == idx
}

// extractOf finds the Extract instruction #idx of a tuple-valued call.
func extractOf(call ssa.Value, idx int) ssa.Value {
	refs := call.Referrers()
	if refs == nil {
		return nil
	}
	for _, r := range *refs {
		if e, ok := r.(*ssa.Extract); ok && e.Index == idx {
			return e
		}
	}
	return nil
}

// isCallOn reports whether v is a call to id whose receiver (arg 0) satisfies recvOK.
func isCallOn(v ssa.Value, id string, recvOK func(ssa.Value) bool) bool {
	v = eng.StripConv(v)
	call, ok := v.(*ssa.Call)
	if !ok {
		return false
	}
	if eng.FuncID(eng.CalleeObj(&call.Call)) != id {
		return false
	}
	args := eng.CallArgs(&call.Call)
	if len(args) == 0 {
		return false
	}
	return recvOK == nil || recvOK(args[0])
}

// fnName renders a function for keys (package-relative, stable across line moves).
func fnName(f *ssa.Function) string {
	if f == nil {
		return "<nil>"
	}
	s := f.String()
	const pre = core.ModPath + "/"
	for i := 0; i+len(pre) <= len(s); i++ {
		if s[i:i+len(pre)] == pre {
			s = s[:i] + s[i+len(pre):]
			i--
		}
	}
	return s
}

type typesFunc = types.Func

// indexCandidates returns the non-constant values used as element indices in f (IndexAddr,
// Index): the loop variables as the code actually uses them, whatever the loop form (a range
// loop indexes with phi+1, a counted loop with the phi itself).
func indexCandidates(f *ssa.Function) []ssa.Value {
	seen := map[ssa.Value]bool{}
	var out []ssa.Value
	add := func(v ssa.Value) {
		v = eng.StripConv(v)
		if _, isC := v.(*ssa.Const); isC || seen[v] {
			return
		}
		seen[v] = true
		out = append(out, v)
	}
	eng.Instrs(f, func(in ssa.Instruction) {
		switch x := in.(type) {
		case *ssa.IndexAddr:
			add(x.Index)
		case *ssa.Index:
			add(x.Index)
		}
	})
	return out
}

// sliceBounds renders the bounds of a slice expression: "lo:hi" for constant bounds, or
// "ai+b:ci+d" over an element index i used in f (with a != 0); iv is that index.
func sliceBounds(f *ssa.Function, sl *ssa.Slice) (s string, iv ssa.Value, ok bool) {
	lo, isLo := eng.ConstInt(sl.Low)
	hi, isHi := eng.ConstInt(sl.High)
	if sl.Low == nil {
		lo, isLo = 0, true
	}
	if isLo && isHi {
		return fmt.Sprintf("%d:%d", lo, hi), nil, true
	}
	for _, cand := range indexCandidates(f) {
		la, lb, ok1 := affine(sl.Low, cand, 0)
		ha, hb, ok2 := affine(sl.High, cand, 0)
		if ok1 && ok2 && la != 0 {
			return fmt.Sprintf("%di+%d:%di+%d", la, lb, ha, hb), cand, true
		}
	}
	return "", nil, false
}

// isCallNamed: in is a call (static or interface) of a method/function with this name.
func isCallNamed(in ssa.Instruction, name string) bool {
	ci, ok := in.(ssa.CallInstruction)
	if !ok {
		return false
	}
	obj := eng.CalleeObj(ci.Common())
	return obj != nil && obj.Name() == name
}

// resultSite is one way result #ri of a function gets its value: a return of that value, or
// a phi edge that selects it.
type resultSite struct {
	Val     ssa.Value
	Guarded func(p eng.Pred) bool // every path selecting this value passes an edge establishing p
}

// resultSites enumerates the selections of result #ri (phis resolved up to three levels).
func resultSites(f *ssa.Function, ri int) []resultSite {
	var out []resultSite
	entry := f.Blocks[0].Instrs[0]
	var viaPhi func(phi *ssa.Phi, d int)
	viaPhi = func(phi *ssa.Phi, d int) {
		for i, e := range phi.Edges {
			if inner, ok := e.(*ssa.Phi); ok && d < 3 {
				viaPhi(inner, d+1)
				continue
			}
			src, dst := phi.Block().Preds[i], phi.Block()
			out = append(out, resultSite{Val: e, Guarded: func(p eng.Pred) bool {
				g := eng.GuardedEdge(entry, func(a, b *ssa.BasicBlock) bool { return a == src && b == dst }, p)
				return g.Guarded && g.Edges > 0
			}})
		}
	}
	eng.Instrs(f, func(in ssa.Instruction) {
		ret, ok := in.(*ssa.Return)
		if !ok || ri >= len(ret.Results) {
			return
		}
		v := ret.Results[ri]
		if phi, isPhi := v.(*ssa.Phi); isPhi {
			viaPhi(phi, 0)
			return
		}
		out = append(out, resultSite{Val: v, Guarded: func(p eng.Pred) bool {
			g := eng.Guarded(ret, p)
			return g.Guarded && g.Edges > 0
		}})
	})
	return out
}

// mayWriteParam reports whether f may store into a field of the object its pointer parameter
// idx points to, directly or by handing the pointer on, over the in-scope call graph (calls
// of function values are resolved by the graph's address-taken + signature matching). The
// witness names the storing function and the field. Callees outside the module are taken
// not to write (they cannot name the repository's fields).
func mayWriteParam(cg *eng.CG, f *ssa.Function, idx int, seen map[string]bool) (bool, string) {
	if f == nil || f.Blocks == nil || idx < 0 || idx >= len(f.Params) {
		return false, ""
	}
	k := fmt.Sprintf("%s#%d", f.String(), idx)
	if seen[k] {
		return false, ""
	}
	seen[k] = true
	p := ssa.Value(f.Params[idx])
	isP := func(v ssa.Value) bool {
		v = eng.StripConv(v)
		if v == p {
			return true
		}
		// reload of the spilled parameter
		if u, ok := v.(*ssa.UnOp); ok && u.Op == token.MUL {
			if al, ok := u.X.(*ssa.Alloc); ok {
				for _, r := range *al.Referrers() {
					if st, ok := r.(*ssa.Store); ok && st.Addr == al && eng.StripConv(st.Val) == p {
						return true
					}
				}
			}
		}
		return false
	}
	var hit string
	eng.Instrs(f, func(in ssa.Instruction) {
		if hit != "" {
			return
		}
		if st, ok := in.(*ssa.Store); ok {
			if fa, ok := st.Addr.(*ssa.FieldAddr); ok && isP(fa.X) {
				_, fl, _, _ := eng.FieldOf(fa)
				hit = fmt.Sprintf("%s stores to .%s", fnName(f), fl)
			}
		}
	})
	if hit != "" {
		return true, hit
	}
	for _, e := range cg.Out[f] {
		args := eng.CallArgs(e.Site.Common())
		off := len(e.Callee.Params) - len(args)
		if off < 0 {
			continue
		}
		for i, a := range args {
			if isP(a) {
				if w, why := mayWriteParam(cg, e.Callee, i+off, seen); w {
					return true, fnName(f) + " → " + why
				}
			}
		}
	}
	return false, ""
}

// fromCryptoRand reports whether v is computed from bytes produced by crypto/rand in the same
// function (or by an in-scope callee all of whose results are): rand.Int(rand.Reader, …) and
// methods of the *big.Int it returns, a slice filled by crypto/rand.Read, conversions, byte
// order helpers and arithmetic over such values. why names the first operand that is not.
func fromCryptoRand(v ssa.Value, depth int) (bool, string) {
	if depth > 10 || v == nil {
		return false, "value too deep to follow"
	}
	switch x := v.(type) {
	case *ssa.Convert:
		return fromCryptoRand(x.X, depth+1)
	case *ssa.ChangeType:
		return fromCryptoRand(x.X, depth+1)
	case *ssa.BinOp:
		// arithmetic with constants keeps the randomness; both operands otherwise
		if _, isC := x.Y.(*ssa.Const); isC {
			return fromCryptoRand(x.X, depth+1)
		}
		if _, isC := x.X.(*ssa.Const); isC {
			return fromCryptoRand(x.Y, depth+1)
		}
		a, wa := fromCryptoRand(x.X, depth+1)
		b, wb := fromCryptoRand(x.Y, depth+1)
		if a || b {
			return true, ""
		}
		return false, wa + "; " + wb
	case *ssa.Extract:
		return fromCryptoRand(x.Tuple, depth+1)
	case *ssa.Phi:
		for k, e := range x.Edges {
			if ok, why := fromCryptoRand(e, depth+1); !ok {
				// the zero a helper returns next to its error (`return 0, err`, inlined): the edge
				// is excused when a sibling error phi carries a non-nil-constant value on it and
				// nil on the random edges; the caller's use must then sit behind `err == nil`
				// (checked by the rule through excusedErrPhis)
				if _, isC := e.(*ssa.Const); isC {
					if ep := siblingErrorPhi(x, k); ep != nil {
						excusedErrPhis[x] = append(excusedErrPhis[x], ep)
						continue
					}
				}
				return false, why
			}
		}
		return true, ""
	case *ssa.Call:
		id := eng.FuncID(eng.CalleeObj(&x.Call))
		args := eng.CallArgs(&x.Call)
		switch id {
		case "crypto/rand.Int", "crypto/rand.Prime":
			if len(args) > 0 {
				if u, ok := args[0].(*ssa.UnOp); ok {
					if g, ok := u.X.(*ssa.Global); ok && g.Pkg.Pkg.Path() == "crypto/rand" && g.Name() == "Reader" {
						return true, ""
					}
				}
			}
			return false, "rand.Int not reading crypto/rand.Reader"
		}
		if strings.HasPrefix(id, "math/big.Int.") || strings.HasPrefix(id, "encoding/binary.bigEndian.") || strings.HasPrefix(id, "encoding/binary.littleEndian.") || strings.HasPrefix(id, "encoding/binary.ByteOrder.") {
			if len(args) > 0 {
				for _, a := range args {
					if ok, _ := fromCryptoRand(a, depth+1); ok {
						return true, ""
					}
				}
			}
			return false, "operand of " + id + " is not random"
		}
		if sc := x.Call.StaticCallee(); sc != nil && sc.Blocks != nil {
			n := 0
			for _, rv := range eng.ResultValues(sc, 0) {
				n++
				if ok, why := fromCryptoRand(rv, depth+1); !ok {
					return false, "via " + sc.Name() + ": " + why
				}
			}
			return n > 0, "no result"
		}
		return false, "result of " + id
	case *ssa.Slice:
		return fromCryptoRand(x.X, depth+1)
	case *ssa.MakeSlice, *ssa.Alloc:
		// a buffer: random if it is handed to crypto/rand.Read in this function
		filled := false
		var visit func(b ssa.Value, d int)
		visit = func(b ssa.Value, d int) {
			if d > 3 || b.Referrers() == nil {
				return
			}
			for _, r := range *b.Referrers() {
				switch y := r.(type) {
				case *ssa.Slice:
					visit(y, d+1)
				case ssa.CallInstruction:
					if id := eng.FuncID(eng.CalleeObj(y.Common())); id == "crypto/rand.Read" || id == "io.ReadFull" {
						filled = true
					}
				}
			}
		}
		visit(x, 0)
		if filled {
			return true, ""
		}
		return false, "buffer never filled by crypto/rand.Read"
	case *ssa.UnOp:
		if x.Op == token.MUL {
			if ia, ok := x.X.(*ssa.IndexAddr); ok {
				return fromCryptoRand(ia.X, depth+1)
			}
			if al, ok := x.X.(*ssa.Alloc); ok {
				n := 0
				for _, r := range *al.Referrers() {
					if st, ok := r.(*ssa.Store); ok && st.Addr == al {
						n++
						if ok, why := fromCryptoRand(st.Val, depth+1); !ok {
							return false, why
						}
					}
				}
				if n > 0 {
					return true, ""
				}
			}
		}
		return fromCryptoRand(x.X, depth+1)
	}
	return false, "not derived from crypto/rand: " + eng.Describe(v)
}

// excusedErrPhis records, per value phi, the error phis whose non-nil edges excused a constant
// edge in fromCryptoRand (reset by the caller before a query).
var excusedErrPhis = map[*ssa.Phi][]*ssa.Phi{}

// siblingErrorPhi: a phi of type error in the same block as p that is non-nil-constant on edge
// k and the nil constant on at least one other edge.
func siblingErrorPhi(p *ssa.Phi, k int) *ssa.Phi {
	for _, in := range p.Block().Instrs {
		q, ok := in.(*ssa.Phi)
		if !ok {
			break
		}
		if q == p || q.Type().String() != "error" || k >= len(q.Edges) {
			continue
		}
		if eng.IsNilConst(q.Edges[k]) {
			continue
		}
		hasNil := false
		for j, e := range q.Edges {
			if j != k && eng.IsNilConst(e) {
				hasNil = true
			}
		}
		if hasNil {
			return q
		}
	}
	return nil
}

// saltRule: every Key.SetSalt in production code stores a value drawn from crypto/rand.
func saltRule(c *core.Ctx, rule string) {
	c.Rule(rule, "every security.Key.SetSalt(x) in production code takes x from crypto/rand (rand.Int(rand.Reader, …)): the salt whitens the other blocks of a key under the v1/v3 ciphers, a constant or inherited salt lets blocks of different keys of one master be recombined", 4)
	n := 0
	for _, f := range c.P.ScopeFuncs() {
		for _, call := range eng.Calls(f, false, M+"security.Key.SetSalt") {
			n++
			a := eng.CallArgs(call.Common())
			excusedErrPhis = map[*ssa.Phi][]*ssa.Phi{}
			ok, why := fromCryptoRand(a[1], 0)
			for _, eps := range excusedErrPhis {
				for _, ep := range eps {
					errNil := eng.EqPred("err == nil", true, func(x, y ssa.Value) bool { return x == ssa.Value(ep) && eng.IsNilConst(y) })
					if g := eng.Guarded(call.(ssa.Instruction), errNil); !(g.Guarded && g.Edges > 0) {
						ok, why = false, "the zero returned next to an error can reach SetSalt (the error is not tested)"
					}
				}
			}
			c.Check(ok, rule, fnName(f)+":salt is random", call.Pos(), "the salt is drawn from crypto/rand", "the salt of a new key is not drawn from crypto/rand ("+why+"): keys minted from one master then share their salt and their encrypted blocks can be spliced into each other")
		}
	}
	c.Count("callsites_analysed", n)
}

// ---- pool hygiene (P) -----------------------------------------------------------------------

// isPoolPut reports whether in returns an object to a sync.Pool: (*sync.Pool).Put or an
// in-scope wrapper whose body hands its parameter to (*sync.Pool).Put. It returns the object.
func isPoolPut(in ssa.Instruction) (ssa.Value, bool) {
	ci, ok := in.(ssa.CallInstruction)
	if !ok {
		return nil, false
	}
	cc := ci.Common()
	if eng.FuncID(eng.CalleeObj(cc)) == "sync.Pool.Put" {
		a := eng.CallArgs(cc)
		return a[len(a)-1], true
	}
	if sc := cc.StaticCallee(); sc != nil && sc.Blocks != nil && core.InScope(pkgPathOf(sc)) && len(sc.Params) > 0 {
		inner := false
		last := sc.Params[len(sc.Params)-1]
		eng.Instrs(sc, func(i2 ssa.Instruction) {
			if c2, ok := i2.(ssa.CallInstruction); ok && eng.FuncID(eng.CalleeObj(c2.Common())) == "sync.Pool.Put" {
				a := eng.CallArgs(c2.Common())
				v := a[len(a)-1]
				if mi, ok := v.(*ssa.MakeInterface); ok {
					v = mi.X
				}
				if v == ssa.Value(last) {
					inner = true
				}
			}
		})
		if inner {
			a := eng.CallArgs(cc)
			return a[len(a)-1], true
		}
	}
	return nil, false
}

// poolRule: nothing derived from a pooled object is touched after the object went back to its
// pool (another goroutine may already be writing into it), in the functions of the given
// packages. A deferred Put runs after the last use by construction.
func poolRule(c *core.Ctx, rule string, pkgs ...string) {
	c.Rule(rule, "pool hygiene: after a pooled object is returned to its sync.Pool (directly or through a wrapper) no value derived from it (its buffer, slices of it, results of its methods) is used on any path; a deferred Put satisfies this by construction", 1)
	inPkgs := map[string]bool{}
	for _, p := range pkgs {
		inPkgs[M+p] = true
	}
	nPut := 0
	for _, f := range c.P.ScopeFuncs() {
		if !inPkgs[pkgPathOf(f)] {
			continue
		}
		eng.Instrs(f, func(in ssa.Instruction) {
			obj, ok := isPoolPut(in)
			if !ok {
				return
			}
			nPut++
			key := fmt.Sprintf("%s:no use after Put", fnName(f))
			_, isDefer := in.(*ssa.Defer)
			if _, isGo := in.(*ssa.Go); isGo {
				c.Fail(rule, key, in.Pos(), "the pooled object is returned from a new goroutine: the return is not ordered after the last use")
				return
			}
			// root of the object
			root := obj
			for {
				switch x := root.(type) {
				case *ssa.MakeInterface:
					root = x.X
					continue
				case *ssa.TypeAssert:
					root = x.X
					continue
				case *ssa.ChangeType:
					root = x.X
					continue
				}
				break
			}
			D := map[ssa.Value]bool{}
			var grow func(v ssa.Value, d int)
			grow = func(v ssa.Value, d int) {
				if v == nil || D[v] || d > 12 {
					return
				}
				D[v] = true
				if v.Referrers() == nil {
					return
				}
				for _, r := range *v.Referrers() {
					switch x := r.(type) {
					case *ssa.TypeAssert, *ssa.Phi, *ssa.FieldAddr, *ssa.IndexAddr, *ssa.Slice, *ssa.MakeInterface, *ssa.ChangeType, *ssa.Convert, *ssa.UnOp:
						grow(x.(ssa.Value), d+1)
					case *ssa.Extract:
						if _, fromCall := x.Tuple.(*ssa.Call); !fromCall {
							grow(x, d+1)
						}
					case *ssa.Call:
						// results that can alias the pooled object: methods *on* it (Buffer(), Bytes(),
						// Slice()), and in-scope functions it is passed to; results of out-of-scope
						// functions that merely read it (w.Write, snappy.Encode) are new values
						args := eng.CallArgs(&x.Call)
						isRecv := len(args) > 0 && args[0] == v && (x.Call.IsInvoke() || (x.Call.StaticCallee() != nil && x.Call.StaticCallee().Signature.Recv() != nil))
						inScope := x.Call.StaticCallee() != nil && x.Call.StaticCallee().Blocks != nil && core.InScope(pkgPathOf(x.Call.StaticCallee()))
						if !isRecv && !inScope {
							break
						}
						aliasable := func(t types.Type) bool {
							switch u := t.Underlying().(type) {
							case *types.Pointer, *types.Slice, *types.Map, *types.Chan, *types.Struct:
								return true
							case *types.Interface:
								return t.String() != "error" && u != nil
							}
							return false
						}
						if tup, isTup := x.Type().(*types.Tuple); isTup {
							for _, r2 := range *x.Referrers() {
								if ex, ok := r2.(*ssa.Extract); ok && aliasable(tup.At(ex.Index).Type()) {
									grow(ex, d+1)
								}
							}
						} else if aliasable(x.Type()) {
							grow(x, d+1)
						}
					}
				}
			}
			grow(root, 0)
			uses := func(i2 ssa.Instruction) bool {
				if i2 == in {
					return false
				}
				if _, isDbg := i2.(*ssa.DebugRef); isDbg {
					return false
				}
				for _, op := range i2.Operands(nil) {
					if op != nil && *op != nil && D[*op] {
						return true
					}
				}
				return false
			}
			if isDefer {
				// the deferred Put runs when f returns: nothing derived from the object may outlive f
				escape := ""
				// results (functions with defer spill them into locals: ResultValues resolves that)
				for ri := 0; ri < f.Signature.Results().Len(); ri++ {
					for _, rv := range eng.ResultValues(f, ri) {
						if D[rv] {
							escape = "is returned to the caller"
						}
					}
				}
				eng.Instrs(f, func(i2 ssa.Instruction) {
					switch x := i2.(type) {
					case *ssa.Return:
						for _, r := range x.Results {
							if D[r] {
								escape = "is returned to the caller (" + c.P.Pos(x.Pos()) + ")"
							}
						}
					case *ssa.Store:
						if D[x.Val] {
							if _, local := x.Addr.(*ssa.Alloc); !local {
								escape = "is stored outside the function (" + c.P.Pos(x.Pos()) + ")"
							}
						}
					case *ssa.Go:
						for _, op := range x.Operands(nil) {
							if op != nil && *op != nil && D[*op] {
								escape = "is handed to a goroutine (" + c.P.Pos(x.Pos()) + ")"
							}
						}
					case *ssa.Send:
						if D[x.X] {
							escape = "is sent on a channel (" + c.P.Pos(x.Pos()) + ")"
						}
					}
				})
				if escape != "" {
					c.Fail(rule, key+" (deferred)", in.Pos(), "a value derived from the pooled object "+escape+" although the object goes back to the pool when this function returns: the caller then reads memory another goroutine may already be overwriting")
				} else {
					c.OK(rule, key+" (deferred)", in.Pos(), "the pooled object is returned by a deferred call, after its last use, and nothing derived from it outlives the function")
				}
				return
			}
			reached, path := eng.Reach(f, in, nil, uses)
			if reached {
				c.Fail(rule, key, in.Pos(), "a value derived from the pooled object is used after the object was returned to the pool: a concurrent Get can reset or overwrite it meanwhile (bytes of another goroutine's message, or garbage, are encoded/written)", path...)
			} else {
				c.OK(rule, key, in.Pos(), "nothing derived from the pooled object is used after Put")
			}
		})
	}
	c.Count("pool_put_sites", nPut)
	if nPut == 0 {
		c.Undecided(rule, "sites", token.NoPos, "no sync.Pool Put site found in "+strings.Join(pkgs, ", "))
	}
}

// jsonTargetRule: encoding/json leaves the fields a document omits untouched, so a request
// must be decoded into a value that is zero: a fresh local, or an object zeroed as a whole
// (`*p = T{}`) before the decode. Decoding into a pooled or otherwise reused object carries the
// previous request's key, channel, permissions or ttl into the next one.
func jsonTargetRule(c *core.Ctx, rule string, pkgs ...string) {
	c.Rule(rule, "request decoding: the target of json.Unmarshal / (*json.Decoder).Decode in the request handlers is a fresh local variable (or is zeroed as a whole before the call) — never a pooled, cached or shared object", 1)
	inPkgs := map[string]bool{}
	for _, p := range pkgs {
		inPkgs[M+p] = true
	}
	n := 0
	for _, f := range c.P.ScopeFuncs() {
		if !inPkgs[pkgPathOf(f)] {
			continue
		}
		for _, call := range eng.Calls(f, false, "encoding/json.Unmarshal", "encoding/json.Decoder.Decode") {
			n++
			a := eng.CallArgs(call.Common())
			t := a[len(a)-1]
			if mi, ok := t.(*ssa.MakeInterface); ok {
				t = mi.X
			}
			key := fmt.Sprintf("%s:decodes into a zero value", fnName(f))
			fresh := false
			why := eng.Describe(t)
			if al, ok := t.(*ssa.Alloc); ok {
				// a local: never written before the decode except by a zero/initial composite store
				fresh = true
				for _, r := range *al.Referrers() {
					if st, ok := r.(*ssa.Store); ok && st.Addr == al && eng.Dominates(st, call) {
						if _, isC := st.Val.(*ssa.Const); !isC {
							fresh, why = false, "the local is assigned ("+eng.Describe(st.Val)+") before the decode"
						}
					}
				}
				if eng.InLoop(call) && !al.Heap {
					// a stack slot declared outside the loop would be reused between iterations
				}
			} else {
				// whole-object zero store dominating the decode
				if t.Referrers() != nil {
					for _, r := range *t.Referrers() {
						if st, ok := r.(*ssa.Store); ok && st.Addr == t && eng.Dominates(st, call) {
							if k, isC := st.Val.(*ssa.Const); isC && k.Value == nil {
								fresh = true
							}
						}
					}
				}
				if !fresh {
					why = "the target is " + eng.Describe(t) + " (not a local declared for this request, and not zeroed as a whole before the decode)"
				}
			}
			c.Check(fresh, rule, key, call.Pos(), "the request is decoded into a zero value", "a request is decoded into an object that may still hold a previous request: "+why+" — fields the JSON document omits keep the earlier values (key, channel, permissions, ttl)")
		}
	}
	c.Count("json_decode_sites", n)
	if n == 0 {
		c.Undecided(rule, "sites", token.NoPos, "no json decode site found in "+strings.Join(pkgs, ", "))
	}
}

// returnedValue resolves result #i of a return instruction through the spill go/ssa introduces
// in functions with defer (`*r = v; rundefers; t = *r; return t`): the value stored into the
// result local in the same block, or in the unique non-reload store to it.
func returnedValue(ret *ssa.Return, i int) ssa.Value {
	v := ret.Results[i]
	u, ok := v.(*ssa.UnOp)
	if !ok || u.Op != token.MUL {
		return v
	}
	al, ok := u.X.(*ssa.Alloc)
	if !ok {
		return v
	}
	var last ssa.Value
	for _, in := range ret.Block().Instrs {
		if st, ok := in.(*ssa.Store); ok && st.Addr == ssa.Value(al) {
			last = st.Val
		}
	}
	if last != nil {
		if r := unspill(last); r != nil {
			return r
		}
		return last
	}
	if r := unspill(v); r != nil {
		return r
	}
	return v
}

// unspill: v is a load of a local all of whose stores but one are reloads of itself; returns
// the value of that one store (nil otherwise).
func unspill(v ssa.Value) ssa.Value {
	u, ok := v.(*ssa.UnOp)
	if !ok || u.Op != token.MUL {
		return nil
	}
	al, ok := u.X.(*ssa.Alloc)
	if !ok || al.Referrers() == nil {
		return nil
	}
	var real []ssa.Value
	for _, r := range *al.Referrers() {
		st, ok := r.(*ssa.Store)
		if !ok || st.Addr != ssa.Value(al) {
			continue
		}
		if lu, isLoad := st.Val.(*ssa.UnOp); isLoad && lu.Op == token.MUL && lu.X == ssa.Value(al) {
			continue
		}
		real = append(real, st.Val)
	}
	if len(real) == 1 {
		return real[0]
	}
	return nil
}
