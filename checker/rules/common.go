// Package rules holds the per-property rule instances.
package rules

import (
	"fmt"
	"go/token"
	"go/types"
	"sort"

	"golang.org/x/tools/go/ssa"

	"verif/checker/core"
	"verif/checker/eng"
)

// M is the import-path prefix of the repository's internal packages.
const M = core.ModPath + "/internal/"

// Prop describes one property check.
type Prop struct {
	ID          string
	Run         func(c *core.Ctx)
	Thorough    func(c *core.Ctx) // extra work of the thorough tier (may be nil)
	Explanation string
	Assumptions []string
}

// Props is the registry.
var Props = map[string]*Prop{}

func register(p *Prop) { Props[p.ID] = p }

// IDs returns the registered property ids, sorted.
func IDs() []string {
	var ids []string
	for id := range Props {
		ids = append(ids, id)
	}
	sort.Strings(ids)
	return ids
}

// fn resolves an anchored function; a missing anchor is recorded as UNDECIDED.
func fn(c *core.Ctx, rule, rel, recv, name string) *ssa.Function {
	f := c.P.Func(rel, recv, name)
	if f == nil || f.Blocks == nil {
		n := name
		if recv != "" {
			n = recv + "." + name
		}
		c.Undecided(rule, "anchor:"+rel+"."+n, token.NoPos, "anchor missing: function "+rel+"."+n+" not found in the current tree (update the rule table)")
		return nil
	}
	c.Count("functions_analysed", 1)
	c.Count("blocks_analysed", len(f.Blocks))
	return f
}

// callsIn returns calls in f (incl. closures) to any of ids.
func callsIn(f *ssa.Function, ids ...string) []ssa.CallInstruction {
	return eng.Calls(f, true, ids...)
}

// param returns the i-th parameter of f (0 = receiver for methods).
func param(f *ssa.Function, i int) ssa.Value {
	if i < len(f.Params) {
		return f.Params[i]
	}
	return nil
}

// constOf returns the int64 value of a package-level constant.
func constOf(c *core.Ctx, rule, rel, name string) (int64, bool) {
	k := c.P.Const(rel, name)
	if k == nil {
		c.Undecided(rule, "anchor:"+rel+"."+name, token.NoPos, "anchor missing: constant "+rel+"."+name)
		return 0, false
	}
	v, ok := constInt64(k)
	return v, ok
}

func constInt64(k *types.Const) (int64, bool) {
	return eng.ConstValInt(k.Val())
}

// isExtractOf reports v == Extract(call, idx).
func isExtractOf(v ssa.Value, call ssa.Value, idx int) bool {
	v = eng.StripConv(v)
	e, ok := v.(*ssa.Extract)
	return ok && e.Tuple == call && e.Index == idx
}

// extractOf finds the Extract instruction #idx of a tuple-valued call.
func extractOf(call ssa.Value, idx int) ssa.Value {
	refs := call.Referrers()
	if refs == nil {
		return nil
	}
	for _, r := range *refs {
		if e, ok := r.(*ssa.Extract); ok && e.Index == idx {
			return e
		}
	}
	return nil
}

// isCallOn reports whether v is a call to id whose receiver (arg 0) satisfies recvOK.
func isCallOn(v ssa.Value, id string, recvOK func(ssa.Value) bool) bool {
	v = eng.StripConv(v)
	call, ok := v.(*ssa.Call)
	if !ok {
		return false
	}
	if eng.FuncID(eng.CalleeObj(&call.Call)) != id {
		return false
	}
	args := eng.CallArgs(&call.Call)
	if len(args) == 0 {
		return false
	}
	return recvOK == nil || recvOK(args[0])
}

// fnName renders a function for keys (package-relative, stable across line moves).
func fnName(f *ssa.Function) string {
	if f == nil {
		return "<nil>"
	}
	s := f.String()
	const pre = core.ModPath + "/"
	for i := 0; i+len(pre) <= len(s); i++ {
		if s[i:i+len(pre)] == pre {
			s = s[:i] + s[i+len(pre):]
			i--
		}
	}
	return s
}

type typesFunc = types.Func

// indexCandidates returns the non-constant values used as element indices in f (IndexAddr,
// Index): the loop variables as the code actually uses them, whatever the loop form (a range
// loop indexes with phi+1, a counted loop with the phi itself).
func indexCandidates(f *ssa.Function) []ssa.Value {
	seen := map[ssa.Value]bool{}
	var out []ssa.Value
	add := func(v ssa.Value) {
		v = eng.StripConv(v)
		if _, isC := v.(*ssa.Const); isC || seen[v] {
			return
		}
		seen[v] = true
		out = append(out, v)
	}
	eng.Instrs(f, func(in ssa.Instruction) {
		switch x := in.(type) {
		case *ssa.IndexAddr:
			add(x.Index)
		case *ssa.Index:
			add(x.Index)
		}
	})
	return out
}

// sliceBounds renders the bounds of a slice expression: "lo:hi" for constant bounds, or
// "ai+b:ci+d" over an element index i used in f (with a != 0); iv is that index.
func sliceBounds(f *ssa.Function, sl *ssa.Slice) (s string, iv ssa.Value, ok bool) {
	lo, isLo := eng.ConstInt(sl.Low)
	hi, isHi := eng.ConstInt(sl.High)
	if sl.Low == nil {
		lo, isLo = 0, true
	}
	if isLo && isHi {
		return fmt.Sprintf("%d:%d", lo, hi), nil, true
	}
	for _, cand := range indexCandidates(f) {
		la, lb, ok1 := affine(sl.Low, cand, 0)
		ha, hb, ok2 := affine(sl.High, cand, 0)
		if ok1 && ok2 && la != 0 {
			return fmt.Sprintf("%di+%d:%di+%d", la, lb, ha, hb), cand, true
		}
	}
	return "", nil, false
}

// isCallNamed: in is a call (static or interface) of a method/function with this name.
func isCallNamed(in ssa.Instruction, name string) bool {
	ci, ok := in.(ssa.CallInstruction)
	if !ok {
		return false
	}
	obj := eng.CalleeObj(ci.Common())
	return obj != nil && obj.Name() == name
}

// resultSite is one way result #ri of a function gets its value: a return of that value, or
// a phi edge that selects it.
type resultSite struct {
	Val     ssa.Value
	Guarded func(p eng.Pred) bool // every path selecting this value passes an edge establishing p
}

// resultSites enumerates the selections of result #ri (phis resolved up to three levels).
func resultSites(f *ssa.Function, ri int) []resultSite {
	var out []resultSite
	entry := f.Blocks[0].Instrs[0]
	var viaPhi func(phi *ssa.Phi, d int)
	viaPhi = func(phi *ssa.Phi, d int) {
		for i, e := range phi.Edges {
			if inner, ok := e.(*ssa.Phi); ok && d < 3 {
				viaPhi(inner, d+1)
				continue
			}
			src, dst := phi.Block().Preds[i], phi.Block()
			out = append(out, resultSite{Val: e, Guarded: func(p eng.Pred) bool {
				g := eng.GuardedEdge(entry, func(a, b *ssa.BasicBlock) bool { return a == src && b == dst }, p)
				return g.Guarded && g.Edges > 0
			}})
		}
	}
	eng.Instrs(f, func(in ssa.Instruction) {
		ret, ok := in.(*ssa.Return)
		if !ok || ri >= len(ret.Results) {
			return
		}
		v := ret.Results[ri]
		if phi, isPhi := v.(*ssa.Phi); isPhi {
			viaPhi(phi, 0)
			return
		}
		out = append(out, resultSite{Val: v, Guarded: func(p eng.Pred) bool {
			g := eng.Guarded(ret, p)
			return g.Guarded && g.Edges > 0
		}})
	})
	return out
}

// mayWriteParam reports whether f may store into a field of the object its pointer parameter
// idx points to, directly or by handing the pointer on, over the in-scope call graph (calls
// of function values are resolved by the graph's address-taken + signature matching). The
// witness names the storing function and the field. Callees outside the module are taken
// not to write (they cannot name the repository's fields).
func mayWriteParam(cg *eng.CG, f *ssa.Function, idx int, seen map[string]bool) (bool, string) {
	if f == nil || f.Blocks == nil || idx < 0 || idx >= len(f.Params) {
		return false, ""
	}
	k := fmt.Sprintf("%s#%d", f.String(), idx)
	if seen[k] {
		return false, ""
	}
	seen[k] = true
	p := ssa.Value(f.Params[idx])
	isP := func(v ssa.Value) bool {
		v = eng.StripConv(v)
		if v == p {
			return true
		}
		// reload of the spilled parameter
		if u, ok := v.(*ssa.UnOp); ok && u.Op == token.MUL {
			if al, ok := u.X.(*ssa.Alloc); ok {
				for _, r := range *al.Referrers() {
					if st, ok := r.(*ssa.Store); ok && st.Addr == al && eng.StripConv(st.Val) == p {
						return true
					}
				}
			}
		}
		return false
	}
	var hit string
	eng.Instrs(f, func(in ssa.Instruction) {
		if hit != "" {
			return
		}
		if st, ok := in.(*ssa.Store); ok {
			if fa, ok := st.Addr.(*ssa.FieldAddr); ok && isP(fa.X) {
				_, fl, _, _ := eng.FieldOf(fa)
				hit = fmt.Sprintf("%s stores to .%s", fnName(f), fl)
			}
		}
	})
	if hit != "" {
		return true, hit
	}
	for _, e := range cg.Out[f] {
		args := eng.CallArgs(e.Site.Common())
		off := len(e.Callee.Params) - len(args)
		if off < 0 {
			continue
		}
		for i, a := range args {
			if isP(a) {
				if w, why := mayWriteParam(cg, e.Callee, i+off, seen); w {
					return true, fnName(f) + " → " + why
				}
			}
		}
	}
	return false, ""
}
