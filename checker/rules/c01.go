package rules

import (
	"fmt"
	"go/token"
	"go/types"
	"strings"

	"golang.org/x/tools/go/ssa"

	"verif/checker/core"
	"verif/checker/eng"
)

const (
	idSubsAddUnique = M + "message.Subscribers.AddUnique"
	idSubsRemove    = M + "message.Subscribers.Remove"
	idSubsSize      = M + "message.Subscribers.Size"
	idSubsReset     = M + "message.Subscribers.Reset"
	idSubsAddRange  = M + "message.Subscribers.AddRange"
	idSubsContains  = M + "message.Subscribers.Contains"
	idOrphan        = M + "message.node.orphan"
	idHashOfString  = M + "security/hash.OfString"
	idSubscriberID  = M + "message.Subscriber.ID"
	idRandomByGroup = M + "message.Trie.randomByGroup"
)

func init() {
	register(&Prop{
		ID:  "C01",
		Run: runC01,
		Explanation: "Structural necessary conditions of 'the trie delivers to exactly the matching subscribers', decided on every path of the trie code: " +
			"(R1) lock discipline — every access to node.subs/children/parent and Trie.count happens with Trie.RWMutex held (write mode for writes) in the function or in every caller, and every exit releases what it acquired (must-held lockset dataflow + requires propagation over the VTA call graph; this is the 'all interleavings of concurrent callers' clause); " +
			"(R2) count++ / count-- only under AddUnique / Remove success and always then; (R3) the only delete from node.children is in orphan, orphan calls are cut off by emptiness (subs.Size()==0 and len(children)==0) of the very node being detached; (R6) under those conditions orphan is always called and recurses upward; " +
			"(R4) the pooled share-group list is Reset in every iteration before it is filled, Put is deferred; (R5) AddUnique/Remove/Contains derive the key by the same chain hash.OfString(value.ID()); " +
			"(R7) matcher exhaustiveness: both matchers follow children[query[0]] and children[wildcard] with query[1:], the MQTT matcher also children[multiWildcard], Lookup consults children[share] and calls randomByGroup. " +
			"NOT decided: the matching relation over hashed words as such, uniformity of share-group choice, 32-bit collisions of subscriber-id hashes.",
		Assumptions: []string{
			"Trie.root and node.word are immutable after construction",
			"the VTA call graph resolves the t.lookup method value to lookupEmitter/lookupMqtt",
		},
	})
}

func runC01(c *core.Ctx) {
	c.Rule("C01.R1", "guarded-by: node.{subs,children,parent} and Trie.count by Trie.RWMutex (write lock for writes); every exit of a locking function releases the lock", 12)
	lockRule(c, "C01.R1", []string{tNode, tTrie}, nil)
	c01R2(c)
	c01R3(c)
	c01R4(c)
	c01R5(c)
	c01R7(c)
	c01R8(c)
	c01R9(c)
	c01R10(c)
	// R11: the per-subscriber bookkeeping that gates Trie.Unsubscribe (sub.go Counters, an anchor of
	// this property): an entry lost from a collision chain is a filter that is never removed from
	// the trie again ("when every subscription has been removed the index is empty again").
	foldKeyRule(c, "C01.R11", 5)
}

// sizeZeroPred: subs.Size()==0 of node base
func sizeZeroPred(node func(ssa.Value) bool) eng.Pred {
	return eng.ZeroPred("subs.Size()==0", true, func(x ssa.Value) bool {
		call, ok := eng.StripConv(x).(*ssa.Call)
		if !ok || eng.FuncID(eng.CalleeObj(&call.Call)) != idSubsSize {
			return false
		}
		base, ok := eng.AddrOfField(eng.CallArgs(&call.Call)[0], "subs")
		return ok && node(base)
	})
}

func childrenEmptyPred(node func(ssa.Value) bool) eng.Pred {
	return eng.ZeroPred("len(children)==0", true, func(x ssa.Value) bool {
		m, ok := eng.LenOf(x)
		if !ok {
			return false
		}
		base, ok := eng.LoadOfField(m, "children")
		return ok && node(base)
	})
}

func c01R2(c *core.Ctx) {
	rule := "C01.R2"
	c.Rule(rule, "Trie.count is incremented only under AddUnique(...)=true and decremented only under Remove(...)=true, and on every path where they succeed (two-sided)", 4)
	pk := c.P.SSAPkg("internal/message")
	if pk == nil {
		c.Undecided(rule, "anchor:message", token.NoPos, "package internal/message missing")
		return
	}
	n := 0
	for _, f := range c.P.ScopeFuncs() {
		if f.Pkg != pk {
			continue
		}
		eng.Instrs(f, func(in ssa.Instruction) {
			st, ok := in.(*ssa.Store)
			if !ok {
				return
			}
			owner, field, base, ok := eng.FieldOf(st.Addr)
			if !ok || owner != tTrie || field != "count" {
				return
			}
			if _, fresh := base.(*ssa.Alloc); fresh {
				return
			}
			n++
			bo, isB := st.Val.(*ssa.BinOp)
			one := false
			if isB {
				if k, ok := eng.ConstInt(bo.Y); ok && k == 1 {
					if b2, ok := eng.LoadOfField(bo.X, "count"); ok && eng.SameValue(b2, base) {
						one = true
					}
				}
			}
			if !isB || !one || (bo.Op != token.ADD && bo.Op != token.SUB) {
				c.Fail(rule, fnName(f)+":count update", st.Pos(), "Trie.count is written with something other than count±1: "+eng.Describe(st.Val))
				return
			}
			id, nm := idSubsAddUnique, "AddUnique"
			if bo.Op == token.SUB {
				id, nm = idSubsRemove, "Remove"
			}
			pred := eng.CallPred(nm+"()=true", id, -1, true, func(a []ssa.Value) bool {
				_, ok := eng.AddrOfField(a[0], "subs")
				return ok
			})
			g := eng.Guarded(st, pred)
			c.Count("guard_cuts", 1)
			if g.Guarded && g.Edges > 0 {
				c.OK(rule, fnName(f)+":count"+bo.Op.String()+" only if "+nm, st.Pos(), "cut off by "+nm+"()=true")
			} else {
				c.Fail(rule, fnName(f)+":count"+bo.Op.String()+" only if "+nm, st.Pos(), "count is changed on a path where "+nm+" did not succeed", g.Witness...)
			}
			ok2, w := eng.MustFollow(f, []eng.Pred{pred}, func(i ssa.Instruction) bool { return i == st })
			c.Check(ok2, rule, fnName(f)+":count"+bo.Op.String()+" if "+nm, st.Pos(), "every path after "+nm+"()=true updates count", fmt.Sprintf("a path after %s()=true returns without updating count: %v", nm, w))
		})
	}
	if n == 0 {
		c.Fail(rule, "count never updated", token.NoPos, "no store to Trie.count found outside constructors")
	}
	// every AddUnique/Remove on node.subs has its result used
	for _, name := range []string{"Subscribe", "Unsubscribe"} {
		f := fn(c, rule, "internal/message", "Trie", name)
		if f == nil {
			continue
		}
		id := idSubsAddUnique
		if name == "Unsubscribe" {
			id = idSubsRemove
		}
		calls := eng.Calls(f, false, id)
		c.Check(len(calls) == 1, rule, fnName(f)+":single set operation", f.Pos(), "exactly one set operation on the node's subscriber set", fmt.Sprintf("expected one %s call, found %d", id, len(calls)))
	}
}

func c01R3(c *core.Ctx) {
	rule := "C01.R3"
	c.Rule(rule, "pruning: delete(node.children, …) occurs only in node.orphan; every call of orphan is cut off by subs.Size()==0 and len(children)==0 of the node being detached; and (two-sided) when both hold orphan is called; orphan deletes the node from its parent past the root test and recurses on the parent", 7)
	// (a) deletes only inside orphan
	nDel := 0
	for _, f := range c.P.ScopeFuncs() {
		eng.Instrs(f, func(in ssa.Instruction) {
			args, ok := eng.IsBuiltinCall(in, "delete")
			if !ok {
				return
			}
			if base, ok := eng.LoadOfField(args[0], "children"); ok {
				if owner, _, _, ok2 := eng.FieldOf(args[0].(*ssa.UnOp).X); ok2 && owner == tNode {
					nDel++
					_ = base
					inOrphan := eng.FuncID(objOf(f)) == idOrphan
					c.Check(inOrphan, rule, fnName(f)+":delete(children)", in.Pos(), "child removal happens in node.orphan", "a trie child is deleted outside node.orphan (pruning must go through the emptiness-guarded orphan)")
				}
			}
		})
	}
	if nDel == 0 {
		c.Fail(rule, "no child removal", token.NoPos, "no delete from node.children found: empty branches are never reclaimed")
	}
	// (b) orphan call sites
	nCalls := 0
	for _, f := range c.P.ScopeFuncs() {
		for _, call := range eng.Calls(f, false, idOrphan) {
			nCalls++
			recv := eng.CallArgs(call.Common())[0]
			same := func(v ssa.Value) bool { return eng.SameValue(v, recv) }
			p1, p2 := sizeZeroPred(same), childrenEmptyPred(same)
			for _, p := range []eng.Pred{p1, p2} {
				g := eng.Guarded(call, p)
				c.Count("guard_cuts", 1)
				if g.Guarded && g.Edges > 0 {
					c.OK(rule, fnName(f)+":orphan only if "+p.Name, call.Pos(), "cut off by "+p.Name+" of the detached node")
				} else {
					c.Fail(rule, fnName(f)+":orphan only if "+p.Name, call.Pos(), "orphan() is reachable without "+p.Name+" of the node being detached ("+eng.Describe(recv)+")", g.Witness...)
				}
			}
			ok, w := eng.MustFollow(f, []eng.Pred{p1, p2}, func(i ssa.Instruction) bool { return i == call.(ssa.Instruction) })
			c.Check(ok, rule, fnName(f)+":orphan if empty", call.Pos(), "whenever the node is empty orphan is called", fmt.Sprintf("a path on which the node is empty returns without calling orphan: %v", w))
		}
	}
	// (c) inside orphan: past the root test the node is deleted from its parent on every path,
	// and the walk continues with the parent exactly when the parent became empty: either by a
	// recursive call (covered by (b)) or by a loop whose next node is the parent.
	ascents, recursive := 0, 0
	if f := fn(c, rule, "internal/message", "node", "orphan"); f != nil {
		for _, call := range eng.Calls(f, false, idOrphan) {
			if b, ok := eng.LoadOfField(eng.CallArgs(call.Common())[0], "parent"); ok && isNodeVar(f, b) {
				ascents++
				recursive++
			}
		}
		// the node variables: the receiver, or the loop variable holding the current node
		var cands []ssa.Value
		cands = append(cands, param(f, 0))
		eng.Instrs(f, func(in ssa.Instruction) {
			if phi, ok := in.(*ssa.Phi); ok && isNodeVar(f, phi) {
				cands = append(cands, phi)
			}
		})
		delOf := func(z ssa.Value) func(i ssa.Instruction) bool {
			return func(i ssa.Instruction) bool {
				args, ok := eng.IsBuiltinCall(i, "delete")
				if !ok {
					return false
				}
				m, ok := eng.LoadOfField(args[0], "children")
				if !ok || !isParentOf(m, z) {
					return false
				}
				wb, ok := eng.LoadOfField(args[1], "word")
				return ok && eng.SameValue(wb, z)
			}
		}
		okDel := false
		var wit []string
		for _, z := range cands {
			z := z
			notRoot := eng.EqPred("parent != nil", false, func(x, y ssa.Value) bool {
				return isParentOf(x, z) && eng.IsNilConst(y)
			})
			if !eng.HasLicensingEdge(f, notRoot) {
				continue
			}
			ok, w := eng.MustFollow(f, []eng.Pred{notRoot}, delOf(z))
			if ok {
				okDel = true
			} else {
				wit = w
			}
			// loop form: z = phi(receiver, z.parent)
			phi, isPhi := z.(*ssa.Phi)
			if !isPhi || !ok {
				continue
			}
			var del ssa.Instruction
			eng.Instrs(f, func(i ssa.Instruction) {
				if delOf(z)(i) {
					del = i
				}
			})
			for k, e := range phi.Edges {
				if !isParentOf(e, z) || del == nil {
					continue
				}
				ascents++
				next := e
				src := phi.Block().Preds[k]
				same := func(v ssa.Value) bool { return eng.SameValue(v, next) }
				p1, p2 := sizeZeroPred(same), childrenEmptyPred(same)
				for _, p := range []eng.Pred{p1, p2} {
					g := eng.GuardedEdge(del, func(a, b *ssa.BasicBlock) bool { return a == src && b == phi.Block() }, p)
					c.Count("guard_cuts", 1)
					if g.Guarded && g.Edges > 0 {
						c.OK(rule, fnName(f)+":ascend only if "+p.Name, del.Pos(), "the walk continues with the parent only behind "+p.Name+" of the parent")
					} else {
						c.Fail(rule, fnName(f)+":ascend only if "+p.Name, del.Pos(), "the pruning walk continues with the parent without "+p.Name+" of the parent: a non-empty branch is detached", g.Witness...)
					}
				}
				okF, w := eng.MustFollowFrom(f, del, []eng.Pred{p1, p2}, func(i ssa.Instruction) bool { return i == ssa.Instruction(phi) })
				c.Check(okF, rule, fnName(f)+":ascend if empty", del.Pos(), "whenever the parent became empty the walk continues with it", fmt.Sprintf("a path on which the parent became empty ends the walk: %v", w))
			}
		}
		c.Check(okDel, rule, fnName(f)+":delete(parent.children, n.word)", f.Pos(), "past the root test the node is removed from its parent's children under its own word", fmt.Sprintf("orphan can return without delete(n.parent.children, n.word): %v", wit))
	}
	if nCalls-recursive < 1 || ascents < 1 {
		c.Fail(rule, "orphan call sites", token.NoPos, fmt.Sprintf("expected orphan to be called from Unsubscribe and to continue with the parent (recursion or loop), found %d call site(s), %d ascent(s)", nCalls, ascents))
	}
}

// isParentOf: v denotes z.parent — a load of z.parent, or a second loop variable P carried
// next to z (phis of the same block) that is z.parent on every incoming edge: the relation
// P == z.parent is then a loop invariant (initially P = z0.parent; in the step z' = P and
// P' = P.parent).
func isParentOf(v, z ssa.Value) bool {
	if b, ok := eng.LoadOfField(v, "parent"); ok && eng.SameValue(b, z) {
		return true
	}
	p, ok1 := v.(*ssa.Phi)
	zp, ok2 := z.(*ssa.Phi)
	if !ok1 || !ok2 || p.Block() != zp.Block() || len(p.Edges) != len(zp.Edges) {
		return false
	}
	for i := range p.Edges {
		b, ok := eng.LoadOfField(p.Edges[i], "parent")
		if !ok || !eng.SameValue(b, zp.Edges[i]) {
			return false
		}
	}
	return true
}

// isNodeVar: v has type *node and belongs to f.
func isNodeVar(f *ssa.Function, v ssa.Value) bool {
	p, ok := v.Type().(*types.Pointer)
	if !ok {
		return false
	}
	n, ok := p.Elem().(*types.Named)
	return ok && n.Obj().Pkg() != nil && n.Obj().Pkg().Path()+"."+n.Obj().Name() == tNode
}

func objOf(f *ssa.Function) *typesFunc {
	if f == nil {
		return nil
	}
	o, _ := f.Object().(*typesFunc)
	return o
}

func c01R4(c *core.Ctx) {
	rule := "C01.R4"
	c.Rule(rule, "randomByGroup: the pooled tempState is returned by a deferred Put; tmp.list.Reset() precedes the matcher call in every loop iteration; one AddUnique per iteration, cut off by Size()!=0", 3)
	f := fn(c, rule, "internal/message", "Trie", "randomByGroup")
	if f == nil {
		return
	}
	gets := eng.Calls(f, false, "sync.Pool.Get")
	var puts []ssa.Instruction
	eng.Instrs(f, func(in ssa.Instruction) {
		if d, ok := in.(*ssa.Defer); ok && eng.FuncID(eng.CalleeObj(&d.Call)) == "sync.Pool.Put" {
			puts = append(puts, d)
		}
	})
	c.Check(len(gets) == 1 && len(puts) == 1, rule, fnName(f)+":Get/defer Put", f.Pos(), "pooled state obtained once and returned by defer", fmt.Sprintf("expected one Pool.Get and one deferred Pool.Put, found %d/%d", len(gets), len(puts)))
	resets := eng.Calls(f, false, idSubsReset)
	// the matcher call: a dynamic call of the t.lookup field
	var lookups []ssa.Instruction
	eng.Instrs(f, func(in ssa.Instruction) {
		if call, ok := in.(*ssa.Call); ok && !call.Call.IsInvoke() && call.Call.StaticCallee() == nil {
			if _, ok := eng.LoadOfField(call.Call.Value, "lookup"); ok {
				lookups = append(lookups, call)
			}
		}
	})
	if len(resets) != 1 || len(lookups) != 1 {
		c.Fail(rule, fnName(f)+":reset before fill", f.Pos(), fmt.Sprintf("expected one Reset and one t.lookup call, found %d/%d", len(resets), len(lookups)))
	} else {
		reset, lk := resets[0].(ssa.Instruction), lookups[0]
		// Reset operates on the list that lookup fills
		ra := eng.CallArgs(resets[0].Common())[0]
		la := lk.(*ssa.Call).Call.Args[1]
		sameList := eng.SameValue(ra, la)
		// no second fill without a reset in between
		again, w := eng.Reach(f, lk, func(i ssa.Instruction) bool { return i == reset }, func(i ssa.Instruction) bool { return i == lk })
		c.Check(sameList && eng.Dominates(reset, lk) && eng.InLoop(reset) && !again, rule, fnName(f)+":reset before fill", reset.Pos(),
			"the pooled list is Reset before every fill", fmt.Sprintf("the pooled list can be filled without a preceding Reset in the same iteration (sameList=%v dominates=%v inLoop=%v refillPath=%v)", sameList, eng.Dominates(reset, lk), eng.InLoop(reset), w))
	}
	adds := eng.Calls(f, false, idSubsAddUnique)
	if len(adds) != 1 {
		c.Fail(rule, fnName(f)+":one pick per group", f.Pos(), fmt.Sprintf("expected one AddUnique per iteration, found %d", len(adds)))
	} else {
		nonEmpty := eng.NonZeroPred("list.Size()!=0", true, func(x ssa.Value) bool {
			call, ok := eng.StripConv(x).(*ssa.Call)
			return ok && eng.FuncID(eng.CalleeObj(&call.Call)) == idSubsSize
		})
		g := eng.Guarded(adds[0], nonEmpty)
		c.Check(g.Guarded && g.Edges > 0 && eng.InLoop(adds[0]), rule, fnName(f)+":one pick per group", adds[0].Pos(), "one member is added per share group, only when the group has matching members", "the pick is not guarded by a non-empty group or not inside the per-group loop")
	}
}

func c01R5(c *core.Ctx) {
	rule := "C01.R5"
	c.Rule(rule, "Subscribers.AddUnique, Remove and Contains key the set by the same chain hash.OfString(value.ID())", 3)
	for _, name := range []string{"AddUnique", "Remove", "Contains"} {
		f := fn(c, rule, "internal/message", "Subscribers", name)
		if f == nil {
			continue
		}
		ok := false
		for _, call := range eng.Calls(f, false, idHashOfString) {
			arg := eng.CallArgs(call.Common())[0]
			if isCallOn(arg, idSubscriberID, func(r ssa.Value) bool { return eng.SameValue(r, param(f, 1)) }) {
				// the key is used for the map operation
				refs := call.(*ssa.Call).Referrers()
				for _, r := range *refs {
					switch r.(type) {
					case *ssa.Lookup, *ssa.MapUpdate, *ssa.Call:
						ok = true
					}
				}
			}
		}
		c.Check(ok, rule, fnName(f)+":key", f.Pos(), "set key is hash.OfString(value.ID())", "the set key is not hash.OfString(value.ID()) of the subscriber argument")
	}
}

func c01R7(c *core.Ctx) {
	rule := "C01.R7"
	c.Rule(rule, "matcher exhaustiveness: lookupEmitter and lookupMqtt follow children[query[0]] and children[wildcard] recursing with query[1:]; lookupMqtt also reads children[multiWildcard]; emitter adds node.subs on every path, mqtt adds them exactly when the query is exhausted; Lookup consults children[share] of the contract node and calls randomByGroup with ssid[1:]", 12)
	wild, ok1 := constOf(c, rule, "internal/message", "wildcard")
	multi, ok2 := constOf(c, rule, "internal/message", "multiWildcard")
	share, ok3 := constOf(c, rule, "internal/message", "share")
	if !ok1 || !ok2 || !ok3 {
		return
	}
	type keyKind int
	classify := func(f *ssa.Function, idx ssa.Value) string {
		if k, ok := eng.ConstInt(idx); ok {
			switch k {
			case wild:
				return "wildcard"
			case multi:
				return "multiWildcard"
			case share:
				return "share"
			}
			return fmt.Sprintf("const %d", k)
		}
		// query[0]
		if u, ok := idx.(*ssa.UnOp); ok && u.Op == token.MUL {
			if ia, ok := u.X.(*ssa.IndexAddr); ok {
				if k, ok := eng.ConstInt(ia.Index); ok && k == 0 {
					return "word0"
				}
			}
		}
		return "other"
	}
	for _, name := range []string{"lookupEmitter", "lookupMqtt"} {
		f := fn(c, rule, "internal/message", "Trie", name)
		if f == nil {
			continue
		}
		kinds := map[string]int{}
		eng.Instrs(f, func(in ssa.Instruction) {
			if lk, ok := in.(*ssa.Lookup); ok {
				if _, ok := eng.LoadOfField(lk.X, "children"); ok {
					kinds[classify(f, lk.Index)]++
				}
			}
		})
		want := []string{"word0", "wildcard"}
		if name == "lookupMqtt" {
			want = append(want, "multiWildcard")
		}
		for _, w := range want {
			c.Check(kinds[w] >= 1, rule, fnName(f)+":branch "+w, f.Pos(), "children["+w+"] is consulted", "the matcher never consults children["+w+"]")
		}
		// recursion with query[1:]
		rec := eng.Calls(f, false, eng.FuncID(objOf(f)))
		okRec := len(rec) >= 2
		for _, call := range rec {
			a := eng.CallArgs(call.Common())
			sl, ok := a[1].(*ssa.Slice)
			if !ok || !eng.SameValue(sl.X, param(f, 1)) || sl.High != nil {
				okRec = false
				continue
			}
			if k, ok := eng.ConstInt(sl.Low); !ok || k != 1 {
				okRec = false
			}
		}
		c.Check(okRec, rule, fnName(f)+":recursion on query[1:]", f.Pos(), "both recursive calls consume exactly one level", "a recursive matcher call does not pass query[1:]")
		// AddRange(node.subs)
		nodeP := param(f, 3)
		isAddNode := func(i ssa.Instruction) bool {
			if !eng.IsCallTo(i, idSubsAddRange) {
				return false
			}
			a := eng.CallArgs(i.(ssa.CallInstruction).Common())
			b, ok := eng.LoadOfField(a[1], "subs")
			return ok && eng.SameValue(b, nodeP) && eng.SameValue(a[0], param(f, 2))
		}
		exhausted := eng.EqPred("len(query)==0", true, func(x, y ssa.Value) bool {
			k, ok := eng.ConstInt(y)
			if !ok || k != 0 {
				return false
			}
			q, ok := eng.LenOf(x)
			return ok && eng.SameValue(q, param(f, 1))
		})
		if name == "lookupEmitter" {
			ok, w := eng.MustPass(f, nil, isAddNode)
			c.Check(ok, rule, fnName(f)+":adds node.subs on every path", f.Pos(), "every visited node contributes its subscribers (prefix semantics)", fmt.Sprintf("a path returns without adding node.subs: %v", w))
		} else {
			var adds []ssa.Instruction
			eng.Instrs(f, func(i ssa.Instruction) {
				if isAddNode(i) {
					adds = append(adds, i)
				}
			})
			okG := len(adds) > 0
			for _, a := range adds {
				if g := eng.Guarded(a, exhausted); !g.Guarded || g.Edges == 0 {
					okG = false
				}
			}
			c.Check(okG, rule, fnName(f)+":adds node.subs only when exhausted", f.Pos(), "a node contributes only at full depth (same-depth semantics)", "node.subs are added although the query is not exhausted")
			ok, w := eng.MustFollow(f, []eng.Pred{exhausted}, isAddNode)
			c.Check(ok, rule, fnName(f)+":adds node.subs when exhausted", f.Pos(), "at full depth the node contributes", fmt.Sprintf("query exhausted but node.subs not added: %v", w))
			// '#' branch adds the child's subscribers
			hashAdd := false
			eng.Instrs(f, func(i ssa.Instruction) {
				if !eng.IsCallTo(i, idSubsAddRange) {
					return
				}
				a := eng.CallArgs(i.(ssa.CallInstruction).Common())
				b, ok := eng.LoadOfField(a[1], "subs")
				if !ok {
					return
				}
				if ex, ok := b.(*ssa.Extract); ok {
					if lk, ok := ex.Tuple.(*ssa.Lookup); ok && classify(f, lk.Index) == "multiWildcard" {
						// guarded by the comma-ok
						okv := extractOf(lk, 1)
						if okv != nil {
							if g := eng.Guarded(i, eng.ValuePred("found", okv, true)); g.Guarded && g.Edges > 0 {
								hashAdd = true
							}
						}
					}
				}
			})
			c.Check(hashAdd, rule, fnName(f)+":'#' child contributes", f.Pos(), "subscribers of the multi-level wildcard child are added when it exists", "the multi-level wildcard child's subscribers are not added (or not guarded by its presence)")
		}
	}
	// Lookup: share branch
	if f := fn(c, rule, "internal/message", "Trie", "Lookup"); f != nil {
		shareSeen := false
		eng.Instrs(f, func(in ssa.Instruction) {
			if lk, ok := in.(*ssa.Lookup); ok {
				if _, ok := eng.LoadOfField(lk.X, "children"); ok && classify(f, lk.Index) == "share" {
					shareSeen = true
				}
			}
		})
		c.Check(shareSeen, rule, fnName(f)+":share branch", f.Pos(), "children[share] of the contract node is consulted", "Lookup never consults the share branch")
		rb := eng.Calls(f, false, idRandomByGroup)
		okRB := len(rb) == 1
		if okRB {
			a := eng.CallArgs(rb[0].Common())
			sl, ok := a[1].(*ssa.Slice)
			okRB = ok && eng.SameValue(sl.X, param(f, 1)) && sl.High == nil
			if okRB {
				k, ok := eng.ConstInt(sl.Low)
				okRB = ok && k == 1
			}
		}
		c.Check(okRB, rule, fnName(f)+":randomByGroup(ssid[1:])", f.Pos(), "one member per share group is picked for the query below the contract", "randomByGroup is not called exactly once with ssid[1:]")
		// the main matcher is called from the root with the full ssid
		var lk []ssa.Instruction
		eng.Instrs(f, func(in ssa.Instruction) {
			if call, ok := in.(*ssa.Call); ok && !call.Call.IsInvoke() && call.Call.StaticCallee() == nil {
				if _, ok := eng.LoadOfField(call.Call.Value, "lookup"); ok {
					lk = append(lk, call)
				}
			}
		})
		okL := len(lk) == 1
		if okL {
			a := lk[0].(*ssa.Call).Call.Args
			_, isRoot := eng.LoadOfField(a[2], "root")
			okL = eng.SameValue(a[0], param(f, 1)) && isRoot
		}
		c.Check(okL, rule, fnName(f)+":matcher from root", f.Pos(), "the configured matcher runs once from the root over the whole ssid", "Lookup does not run the configured matcher once from t.root with the full ssid")
		if okL {
			// and on every path: no ssid is exempted from the direct walk (pubsub.Unsubscribe
			// decides by this very Lookup whether the trie entry is removed)
			always, w := eng.MustPass(f, nil, func(i ssa.Instruction) bool { return i == lk[0] })
			c.Check(always, rule, fnName(f)+":matcher on every path", f.Pos(), "every Lookup walks the trie from the root", fmt.Sprintf("a path through Lookup skips the matcher (some ssids are exempted from the direct walk): subscribers holding exactly that filter are not found — neither for delivery nor by pubsub.Unsubscribe, which then leaves their trie entry behind: %v", w))
		}
	}
}

// c01R8: one critical section per trie operation. A function that releases the trie lock and
// takes it again works on node pointers found in an earlier critical section, which may have
// been pruned in between (every access is still "under the lock", so R1 cannot see it).
func c01R8(c *core.Ctx) {
	rule := "C01.R8"
	c.Rule(rule, "atomicity: no function acquires Trie.RWMutex again after having released it (node pointers found in one critical section are not used in another)", 4)
	n := 0
	for _, f := range c.P.ScopeFuncs() {
		var unlocks []ssa.Instruction
		isLock := func(in ssa.Instruction, acquire bool) bool {
			call, ok := in.(*ssa.Call)
			if !ok {
				return false
			}
			id := eng.FuncID(eng.CalleeObj(&call.Call))
			var want []string
			if acquire {
				want = []string{"sync.RWMutex.Lock", "sync.RWMutex.RLock"}
			} else {
				want = []string{"sync.RWMutex.Unlock", "sync.RWMutex.RUnlock"}
			}
			hit := false
			for _, w := range want {
				if id == w {
					hit = true
				}
			}
			if !hit {
				return false
			}
			owner, field, _, ok := eng.FieldOf(eng.CallArgs(&call.Call)[0])
			return ok && owner == tTrie && field == "RWMutex"
		}
		locks := 0
		eng.Instrs(f, func(in ssa.Instruction) {
			if isLock(in, false) {
				unlocks = append(unlocks, in)
			}
			if isLock(in, true) {
				locks++
			}
			if d, ok := in.(*ssa.Defer); ok {
				id := eng.FuncID(eng.CalleeObj(&d.Call))
				if id == "sync.RWMutex.Unlock" || id == "sync.RWMutex.RUnlock" {
					if owner, field, _, ok := eng.FieldOf(eng.CallArgs(&d.Call)[0]); ok && owner == tTrie && field == "RWMutex" {
						locks += 0
					}
				}
			}
		})
		if locks == 0 {
			continue
		}
		n++
		bad := false
		for _, u := range unlocks {
			if again, w := eng.Reach(f, u, nil, func(i ssa.Instruction) bool { return isLock(i, true) }); again {
				bad = true
				c.Fail(rule, fnName(f)+":single critical section", u.Pos(), "the trie lock is released and acquired again in one operation; state read in the first section may be stale (e.g. a node pruned in between)", w...)
			}
		}
		if !bad {
			c.OK(rule, fnName(f)+":single critical section", f.Pos(), "one critical section per operation")
		}
	}
	if n == 0 {
		c.Fail(rule, "no locking function", token.NoPos, "no function takes Trie.RWMutex")
	}
}

// c01R9: two-sided branch rules — no path skips a branch that the matching relation needs.
func c01R9(c *core.Ctx) {
	rule := "C01.R9"
	c.Rule(rule, "no path skips a required branch: in both matchers, when the query is not exhausted children[query[0]] and children[wildcard] are looked up and a found child is recursed into; in Lookup the contract node, its share child and randomByGroup are reached whenever the preceding lookup succeeded", 9)
	wild, _ := constOf(c, rule, "internal/message", "wildcard")
	share, _ := constOf(c, rule, "internal/message", "share")
	isChildLookup := func(in ssa.Instruction, kind string, f *ssa.Function) (*ssa.Lookup, bool) {
		lk, ok := in.(*ssa.Lookup)
		if !ok {
			return nil, false
		}
		if _, ok := eng.LoadOfField(lk.X, "children"); !ok {
			return nil, false
		}
		switch kind {
		case "wildcard":
			k, ok := eng.ConstInt(lk.Index)
			return lk, ok && k == wild
		case "share":
			k, ok := eng.ConstInt(lk.Index)
			return lk, ok && k == share
		case "word0":
			if u, ok := lk.Index.(*ssa.UnOp); ok && u.Op == token.MUL {
				if ia, ok := u.X.(*ssa.IndexAddr); ok {
					if k, ok := eng.ConstInt(ia.Index); ok && k == 0 {
						return lk, true
					}
				}
			}
		}
		return nil, false
	}
	for _, name := range []string{"lookupEmitter", "lookupMqtt"} {
		f := fn(c, rule, "internal/message", "Trie", name)
		if f == nil {
			continue
		}
		notDone := eng.EqPred("len(query)!=0", false, func(x, y ssa.Value) bool {
			k, ok := eng.ConstInt(y)
			if !ok || k != 0 {
				return false
			}
			q, ok := eng.LenOf(x)
			return ok && eng.SameValue(q, param(f, 1))
		})
		for _, kind := range []string{"word0", "wildcard"} {
			var lks []*ssa.Lookup
			eng.Instrs(f, func(in ssa.Instruction) {
				if lk, ok := isChildLookup(in, kind, f); ok {
					lks = append(lks, lk)
				}
			})
			if len(lks) != 1 {
				c.Fail(rule, fnName(f)+":"+kind+" lookup", f.Pos(), fmt.Sprintf("expected one children[%s] lookup, found %d", kind, len(lks)))
				continue
			}
			lk := lks[0]
			ok, w := eng.MustFollow(f, []eng.Pred{notDone}, func(i ssa.Instruction) bool { return i == ssa.Instruction(lk) })
			c.Check(ok && eng.HasLicensingEdge(f, notDone), rule, fnName(f)+":"+kind+" always consulted", lk.Pos(), "with levels left, children["+kind+"] is always consulted", fmt.Sprintf("a path with levels left skips children[%s]: %v", kind, w))
			found := extractOf(lk, 1)
			child := extractOf(lk, 0)
			if found == nil || child == nil {
				c.Fail(rule, fnName(f)+":"+kind+" recursion", lk.Pos(), "lookup result is not used in comma-ok form")
				continue
			}
			ok, w = eng.MustFollow(f, []eng.Pred{eng.ValuePred("found", found, true)}, func(i ssa.Instruction) bool {
				call, isCall := i.(*ssa.Call)
				if !isCall || call.Call.StaticCallee() != f {
					return false
				}
				return eng.CallArgs(&call.Call)[3] == child
			})
			c.Check(ok, rule, fnName(f)+":"+kind+" child recursed into", lk.Pos(), "a found child is always descended into", fmt.Sprintf("a found %s child is not descended into: %v", kind, w))
		}
	}
	if f := fn(c, rule, "internal/message", "Trie", "Lookup"); f != nil {
		var l0, ls *ssa.Lookup
		eng.Instrs(f, func(in ssa.Instruction) {
			if lk, ok := isChildLookup(in, "word0", f); ok {
				l0 = lk
			}
			if lk, ok := isChildLookup(in, "share", f); ok {
				ls = lk
			}
		})
		if l0 == nil || ls == nil {
			c.Fail(rule, fnName(f)+":share lookups", f.Pos(), "contract-node or share-node lookup missing")
			return
		}
		ok, w := eng.MustPass(f, nil, func(i ssa.Instruction) bool { return i == ssa.Instruction(l0) })
		c.Check(ok, rule, fnName(f)+":contract node always consulted", l0.Pos(), "every lookup consults the contract node for share groups", fmt.Sprintf("a path skips the share-group pass: %v", w))
		f0, fs := extractOf(l0, 1), extractOf(ls, 1)
		if f0 != nil {
			ok, w = eng.MustFollow(f, []eng.Pred{eng.ValuePred("contract found", f0, true)}, func(i ssa.Instruction) bool { return i == ssa.Instruction(ls) })
			c.Check(ok, rule, fnName(f)+":share child always consulted", ls.Pos(), "a present contract node is always asked for its share child", fmt.Sprintf("share child not consulted: %v", w))
		}
		if f0 != nil && fs != nil {
			ok, w = eng.MustFollow(f, []eng.Pred{eng.ValuePred("contract found", f0, true), eng.ValuePred("share found", fs, true)}, func(i ssa.Instruction) bool { return eng.IsCallTo(i, idRandomByGroup) })
			c.Check(ok, rule, fnName(f)+":randomByGroup always called", ls.Pos(), "an existing share node always gets its per-group pick", fmt.Sprintf("share node exists but randomByGroup is skipped: %v", w))
		}
	}
}

// c01R10: node construction and the subscriber-set primitives.
func c01R10(c *core.Ctx) {
	rule := "C01.R10"
	c.Rule(rule, "Trie.Subscribe builds a missing child as node{word: the level word, parent: the current node, fresh subs and children} and links it as curr.children[word]; Subscribers.AddRange copies exactly the entries with filter == nil or filter(v) under their own key; AddUnique inserts only a non-nil value that is absent; Remove deletes only a present one", 4)
	if f := fn(c, rule, "internal/message", "Trie", "Subscribe"); f != nil {
		ok := false
		eng.Instrs(f, func(in ssa.Instruction) {
			al, isAl := in.(*ssa.Alloc)
			if !isAl || !al.Heap || shortT(al.Type().String()) != "*message.node" && !strings.HasSuffix(al.Type().String(), "message.node") {
				return
			}
			got := map[string]ssa.Value{}
			if refs := al.Referrers(); refs != nil {
				for _, r := range *refs {
					if fa, isFA := r.(*ssa.FieldAddr); isFA {
						_, fl, _, _ := eng.FieldOf(fa)
						if frefs := fa.Referrers(); frefs != nil {
							for _, fr := range *frefs {
								if st, isSt := fr.(*ssa.Store); isSt && st.Addr == fa {
									got[fl] = st.Val
								}
							}
						}
					}
				}
			}
			// linked under its own word in the parent's children
			linked := false
			eng.Instrs(f, func(i2 ssa.Instruction) {
				if mu, isMU := i2.(*ssa.MapUpdate); isMU && mu.Value == ssa.Value(al) && mu.Key == got["word"] {
					if b, isCh := eng.LoadOfField(mu.Map, "children"); isCh && b == got["parent"] {
						linked = true
					}
				}
			})
			_, freshKids := got["children"].(*ssa.MakeMap)
			freshSubs := false
			switch sv := got["subs"].(type) {
			case *ssa.Call:
				freshSubs = eng.FuncID(eng.CalleeObj(&sv.Call)) == M+"message.newSubscribers"
			case *ssa.MakeMap:
				freshSubs = true
			}
			if got["word"] != nil && got["parent"] != nil && linked && freshKids && freshSubs {
				ok = true
			}
		})
		c.Check(ok, rule, fnName(f)+":child node construction", f.Pos(), "a new level is created with its word, its parent pointer and fresh sets, and linked under that word", "Trie.Subscribe does not build the missing child with word/parent/fresh subs+children and link it as parent.children[word] (pruning and lookups depend on these fields)")
	}
	if f := fn(c, rule, "internal/message", "Subscribers", "AddRange"); f != nil {
		var mu *ssa.MapUpdate
		eng.Instrs(f, func(in ssa.Instruction) {
			if x, ok := in.(*ssa.MapUpdate); ok {
				mu = x
			}
		})
		ok := mu != nil
		if ok {
			flt := f.Params[2]
			pass := eng.Pred{Name: "filter==nil or filter(v)", Match: func(a eng.Atom) (bool, bool) {
				if a.Op == token.EQL {
					if (a.X == flt && eng.IsNilConst(a.Y)) || (a.Y == flt && eng.IsNilConst(a.X)) {
						return true, true
					}
				}
				if a.Op == token.ILLEGAL {
					if call, isCall := a.V.(*ssa.Call); isCall && call.Call.Value == flt {
						return true, true
					}
				}
				return false, false
			}}
			g := eng.Guarded(mu, pass)
			// key and value are the ranged pair
			kv := false
			if ek, isE := mu.Key.(*ssa.Extract); isE && ek.Index == 1 {
				if ev, isE2 := mu.Value.(*ssa.Extract); isE2 && ev.Index == 2 && ev.Tuple == ek.Tuple {
					kv = true
				}
			}
			ok = g.Guarded && g.Edges >= 2 && kv
			// two-sided: each alternative alone leads to the copy
			isNil := eng.EqPred("filter==nil", true, func(x, y ssa.Value) bool { return x == flt && eng.IsNilConst(y) })
			admits := eng.Pred{Name: "filter(v)", Match: func(a eng.Atom) (bool, bool) {
				if a.Op == token.ILLEGAL {
					if call, isCall := a.V.(*ssa.Call); isCall && call.Call.Value == flt {
						return true, true
					}
				}
				return false, false
			}}
			inLoop := func(i ssa.Instruction) bool { return i == ssa.Instruction(mu) }
			ok1, _ := eng.MustFollow(f, []eng.Pred{isNil}, func(i ssa.Instruction) bool {
				// only the paths that enter the loop body matter: a return reached with the flag set
				// but without any element is fine, so count the range-done exit as satisfied
				return inLoop(i)
			})
			ok2, _ := eng.MustFollow(f, []eng.Pred{admits}, inLoop)
			ok = ok && ok1 && ok2 && eng.HasLicensingEdge(f, isNil) && eng.HasLicensingEdge(f, admits)
		}
		c.Check(ok, rule, fnName(f)+":filtered copy", f.Pos(), "AddRange copies (id, v) exactly when no filter is given or the filter admits v", "Subscribers.AddRange does not copy each entry under its own key exactly when filter == nil || filter(v)")
	}
	for _, k := range []struct {
		name  string
		found bool
	}{{"AddUnique", false}, {"Remove", true}} {
		f := fn(c, rule, "internal/message", "Subscribers", k.name)
		if f == nil {
			continue
		}
		var eff ssa.Instruction
		var lk *ssa.Lookup
		eng.Instrs(f, func(in ssa.Instruction) {
			switch x := in.(type) {
			case *ssa.MapUpdate:
				if k.name == "AddUnique" {
					eff = x
				}
			case *ssa.Lookup:
				if x.CommaOk {
					lk = x
				}
			}
			if _, isDel := eng.IsBuiltinCall(in, "delete"); isDel && k.name == "Remove" {
				eff = in
			}
		})
		ok := eff != nil && lk != nil
		if ok {
			present := eng.ValuePred("present", extractOf(lk, 1), k.found)
			notNil := eng.EqPred("value != nil", false, func(x, y ssa.Value) bool { return x == f.Params[1] && eng.IsNilConst(y) })
			g1, g2 := eng.Guarded(eff, present), eng.Guarded(eff, notNil)
			ok = g1.Guarded && g1.Edges > 0 && g2.Guarded && g2.Edges > 0
			// result true iff the effect happened
			eng.Instrs(f, func(in ssa.Instruction) {
				ret, isRet := in.(*ssa.Return)
				if !isRet {
					return
				}
				if b, isC := constBoolOf(ret.Results[0]); isC && b && !eng.Dominates(eff, ret) {
					ok = false
				}
			})
		}
		c.Check(ok, rule, fnName(f)+":set semantics", f.Pos(), k.name+" changes the set exactly when it reports true", "Subscribers."+k.name+" does not have set semantics (effect only for a non-nil value that is "+map[bool]string{false: "absent", true: "present"}[k.found]+", true only after the effect)")
	}
}
