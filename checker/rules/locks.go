package rules

import (
	"fmt"
	"sort"
	"strings"

	"golang.org/x/tools/go/ssa"

	"verif/checker/core"
	"verif/checker/eng"
)

// The guarded-by table of the repository (confirmed by reading the code; DESIGN.md §3 L).
var (
	tTrie     = M + "message.Trie"
	tNode     = M + "message.node"
	tCounters = M + "message.Counters"
	tVolatile = M + "event/crdt.Volatile"
	tLConn    = M + "network/listener.Conn"
	tPeer     = M + "service/cluster.Peer"

	subsRead = map[string]bool{"Size": true, "Random": true, "Contains": true}
	bufRead  = map[string]bool{"Len": true, "Bytes": true, "Cap": true, "String": true}

	guardTable = []*eng.GuardedField{
		{Owner: tNode, Field: "subs", LockOwner: tTrie, LockField: "RWMutex", ReadMethods: subsRead},
		{Owner: tNode, Field: "children", LockOwner: tTrie, LockField: "RWMutex"},
		{Owner: tNode, Field: "parent", LockOwner: tTrie, LockField: "RWMutex"},
		{Owner: tTrie, Field: "count", LockOwner: tTrie, LockField: "RWMutex", SameInstance: true},
		{Owner: tCounters, Field: "m", LockOwner: tCounters, LockField: "Mutex", SameInstance: true},
		{Owner: tVolatile, Field: "data", LockOwner: tVolatile, LockField: "lock", SameInstance: true},
		{Owner: tLConn, Field: "writer", LockOwner: tLConn, LockField: "RWMutex", SameInstance: true, ReadMethods: bufRead},
		{Owner: tPeer, Field: "frame", LockOwner: tPeer, LockField: "Mutex", SameInstance: true},
	}

	// callees that invoke their function argument synchronously on the caller's goroutine
	syncHOF = map[string]bool{
		"github.com/tidwall/buntdb.DB.Update":         true,
		"github.com/tidwall/buntdb.DB.View":           true,
		"github.com/tidwall/buntdb.Tx.Ascend":         true,
		"github.com/dgraph-io/badger/v3.DB.Update":    true,
		"github.com/dgraph-io/badger/v3.DB.View":      true,
		"sync.Map.Range":                              true,
		"sort.Slice":                                  true,
		M + "event/crdt.Map.Range":                    true,
		M + "event/crdt.Volatile.Range":               true,
		M + "event/crdt.Durable.Range":                true,
		M + "event.State.Subscriptions":               true,
		M + "event.State.SubscriptionsOf":             true,
		M + "event.State.ConnectionsOf":               true,
	}

	lockCache = map[*core.Prog]*eng.LockAnalysis{}
)

func lockAnalysis(c *core.Ctx) *eng.LockAnalysis {
	if la, ok := lockCache[c.P]; ok {
		return la
	}
	la := eng.NewLockAnalysis(c.P.ScopeFuncs(), c.P.CG(), guardTable, syncHOF, func(f *ssa.Function, class string) bool {
		for _, e := range lockExemptions {
			if strings.HasSuffix(fnName(f), e.fnSuffix) && class == e.class {
				return true
			}
		}
		return false
	})
	lockCache[c.P] = la
	return la
}

// lockExemptions: tabled single-symbol exceptions (read accesses only), with a reason each.
var lockExemptions = []lockException{
	{fnSuffix: "internal/service/cluster.Peer).processSendQueue", class: M + "service/cluster.Peer.Mutex", reason: "unlocked emptiness probe len(p.frame)==0: a racy read whose worst case is one 5 ms tick of delay; the frame itself is taken by swap under the lock"},
}

// lockException is a tabled single-symbol exception: function name -> reason.
type lockException struct {
	fnSuffix string
	class    string
	reason   string
}

// lockRule emits the obligations of the lock engine restricted to the given owner types.
// minAccess is the number of guarded accesses confirmed by hand.
func lockRule(c *core.Ctx, rule string, owners []string, exceptions []lockException) {
	la := lockAnalysis(c)
	c.Count("lock_ops_seen", la.NLockOps)
	c.Count("guarded_accesses_seen", la.NAccess)
	c.Count("functions_in_lock_dataflow", la.NFuncs)
	own := map[string]bool{}
	for _, o := range owners {
		own[o] = true
	}
	classes := map[string]bool{}
	for _, g := range guardTable {
		if own[g.Owner] {
			classes[g.LockOwner+"."+g.LockField] = true
		}
	}
	// positive obligations: one per (function, field, mode)
	type k struct{ fn, field, mode string }
	seen := map[k]bool{}
	var fns []*ssa.Function
	for f := range la.Accesses {
		fns = append(fns, f)
	}
	sort.Slice(fns, func(i, j int) bool { return fns[i].String() < fns[j].String() })
	for _, f := range fns {
		for _, a := range la.Accesses[f] {
			if !own[a.G.Owner] {
				continue
			}
			mode := "R"
			if a.Write {
				mode = "W"
			}
			kk := k{fnName(f), shortT(a.G.Owner) + "." + a.G.Field, mode}
			if seen[kk] {
				continue
			}
			seen[kk] = true
			// is there a finding for this function & class?
			bad := false
			for _, fd := range la.Findings {
				if fd.Kind == "unguarded" && fd.Fn == f && strings.Contains(fd.Key, a.G.LockOwner+"."+a.G.LockField) {
					bad = true
				}
			}
			if !bad {
				how := "lock held here or by every caller (requires-propagation)"
				c.OK(rule, fmt.Sprintf("access:%s:%s:%s", kk.fn, kk.field, kk.mode), a.Instr.Pos(), how)
			}
		}
	}
	for _, a := range la.Exempted {
		if !own[a.G.Owner] {
			continue
		}
		reason := ""
		for _, e := range lockExemptions {
			if strings.HasSuffix(fnName(a.Instr.Parent()), e.fnSuffix) {
				reason = e.reason
			}
		}
		c.OK(rule, fmt.Sprintf("tabled-exception:%s:%s.%s", fnName(a.Instr.Parent()), shortT(a.G.Owner), a.G.Field), a.Instr.Pos(), "tabled exception (read only): "+reason)
	}
	for _, fd := range la.Findings {
		hit := false
		for cl := range classes {
			if strings.Contains(fd.Key, cl) {
				hit = true
			}
		}
		if !hit {
			continue
		}
		key := fd.Kind + ":" + fnName(fd.Fn) + ":" + shortT(strings.TrimPrefix(strings.SplitN(fd.Key, ":", 3)[1], ""))
		excused := ""
		for _, e := range exceptions {
			if strings.HasSuffix(fnName(fd.Fn), e.fnSuffix) && strings.Contains(fd.Key, e.class) && fd.Kind == "unguarded" {
				excused = e.reason
			}
		}
		if excused != "" {
			c.OK(rule, key+":tabled-exception", fd.Pos, "tabled exception: "+excused)
			continue
		}
		c.Fail(rule, key, fd.Pos, fd.Msg)
	}
}

func shortT(s string) string {
	if i := strings.LastIndex(s, "/"); i >= 0 {
		return s[i+1:]
	}
	return s
}
