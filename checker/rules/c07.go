package rules

import (
	"fmt"
	"sort"
	"go/token"

	"golang.org/x/tools/go/ssa"

	"verif/checker/core"
	"verif/checker/eng"
)

const (
	idMsgStored     = M + "message.Message.Stored"
	idChannelTTL    = M + "security.Channel.TTL"
	idChannelLast   = M + "security.Channel.Last"
	idChannelWindow = M + "security.Channel.Window"
)

func init() {
	register(&Prop{
		ID:  "C07",
		Run: runC07,
		Explanation: "Structural necessary conditions of 'messages are retained and replayed exactly as requested': " +
			"(R1) in OnPublish and OnLastWill store.Store(msg) is cut off by msg.Stored() ∧ HasPermission(AllowStore) of the authorised key (and the authorisation guards), is outside any loop, and is reached whenever those hold; the message stored is the one built from key.Contract()/channel (C03.R4); " +
			"(R2) the only writes to msg.TTL before Store are RetainedTTL under the retain flag and uint32(ttl) under channel.TTL() ok ∧ ttl>0, and those flags always lead to the write; Message.Stored ≡ TTL>0; " +
			"(R3) in OnSubscribe store.Query is cut off by HasPermission(AllowLoad) of the authorised key, gets the subscribed ssid, the window of channel.Window() and a limit that is 1 unless channel.Last() is ok; the query and every replay Send happen synchronously inside OnSubscribe (no goroutine), whenever the guards hold; in Conn.onReceive the SUBACK is written after the OnSubscribe calls on every path (replay before ack); " +
			"(R4) SSD.Store replaces exactly RetainedTTL by the configured retention and entries expire at Message.Expires() (shared with C06.R4). " +
			"NOT decided: which N messages come back, ordering against concurrent live messages.",
		Assumptions: []string{"security.Key / security.Channel accessors are pure"},
	})
}

func runC07(c *core.Ctx) {
	c07R1R2(c)
	c07R3(c)
	c06R4(c, "C07.R4")
	c02R8(c, "C07.R5")
	c06Limit(c, "C07.R6")
	c06Survey(c, "C07.R7")
	c06R2(c) // shared with C06 (reported as C06.R2)
	nilGossiperRule(c, "C07.R8")
}

func allowConst(c *core.Ctx, name string) int64 {
	if k := c.P.Const("internal/security", name); k != nil {
		v, _ := constInt64(k)
		return v
	}
	return -1
}

func hasPermPred(c *core.Ctx, key ssa.Value, name string, want bool) eng.Pred {
	bit := allowConst(c, name)
	return eng.CallPred(fmt.Sprintf("key.HasPermission(%s)=%v", name, want), idHasPermission, -1, want, func(a []ssa.Value) bool {
		if len(a) != 2 || key == nil || !eng.SameValue(a[0], key) {
			return false
		}
		k, ok := eng.ConstInt(a[1])
		return ok && k == bit
	})
}

func c07R1R2(c *core.Ctx) {
	r1, r2 := "C07.R1", "C07.R2"
	c.Rule(r1, "OnPublish/OnLastWill: exactly one store.Store(msg) call, outside loops, cut off by msg.Stored()=true ∧ HasPermission(AllowStore)=true ∧ allowed ∧ !AllowExtend, and reached whenever these hold; Message.Stored ≡ TTL > 0", 11)
	c.Rule(r2, "TTL writes: msg.TTL = RetainedTTL only under the retain flag (Header.Retain / WillRetain) and always then; msg.TTL = uint32(ttl) only under channel.TTL() ok ∧ ttl > 0 and always then; no other write to msg.TTL", 5)
	sites := authorizeSites(c)
	for _, hn := range []string{"OnPublish", "OnLastWill"} {
		f := fn(c, r1, "internal/service/pubsub", "Service", hn)
		if f == nil {
			continue
		}
		name := fnName(f)
		var site *authSite
		for i := range sites {
			if sites[i].fn == f {
				site = &sites[i]
			}
		}
		if site == nil {
			c.Fail(r1, name+":authorises", f.Pos(), "handler does not call Authorize")
			continue
		}
		stores := eng.Calls(f, false, idStorageStore)
		if len(stores) != 1 {
			c.Fail(r1, name+":one Store", f.Pos(), fmt.Sprintf("expected exactly one store.Store call, found %d", len(stores)))
			continue
		}
		st := stores[0]
		msg := eng.CallArgs(st.Common())[1]
		c.Check(!eng.InLoop(st), r1, name+":Store outside loops", st.Pos(), "the message is stored at most once", "store.Store is inside a loop (a message could be stored more than once)")
		// msg was built by message.New(NewSsid(key.Contract(), channel.Query), channel.Channel, payload)
		news := eng.Calls(f, false, M+"message.New")
		okMsg := len(news) == 1 && msg == news[0].Value()
		if okMsg {
			na := eng.CallArgs(news[0].Common())
			_, isCh := eng.LoadOfField(na[1], "Channel")
			okMsg = isCh && isCallOn(na[0], idNewSsid, nil)
		}
		c.Check(okMsg, r1, name+":stores the published message", st.Pos(), "the stored message is the one built for this publish (contract, query, channel)", "the message handed to Store is not the message.New(NewSsid(...), channel.Channel, payload) built for this request")
		preds := []eng.Pred{
			eng.CallPred("msg.Stored()", idMsgStored, -1, true, func(a []ssa.Value) bool { return eng.SameValue(a[0], msg) }),
			hasPermPred(c, site.key, "AllowStore", true),
			eng.ValuePred("allowed", site.allowed, true),
			notExtendPred(c, site.key),
		}
		for _, p := range preds {
			g := eng.Guarded(st, p)
			c.Count("guard_cuts", 1)
			c.Check(g.Guarded && g.Edges > 0, r1, name+":Store only if "+p.Name, st.Pos(), "cut off by "+p.Name, "a message can be written to history without "+p.Name)
		}
		ok, w := eng.MustFollow(f, preds, func(i ssa.Instruction) bool { return i == st.(ssa.Instruction) })
		c.Check(ok, r1, name+":Store whenever requested and permitted", st.Pos(), "a message with ttl/retain and a store-permitted key is always stored", fmt.Sprintf("a message that must be retained is not stored: %v", w))
		// the Store precedes the Publish? not required. TTL writes:
		retained := int64(4294967295)
		var ttlStores []*ssa.Store
		eng.Instrs(f, func(in ssa.Instruction) {
			s, ok := in.(*ssa.Store)
			if !ok {
				return
			}
			if b, ok := eng.AddrOfField(s.Addr, "TTL"); ok && eng.SameValue(b, msg) {
				ttlStores = append(ttlStores, s)
			}
		})
		retainField := "Retain"
		if hn == "OnLastWill" {
			retainField = "WillRetain"
		}
		retainP := eng.Pred{Name: retainField + " flag", Match: func(a eng.Atom) (bool, bool) {
			if a.Op != token.ILLEGAL {
				return false, false
			}
			if _, ok := eng.LoadOfField(a.V, retainField); ok {
				return true, true
			}
			return false, false
		}}
		var ttlCall ssa.Value
		if tc := eng.Calls(f, false, idChannelTTL); len(tc) == 1 {
			ttlCall = tc[0].Value()
		}
		ttlOK := eng.Pred{Name: "channel.TTL() ok", Match: func(a eng.Atom) (bool, bool) {
			if a.Op == token.ILLEGAL && ttlCall != nil && isExtractOf(a.V, ttlCall, 1) {
				return true, true
			}
			return false, false
		}}
		ttlPos := eng.LtPred("ttl > 0", true, func(x, y ssa.Value) bool {
			k, ok := eng.ConstInt(x)
			return ok && k == 0 && ttlCall != nil && isExtractOf(y, ttlCall, 0)
		})
		nRet, nTTL := 0, 0
		for i, s := range ttlStores {
			if k, ok := eng.ConstInt(s.Val); ok && (k == retained || k == -1) {
				nRet++
				g := eng.Guarded(s, retainP)
				c.Check(g.Guarded && g.Edges > 0, r2, fmt.Sprintf("%s:RetainedTTL only under %s", name, retainField), s.Pos(), "the retention marker is set only for retained publishes", "msg.TTL = RetainedTTL is written without the retain flag")
				ok2, w := eng.MustFollow(f, append([]eng.Pred{retainP}, preds[2:]...), func(in ssa.Instruction) bool { return in == ssa.Instruction(s) })
				c.Check(ok2, r2, fmt.Sprintf("%s:RetainedTTL whenever %s", name, retainField), s.Pos(), "a retained publish always gets the retention marker", fmt.Sprintf("retain flag set but TTL not marked: %v", w))
				continue
			}
			if ttlCall != nil && isExtractOf(eng.StripConv(s.Val), ttlCall, 0) {
				nTTL++
				g1, g2 := eng.Guarded(s, ttlOK), eng.Guarded(s, ttlPos)
				c.Check(g1.Guarded && g1.Edges > 0 && g2.Guarded && g2.Edges > 0, r2, name+":ttl option only if ok and positive", s.Pos(), "the ttl option is applied only when present and positive", "msg.TTL is set from the ttl option without `ok && ttl > 0`")
				ok2, w := eng.MustFollow(f, append([]eng.Pred{ttlOK, ttlPos}, preds[2:]...), func(in ssa.Instruction) bool { return in == ssa.Instruction(s) })
				c.Check(ok2, r2, name+":ttl option always applied", s.Pos(), "a positive ttl option always becomes the message TTL", fmt.Sprintf("ttl option present but not applied: %v", w))
				continue
			}
			c.Fail(r2, fmt.Sprintf("%s:unexpected TTL write#%d", name, i), s.Pos(), "msg.TTL is written with a value that is neither RetainedTTL nor the ttl option: "+eng.Describe(s.Val))
		}
		if nRet != 1 {
			c.Fail(r2, name+":retain marker", f.Pos(), fmt.Sprintf("expected one `msg.TTL = RetainedTTL`, found %d", nRet))
		}
		if hn == "OnPublish" && nTTL != 1 {
			c.Fail(r2, name+":ttl option", f.Pos(), fmt.Sprintf("expected one write of the ttl option to msg.TTL, found %d", nTTL))
		}
	}
	if f := fn(c, r1, "internal/message", "Message", "Stored"); f != nil {
		atoms, ok := eng.ConjunctAtoms(f, 0)
		okS := ok && len(atoms) == 1
		if okS {
			a := atoms[0]
			_, isTTL := eng.LoadOfField(a.Y, "TTL")
			k, isC := eng.ConstInt(a.X)
			okS = a.Op == token.LSS && !a.Neg && isTTL && isC && k == 0
		}
		c.Check(okS, r1, fnName(f)+":TTL>0", f.Pos(), "Stored ≡ TTL > 0", "Message.Stored is not TTL > 0")
	}
}

// callsSync reports whether in is a (non-go, non-defer) call of id, or of a same-package
// helper that calls id on every path.
func callsSync(in ssa.Instruction, id string, depth int) bool {
	call, ok := in.(*ssa.Call)
	if !ok {
		return false
	}
	if eng.FuncID(eng.CalleeObj(&call.Call)) == id {
		return true
	}
	if depth > 1 {
		return false
	}
	h := call.Call.StaticCallee()
	if h == nil || h.Blocks == nil || h.Pkg != in.Parent().Pkg {
		return false
	}
	ok2, _ := eng.MustPass(h, nil, func(i ssa.Instruction) bool { return callsSync(i, id, depth+1) })
	return ok2
}

func c07R3(c *core.Ctx) {
	rule := "C07.R3"
	c.Rule(rule, "OnSubscribe: store.Query only under HasPermission(AllowLoad) of the authorised key (plus the authorisation guards) and always then, synchronously (no go statement in the handler); arguments: the subscribed ssid, channel.Window(), nil, int(limit) with limit = 1 unless channel.Last() ok; each replayed message is sent before the handler returns; SUBACK follows in onReceive", 8)
	f := fn(c, rule, "internal/service/pubsub", "Service", "OnSubscribe")
	if f == nil {
		return
	}
	name := fnName(f)
	var site *authSite
	sites := authorizeSites(c)
	for i := range sites {
		if sites[i].fn == f {
			site = &sites[i]
		}
	}
	if site == nil {
		c.Fail(rule, name+":authorises", f.Pos(), "handler does not call Authorize")
		return
	}
	nGo := 0
	for _, g := range eng.WithAnon(f) {
		eng.Instrs(g, func(in ssa.Instruction) {
			if _, ok := in.(*ssa.Go); ok {
				nGo++
			}
		})
	}
	c.Check(nGo == 0, rule, name+":no goroutine", f.Pos(), "the replay runs on the connection's own goroutine, before the handler returns", "OnSubscribe starts a goroutine: work done there (history replay) is no longer ordered before the SUBACK")
	preds := []eng.Pred{
		eng.ValuePred("allowed", site.allowed, true),
		notExtendPred(c, site.key),
		hasPermPred(c, site.key, "AllowLoad", true),
	}
	// every successful return of the handler has been through the load-permission decision: a
	// SUBSCRIBE that is acknowledged (nil) without HasPermission(AllowLoad) having been consulted
	// skipped the replay (e.g. an early return for a subscription the connection already holds)
	loadBit := allowConst(c, "AllowLoad")
	isLoadTest := func(i ssa.Instruction) bool {
		if !eng.IsCallTo(i, idHasPermission) {
			return false
		}
		a := eng.CallArgs(i.(ssa.CallInstruction).Common())
		k, ok := eng.ConstInt(a[1])
		return ok && k == loadBit && site.key != nil && eng.SameValue(a[0], site.key)
	}
	okRet := func(i ssa.Instruction) bool {
		ret, ok := i.(*ssa.Return)
		return ok && len(ret.Results) == 1 && eng.IsNilConst(ret.Results[0])
	}
	early, wp := eng.Reach(f, nil, isLoadTest, okRet)
	c.Check(!early, rule, name+":every acknowledged subscribe reaches the replay decision", f.Pos(), "no success return before HasPermission(AllowLoad) is consulted", fmt.Sprintf("OnSubscribe can return success without consulting the load permission, i.e. without replaying the requested history (e.g. an early return when the connection already holds the subscription): %v", wp))
	qs := eng.Calls(f, false, idStorageQuery)
	if len(qs) == 1 {
		q := qs[0]
		for _, p := range preds {
			g := eng.Guarded(q, p)
			c.Count("guard_cuts", 1)
			c.Check(g.Guarded && g.Edges > 0, rule, name+":Query only if "+p.Name, q.Pos(), "cut off by "+p.Name, "history can be read without "+p.Name)
		}
		a := eng.CallArgs(q.Common())
		// ssid = the one subscribed
		subsC := eng.Calls(f, false, idPSSubscribe)
		okSsid := false
		if len(subsC) == 1 {
			if ns := eng.Calls(f, false, idNewSsid); len(ns) == 1 {
				okSsid = a[1] == ns[0].Value()
			}
		}
		c.Check(okSsid, rule, name+":Query for the subscribed ssid", q.Pos(), "history is read for the ssid being subscribed", "the ssid queried is not the one built for this subscription")
		win := eng.Calls(f, false, idChannelWindow)
		okWin := len(win) == 1 && isExtractOf(a[2], win[0].Value(), 0) && isExtractOf(a[3], win[0].Value(), 1)
		c.Check(okWin, rule, name+":window from channel options", q.Pos(), "from/until come from channel.Window()", "the query window is not (t0, t1) of channel.Window()")
		// limit
		okLim := false
		lim := eng.StripConv(a[5])
		if phi, ok := lim.(*ssa.Phi); ok {
			last := eng.Calls(f, false, idChannelLast)
			if len(last) == 1 {
				okLim = true
				for i, e := range phi.Edges {
					if k, isC := eng.ConstInt(e); isC {
						if k != 1 {
							okLim = false
						}
						continue
					}
					if !isExtractOf(e, last[0].Value(), 0) {
						okLim = false
						continue
					}
					pb := phi.Block().Preds[i]
					p := eng.ValuePred("last ok", extractOf(last[0].Value(), 1), true)
					if g := eng.Guarded(pb.Instrs[len(pb.Instrs)-1], p); !g.Guarded || g.Edges == 0 {
						okLim = false
					}
				}
			}
		}
		c.Check(okLim, rule, name+":limit is last or 1", q.Pos(), "N comes from the last option, 1 by default", "the query limit is not `1 unless channel.Last() ok`")
	} else {
		c.Count("query_in_helper", 1)
	}
	ok, w := eng.MustFollow(f, preds, func(i ssa.Instruction) bool { return callsSync(i, idStorageQuery, 0) })
	c.Check(ok, rule, name+":Query whenever load-permitted", f.Pos(), "an accepted subscription with load permission always reads history before returning", fmt.Sprintf("load permission present but history is not queried synchronously: %v", w))
	// replay sends inside the handler, in a loop over the query result
	sends := 0
	for _, s := range eng.Calls(f, false, idSubscriberSend) {
		if eng.InLoop(s) {
			sends++
			for _, p := range preds {
				g := eng.Guarded(s, p)
				c.Check(g.Guarded && g.Edges > 0, rule, name+":replay only if "+p.Name, s.Pos(), "cut off by "+p.Name, "stored messages can be replayed without "+p.Name)
			}
		}
	}
	if len(qs) == 1 {
		c.Check(sends == 1, rule, name+":replays the result", f.Pos(), "every message of the query result is sent to the subscriber", fmt.Sprintf("expected one Send in a loop over the query result, found %d", sends))
	}
	// SUBACK after the handler
	if g := fn(c, rule, "internal/broker", "Conn", "onReceive"); g != nil {
		calls := eng.Calls(g, false, idOnSubscribe)
		ok := len(calls) == 1
		if ok {
			_, isCall := calls[0].(*ssa.Call)
			ok2, _ := eng.MustPass(g, calls[0].(ssa.Instruction), func(i ssa.Instruction) bool { return eng.IsCallTo(i, M+"network/mqtt.Suback.EncodeTo") })
			// and the ack is not written before the handlers ran
			early, _ := eng.Reach(g, nil, func(i ssa.Instruction) bool { return i == calls[0].(ssa.Instruction) }, func(i ssa.Instruction) bool {
				if !eng.IsCallTo(i, M+"network/mqtt.Suback.EncodeTo") {
					return false
				}
				return true
			})
			_ = early
			ok = isCall && ok2
		}
		c.Check(ok, rule, fnName(g)+":SUBACK after replay", g.Pos(), "the SUBACK is written after every OnSubscribe call returned", "the SUBACK is not written after the synchronous OnSubscribe calls on every path")
	}
}

// nilGossiperRule: a broker without a `cluster` section hands the surveyor a typed-nil
// *cluster.Swarm (broker.NewService stores s.cluster, assigned only under cfg.Cluster != nil,
// into survey.New's gossiper interface). Surveyor.Query runs in that configuration too — every
// history replay (SSD.Query) and presence status goes through it — so every gossiper method
// it invokes must be nil-safe in (*Swarm): no access to a receiver field that is not cut off
// by `s != nil`. (Defect D16: Swarm.ID was not; a SUBSCRIBE with a load key ended the
// connection on a stand-alone broker.)
func nilGossiperRule(c *core.Ctx, rule string) {
	c.Rule(rule, "stand-alone configuration: the gossiper methods Surveyor.Query invokes are nil-receiver safe in (*cluster.Swarm) (every receiver field access is cut off by s != nil), because broker.NewService passes the possibly-nil s.cluster to survey.New", 2)
	q := fn(c, rule, "internal/service/survey", "Surveyor", "Query")
	if q == nil {
		return
	}
	invoked := map[string]ssa.Instruction{}
	eng.Instrs(q, func(in ssa.Instruction) {
		ci, ok := in.(ssa.CallInstruction)
		if !ok || !ci.Common().IsInvoke() {
			return
		}
		if _, isGossip := eng.LoadOfField(ci.Common().Value, "gossip"); isGossip {
			invoked[ci.Common().Method.Name()] = in
		}
	})
	if len(invoked) == 0 {
		c.Undecided(rule, fnName(q)+":gossiper calls", q.Pos(), "Surveyor.Query no longer invokes its gossiper (update the rule)")
		return
	}
	// is the gossiper possibly nil? (NewService passes the cluster field)
	passesField := false
	if ns := fn(c, rule, "internal/broker", "", "NewService"); ns != nil {
		for _, call := range eng.Calls(ns, false, M+"service/survey.New") {
			a := eng.CallArgs(call.Common())
			v := a[1]
			if mi, ok := v.(*ssa.MakeInterface); ok {
				v = mi.X
			}
			if _, isCl := eng.LoadOfField(v, "cluster"); isCl {
				passesField = true
			}
		}
	}
	if !passesField {
		c.OK(rule, "gossiper never nil", q.Pos(), "broker.NewService does not pass the optional cluster field to survey.New any more; nil-safety is not needed")
		return
	}
	var names []string
	for n := range invoked {
		names = append(names, n)
	}
	sort.Strings(names)
	for _, n := range names {
		m := c.P.Func("internal/service/cluster", "Swarm", n)
		if m == nil || m.Blocks == nil {
			c.Undecided(rule, "anchor:Swarm."+n, token.NoPos, "anchor missing: (*cluster.Swarm)."+n)
			continue
		}
		recv := ssa.Value(m.Params[0])
		notNil := eng.EqPred("s != nil", false, func(x, y ssa.Value) bool { return x == recv && eng.IsNilConst(y) })
		bad := ""
		var w []string
		eng.Instrs(m, func(in ssa.Instruction) {
			fa, ok := in.(*ssa.FieldAddr)
			if !ok || fa.X != recv || bad != "" {
				return
			}
			if g := eng.Guarded(in, notNil); !(g.Guarded && g.Edges > 0) {
				_, fl, _, _ := eng.FieldOf(fa)
				bad, w = fl, g.Witness
			}
		})
		key := fmt.Sprintf("(*cluster.Swarm).%s:nil-receiver safe", n)
		if bad == "" {
			c.OK(rule, key, m.Pos(), "every receiver field access is behind s != nil")
		} else {
			c.Fail(rule, key, m.Pos(), "Surveyor.Query calls "+n+"() on its gossiper, which is a nil *Swarm on a broker without a cluster section, and "+n+" reads s."+bad+" without a nil test: history replay on SUBSCRIBE and presence status panic on the connection's goroutine and the connection is closed instead of answered", w...)
		}
	}
}
