package rules

import (
	"fmt"
	"go/token"
	"sort"
	"strings"

	"golang.org/x/tools/go/ssa"

	"verif/checker/core"
	"verif/checker/eng"
)

const (
	idConnClose    = M + "broker.Conn.Close"
	idConnProcess  = M + "broker.Conn.Process"
	idCountersAll  = M + "message.Counters.All"
	idOnLastWill   = M + "service/pubsub.Service.OnLastWill"
	idDecodePacket = M + "network/mqtt.DecodePacket"
	idOnReceive    = M + "broker.Conn.onReceive"
)

func init() {
	register(&Prop{
		ID:  "C08",
		Run: runC08,
		Explanation: "Structural necessary conditions of 'a connection that ends leaves nothing behind; its last will fires once': " +
			"(R1) the per-connection goroutine root (the function started by `go` from the accept callback) defers Conn.Close itself before it reads a byte, and Close calls recover() in its own frame (a recover inside a nested closure returns nil and lets the panic escape); " +
			"(R2) on every path through Close: every counter of c.subs.All() is handed to pubsub.Unsubscribe with its own ssid and channel, then OnLastWill(c, c.connect) is called exactly once outside the loop, then the socket is closed; no early return skips them; " +
			"(R3) who-may-call: Conn.Close is invoked only as that deferred call (a second caller makes the will fire twice), and every production path that subscribes a connection goes through pubsub.Service.Subscribe (C02.R4) so Close sees it; " +
			"(R4) identity-key rule on the per-connection counters (a collision there makes Close unsubscribe the wrong filter); " +
			"(R5) OnLastWill dereferences the connect event only after the nil test and publishes only under Authorize(AllowWrite) ∧ ¬AllowExtend, exactly once. " +
			"NOT decided: what watchers observe; counts returning to baseline.",
		Assumptions: []string{"net.Conn.Close and the MQTT decoder behave as documented"},
	})
}

func runC08(c *core.Ctx) {
	c08R1(c)
	c08R2(c)
	c08R3(c)
	foldKeyRule(c, "C08.R4", 5)
	c08R5(c)
	c02R9(c, "C08.R6")
	c18R1as(c, "C08.R7")
	c18R2as(c, "C08.R8")
	counterTransitions(c, "C08.R10")
	c08R9(c, "C08.R9")
	c02R4(c) // shared with C02 (reported as C02.R4): the trie is mutated only behind the per-connection bookkeeping
}

func c08R1(c *core.Ctx) { c08R1as(c, "C08.R1") }

func c08R1as(c *core.Ctx, rule string) {
	c.Rule(rule, "the function started per accepted connection defers Conn.Close (directly, not through a closure) before any read; Close calls the builtin recover() in its own body", 4)
	acc := fn(c, rule, "internal/broker", "Service", "onAcceptConn")
	if acc == nil {
		return
	}
	var root *ssa.Function
	eng.Instrs(acc, func(in ssa.Instruction) {
		if g, ok := in.(*ssa.Go); ok {
			if sc := g.Call.StaticCallee(); sc != nil {
				root = sc
			}
		}
	})
	if root == nil {
		c.Fail(rule, fnName(acc)+":per-connection goroutine", acc.Pos(), "onAcceptConn does not start a statically known per-connection goroutine")
		return
	}
	c.Check(eng.FuncID(objOf(root)) == idConnProcess, rule, fnName(acc)+":starts Conn.Process", acc.Pos(), "each accepted connection is served by `go conn.Process()`", "the per-connection goroutine is "+fnName(root)+", not Conn.Process (update the anchor)")
	var defers []*ssa.Defer
	eng.Instrs(root, func(in ssa.Instruction) {
		if d, ok := in.(*ssa.Defer); ok && eng.FuncID(eng.CalleeObj(&d.Call)) == idConnClose {
			defers = append(defers, d)
		}
	})
	if len(defers) != 1 {
		c.Fail(rule, fnName(root)+":defer Close", root.Pos(), fmt.Sprintf("expected exactly one `defer c.Close()` in the connection root, found %d (a closure wrapping Close does not count: recover must run in the deferred function itself)", len(defers)))
	} else {
		d := defers[0]
		ok := eng.SameValue(eng.CallArgs(&d.Call)[0], root.Params[0])
		// before any read / handler call
		for _, call := range eng.Calls(root, true, idDecodePacket, idOnReceive) {
			if !eng.Dominates(d, call) {
				ok = false
			}
		}
		c.Check(ok, rule, fnName(root)+":defer Close before reading", d.Pos(), "cleanup is registered before the first byte is read", "Conn.Close is not deferred on the connection itself before the read loop")
	}
	cl := fn(c, rule, "internal/broker", "Conn", "Close")
	if cl == nil {
		return
	}
	n := 0
	eng.Instrs(cl, func(in ssa.Instruction) {
		if _, ok := eng.IsBuiltinCall(in, "recover"); ok {
			n++
		}
	})
	nested := 0
	for _, a := range cl.AnonFuncs {
		for _, g := range eng.WithAnon(a) {
			eng.Instrs(g, func(in ssa.Instruction) {
				if _, ok := eng.IsBuiltinCall(in, "recover"); ok {
					nested++
				}
			})
		}
	}
	c.Check(n >= 1, rule, fnName(cl)+":recover in own frame", cl.Pos(), "a panic while serving the connection is recovered by the deferred Close", fmt.Sprintf("Close does not call recover() in its own body (%d call(s) inside nested closures return nil): a panic in the decoder or a handler kills the broker", nested))
	// recover happens before the cleanup work so the cleanup runs after a panic too
	if n >= 1 {
		var rec ssa.Instruction
		eng.Instrs(cl, func(in ssa.Instruction) {
			if _, ok := eng.IsBuiltinCall(in, "recover"); ok && rec == nil {
				rec = in
			}
		})
		ok, w := eng.MustPass(cl, nil, func(i ssa.Instruction) bool { return i == rec })
		c.Check(ok, rule, fnName(cl)+":recover on every path", rec.Pos(), "recover() is reached on every path through Close", fmt.Sprintf("a path through Close skips recover(): %v", w))
	}
}

func c08R2(c *core.Ctx) {
	rule := "C08.R2"
	c.Rule(rule, "Conn.Close, on every path to return: c.subs.All() is called and each element is passed to pubsub.Unsubscribe (in a loop) with that counter's Ssid and Channel; OnLastWill(c, c.connect) is called exactly once, outside the loop, after it; socket.Close() follows", 4)
	f := fn(c, rule, "internal/broker", "Conn", "Close")
	if f == nil {
		return
	}
	name := fnName(f)
	recv := f.Params[0]
	alls := eng.Calls(f, false, idCountersAll)
	okAll := len(alls) == 1
	if okAll {
		b, isSubs := eng.LoadOfField(eng.CallArgs(alls[0].Common())[0], "subs")
		okAll = isSubs && b == recv
		ok2, w := eng.MustPass(f, nil, func(i ssa.Instruction) bool { return i == alls[0].(ssa.Instruction) })
		c.Check(okAll && ok2, rule, name+":walks all counters", alls[0].Pos(), "every path through Close enumerates the connection's subscriptions", fmt.Sprintf("a path through Close returns without enumerating c.subs.All(): %v", w))
	} else {
		c.Fail(rule, name+":walks all counters", f.Pos(), fmt.Sprintf("expected one c.subs.All() call, found %d", len(alls)))
	}
	uns := eng.Calls(f, false, idPSUnsubscribe)
	okU := len(uns) == 1 && eng.InLoop(uns[0])
	if okU {
		a := eng.CallArgs(uns[0].Common())
		okU = a[1].(ssa.Value) != nil && eng.StripConv(a[1]) == recv
		// the event's Ssid/Channel come from the ranged counter
		ev := eng.StripConv(a[2])
		ssidOK, chOK := false, false
		if al, isAlloc := ev.(*ssa.Alloc); isAlloc {
			if refs := al.Referrers(); refs != nil {
				for _, r := range *refs {
					fa, ok := r.(*ssa.FieldAddr)
					if !ok {
						continue
					}
					_, fl, _, _ := eng.FieldOf(fa)
					if frefs := fa.Referrers(); frefs != nil {
						for _, fr := range *frefs {
							if st, ok := fr.(*ssa.Store); ok && st.Addr == fa {
								if fl == "Ssid" && fromCounterField(st.Val, "Ssid") {
									ssidOK = true
								}
								if fl == "Channel" && fromCounterField(st.Val, "Channel") {
									chOK = true
								}
							}
						}
					}
				}
			}
		}
		okU = okU && ssidOK && chOK
	}
	c.Check(okU, rule, name+":unsubscribes each counter", f.Pos(), "each counter is unsubscribed with its own ssid and channel, for this connection", "Close does not call pubsub.Unsubscribe once per counter with that counter's Ssid and Channel")
	wills := eng.Calls(f, false, idOnLastWill)
	okW := len(wills) == 1 && !eng.InLoop(wills[0])
	if okW {
		a := eng.CallArgs(wills[0].Common())
		cb, isConnect := eng.LoadOfField(a[2], "connect")
		okW = eng.StripConv(a[1]) == recv && isConnect && cb == recv
		ok2, _ := eng.MustPass(f, nil, func(i ssa.Instruction) bool { return i == wills[0].(ssa.Instruction) })
		okW = okW && ok2
		if len(uns) == 1 {
			// after the loop: the will call is not reachable back to the unsubscribe
			if again, _ := eng.Reach(f, wills[0].(ssa.Instruction), nil, func(i ssa.Instruction) bool { return i == uns[0].(ssa.Instruction) }); again {
				okW = false
			}
		}
	}
	c.Check(okW, rule, name+":last will once", f.Pos(), "OnLastWill(c, c.connect) runs exactly once on every path, after the subscriptions are gone", "OnLastWill is not called exactly once on every path (after the unsubscribe loop) with the connection's own connect event")
	var sock ssa.Instruction
	eng.Instrs(f, func(in ssa.Instruction) {
		if call, ok := in.(*ssa.Call); ok && call.Call.IsInvoke() && call.Call.Method.Name() == "Close" {
			if b, isSock := eng.LoadOfField(call.Call.Value, "socket"); isSock && b == recv {
				sock = in
			}
		}
	})
	okS := sock != nil
	if okS {
		ok2, _ := eng.MustPass(f, nil, func(i ssa.Instruction) bool { return i == sock })
		okS = ok2
		if len(wills) == 1 {
			okS = okS && eng.Dominates(wills[0], sock)
		}
	}
	c.Check(okS, rule, name+":closes the socket last", f.Pos(), "the socket is closed on every path, after cleanup", "the socket is not closed on every path after the cleanup")
}

// fromCounterField: v is (a load of) field `field` of a message.Counter element.
func fromCounterField(v ssa.Value, field string) bool {
	v = eng.StripConv(v)
	switch x := v.(type) {
	case *ssa.UnOp:
		if x.Op != token.MUL {
			return false
		}
		owner, fl, _, ok := eng.FieldOf(x.X)
		return ok && fl == field && owner == M+"message.Counter"
	case *ssa.Field:
		owner, fl, _, ok := eng.FieldOf(x)
		return ok && fl == field && owner == M+"message.Counter"
	}
	return false
}

func c08R3(c *core.Ctx) {
	rule := "C08.R3"
	c.Rule(rule, "who-may-call: the only production call of (*broker.Conn).Close is the deferred call in the per-connection root; no production code closes a service.Conn through the interface", 1)
	n := 0
	for _, f := range c.P.ScopeFuncs() {
		eng.Instrs(f, func(in ssa.Instruction) {
			ci, ok := in.(ssa.CallInstruction)
			if !ok {
				return
			}
			id := eng.FuncID(eng.CalleeObj(ci.Common()))
			switch id {
			case idConnClose:
				n++
				_, isDefer := in.(*ssa.Defer)
				okSite := isDefer && eng.FuncID(objOf(f)) == idConnProcess
				c.Check(okSite, rule, fnName(f)+":calls Conn.Close", in.Pos(), "Close is run once, as the deferred cleanup of the connection's goroutine", "Conn.Close is also called from "+fnName(f)+": the cleanup (and the last will) can run twice for one connection")
			case M + "service.Conn.Close":
				n++
				c.Fail(rule, fnName(f)+":closes a service.Conn", in.Pos(), "a service closes the connection through the interface: the connection's own deferred Close will run again")
			}
		})
	}
	if n == 0 {
		c.Fail(rule, "no Close call", token.NoPos, "Conn.Close is never called")
	}
}

func c08R5(c *core.Ctx) {
	rule := "C08.R5"
	c.Rule(rule, "OnLastWill: every field access of the connect event is cut off by ev != nil; Publish/Store are cut off by ev.WillFlag, channel static, allowed and !HasPermission(AllowExtend); exactly one Publish, not in a loop", 5)
	f := fn(c, rule, "internal/service/pubsub", "Service", "OnLastWill")
	if f == nil {
		return
	}
	name := fnName(f)
	ev := f.Params[2]
	notNil := eng.EqPred("ev != nil", false, func(x, y ssa.Value) bool { return x == ev && eng.IsNilConst(y) })
	okDeref := true
	nDeref := 0
	eng.Instrs(f, func(in ssa.Instruction) {
		fa, ok := in.(*ssa.FieldAddr)
		if !ok || fa.X != ev {
			return
		}
		nDeref++
		if g := eng.Guarded(fa, notNil); !g.Guarded || g.Edges == 0 {
			okDeref = false
		}
	})
	c.Check(okDeref && nDeref > 0, rule, name+":nil event tolerated", f.Pos(), "a connection that never sent CONNECT (nil event) is handled without dereferencing it", "the connect event is dereferenced without a nil test: closing a connection that never sent CONNECT panics inside Close")
	var site *authSite
	sites := authorizeSites(c)
	for i := range sites {
		if sites[i].fn == f {
			site = &sites[i]
		}
	}
	if site == nil {
		c.Fail(rule, name+":authorises", f.Pos(), "OnLastWill does not call Authorize")
		return
	}
	willFlag := eng.Pred{Name: "ev.WillFlag", Match: func(a eng.Atom) (bool, bool) {
		if a.Op != token.ILLEGAL {
			return false, false
		}
		if b, ok := eng.LoadOfField(a.V, "WillFlag"); ok && b == ev {
			return true, true
		}
		return false, false
	}}
	preds := []eng.Pred{
		willFlag,
		chanValidPred(c, func(v ssa.Value) bool { return eng.SameValue(v, site.chanArg) }),
		eng.ValuePred("allowed", site.allowed, true),
		notExtendPred(c, site.key),
	}
	pubs := eng.Calls(f, false, idPSPublish)
	c.Check(len(pubs) == 1 && !eng.InLoop(pubs[0]), rule, name+":publishes once", f.Pos(), "the will is published by exactly one Publish call outside any loop", fmt.Sprintf("expected exactly one Publish call outside loops, found %d", len(pubs)))
	for _, call := range eng.Calls(f, false, idPSPublish, idStorageStore) {
		eid := shortT(eng.FuncID(eng.CalleeObj(call.Common())))
		for _, p := range preds {
			g := eng.Guarded(call, p)
			c.Count("guard_cuts", 1)
			c.Check(g.Guarded && g.Edges > 0, rule, name+":"+eid+" only if "+p.Name, call.Pos(), "cut off by "+p.Name, "the will can be published/stored without "+p.Name)
		}
	}
	if len(pubs) == 1 {
		ok, w := eng.MustFollow(f, preds, func(i ssa.Instruction) bool { return i == pubs[0].(ssa.Instruction) })
		c.Check(ok, rule, name+":publishes whenever authorised", pubs[0].Pos(), "an authorised will is always published", fmt.Sprintf("an authorised will is not published: %v", w))
	}
}

// c08R9: the will Close publishes is the one the client sent. Conn.onConnect builds c.connect
// from the CONNECT packet field by field: WillFlag<-WillFlag, WillRetain<-WillRetainFlag,
// WillQoS<-WillQOS, WillTopic<-WillTopic, WillMessage<-WillMessage, Username<-Username,
// ClientID<-ClientID, Conn<-c.luid; and stores it in c.connect (the only writer of that field
// outside the constructor).
func c08R9(c *core.Ctx, rule string) {
	c.Rule(rule, "Conn.onConnect copies the will and identity fields of the CONNECT packet into c.connect one to one; c.connect is written nowhere else", 2)
	f := fn(c, rule, "internal/broker", "Conn", "onConnect")
	if f == nil {
		return
	}
	want := map[string]string{"WillFlag": "WillFlag", "WillRetain": "WillRetainFlag", "WillQoS": "WillQOS", "WillTopic": "WillTopic", "WillMessage": "WillMessage", "Username": "Username", "ClientID": "ClientID"}
	got := map[string]string{}
	eng.Instrs(f, func(in ssa.Instruction) {
		st, ok := in.(*ssa.Store)
		if !ok {
			return
		}
		fa, ok := st.Addr.(*ssa.FieldAddr)
		if !ok {
			return
		}
		owner, fl, _, ok := eng.FieldOf(fa)
		if !ok || !strings.HasSuffix(owner, "event.Connection") {
			return
		}
		src := ""
		if b, sfl, isLoad := loadOfAnyField(st.Val); isLoad && b == ssa.Value(f.Params[1]) {
			src = sfl
		}
		got[fl] = src
	})
	var bad []string
	for k, v := range want {
		if got[k] != v {
			bad = append(bad, fmt.Sprintf("%s<-%q (want packet.%s)", k, got[k], v))
		}
	}
	sort.Strings(bad)
	c.Check(len(bad) == 0, rule, fnName(f)+":will captured field by field", f.Pos(), "the connection event carries the packet's will topic, message, flag, retain, QoS, user name and client id", "onConnect does not copy the CONNECT packet one to one into c.connect: "+strings.Join(bad, ", ")+" — Close would publish another will (or none)")
	// writers of Conn.connect
	n := 0
	for _, g := range c.P.ScopeFuncs() {
		eng.Instrs(g, func(in ssa.Instruction) {
			st, ok := in.(*ssa.Store)
			if !ok {
				return
			}
			fa, ok := st.Addr.(*ssa.FieldAddr)
			if !ok {
				return
			}
			owner, fl, _, ok := eng.FieldOf(fa)
			if !ok || fl != "connect" || !strings.HasSuffix(owner, "broker.Conn") {
				return
			}
			n++
			c.Check(g == f, rule, fnName(g)+":writes Conn.connect", st.Pos(), "c.connect is set by onConnect", "c.connect (the will Close publishes) is also written by "+fnName(g))
		})
	}
	if n == 0 {
		c.Fail(rule, fnName(f)+":stores c.connect", f.Pos(), "onConnect no longer stores the connection event in c.connect: no will is ever published")
	}
}

// loadOfAnyField: v is a load of base.<field>; returns base and the field name.
func loadOfAnyField(v ssa.Value) (ssa.Value, string, bool) {
	u, ok := v.(*ssa.UnOp)
	if !ok || u.Op != token.MUL {
		return nil, "", false
	}
	fa, ok := u.X.(*ssa.FieldAddr)
	if !ok {
		return nil, "", false
	}
	_, fl, _, ok := eng.FieldOf(fa)
	return fa.X, fl, ok
}
