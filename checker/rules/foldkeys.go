package rules

import (
	"fmt"
	"go/token"
	"go/types"

	"golang.org/x/tools/go/ssa"

	"verif/checker/core"
	"verif/checker/eng"
)

// foldKeyRule (engine K): every map access whose key is a permutation-invariant fold of a
// slice must confirm element-wise equality of the stored and the requested slice before the
// entry found is used (returned, mutated, deleted or re-linked).
// ownerFilter restricts the reported sites to maps that are fields of the given struct types
// (nil = all).
func foldKeyRule(c *core.Ctx, rule string, min int) {
	c.Rule(rule, "identity keys: a map keyed by a permutation-invariant fold of a slice (e.g. XOR of the ssid words: {c,a,b} and {c,b,a} collide by construction) must confirm element-wise equality of the stored and requested slice before an entry found under that key is returned, mutated, deleted or re-linked", min)
	// 1. find folds
	folds := map[*ssa.Function]token.Token{}
	eqs := map[*ssa.Function]bool{}
	for _, f := range c.P.ScopeFuncs() {
		if ok, op := eng.IsCommutativeFold(f); ok {
			folds[f] = op
		}
		if eng.IsSliceEquality(f) {
			eqs[f] = true
		}
	}
	c.Count("commutative_folds_found", len(folds))
	c.Count("slice_equality_functions_found", len(eqs))
	if len(folds) == 0 {
		c.OK(rule, "no fold", token.NoPos, "no permutation-invariant fold function exists in production code; rule vacuous")
		return
	}
	isFoldCall := func(call *ssa.Call) bool {
		sc := call.Call.StaticCallee()
		_, ok := folds[sc]
		return sc != nil && ok
	}
	isEqCall := func(v ssa.Value) (*ssa.Call, bool) {
		call, ok := v.(*ssa.Call)
		if !ok {
			return nil, false
		}
		if sc := call.Call.StaticCallee(); sc != nil && eqs[sc] {
			return call, true
		}
		if obj := eng.CalleeObj(&call.Call); obj != nil && eng.FuncID(obj) == "slices.Equal" {
			return call, true
		}
		return nil, false
	}
	nSites := 0
	for _, f := range c.P.ScopeFuncs() {
		// fold-keyed lookups in f
		var lookups []*ssa.Lookup
		var foldArg ssa.Value
		eng.Instrs(f, func(in ssa.Instruction) {
			lk, ok := in.(*ssa.Lookup)
			if !ok {
				return
			}
			if _, isMap := lk.X.Type().Underlying().(*types.Map); !isMap {
				return
			}
			if fc, ok := eng.DerivedFromCall(lk.Index, isFoldCall, 0); ok {
				lookups = append(lookups, lk)
				foldArg = eng.CallArgs(&fc.Call)[0]
			}
		})
		var deletes []ssa.Instruction
		eng.Instrs(f, func(in ssa.Instruction) {
			if args, ok := eng.IsBuiltinCall(in, "delete"); ok {
				if fc, ok := eng.DerivedFromCall(args[1], isFoldCall, 0); ok {
					deletes = append(deletes, in)
					foldArg = eng.CallArgs(&fc.Call)[0]
				}
			}
		})
		if len(lookups) == 0 && len(deletes) == 0 {
			continue
		}
		nSites++
		name := fnName(f)
		// 2. entry-derived values: closure of lookup results under Extract, Phi, loads of pointer fields of same type
		E := map[ssa.Value]bool{}
		var grow func(v ssa.Value)
		grow = func(v ssa.Value) {
			if v == nil || E[v] {
				return
			}
			E[v] = true
			if refs := v.Referrers(); refs != nil {
				for _, r := range *refs {
					switch x := r.(type) {
					case *ssa.Extract:
						if x.Index == 0 {
							grow(x)
						}
					case *ssa.Phi:
						grow(x)
					case *ssa.FieldAddr:
						// pointer-typed field of the same type as the entry (collision chain)
						if refs2 := x.Referrers(); refs2 != nil {
							for _, r2 := range *refs2 {
								if u, ok := r2.(*ssa.UnOp); ok && u.Op == token.MUL && types.Identical(u.Type(), v.Type()) {
									grow(u)
								}
							}
						}
					}
				}
			}
		}
		for _, lk := range lookups {
			grow(lk)
		}
		isEntry := func(v ssa.Value) bool { return E[v] }
		// 3. the confirming predicate: eq(entry.<field>, foldArg) == true
		confirm := eng.Pred{Name: "element-wise equality of stored and requested slice", Match: func(a eng.Atom) (bool, bool) {
			if a.Op != token.ILLEGAL {
				return false, false
			}
			call, ok := isEqCall(a.V)
			if !ok {
				return false, false
			}
			args := eng.CallArgs(&call.Call)
			if len(args) != 2 {
				return false, false
			}
			fromEntry := func(v ssa.Value) bool {
				if u, ok := v.(*ssa.UnOp); ok && u.Op == token.MUL {
					if fa, ok := u.X.(*ssa.FieldAddr); ok {
						return isEntry(fa.X)
					}
				}
				return false
			}
			isReq := func(v ssa.Value) bool { return foldArg != nil && eng.SameValue(v, foldArg) }
			if (fromEntry(args[0]) && isReq(args[1])) || (fromEntry(args[1]) && isReq(args[0])) {
				return true, true
			}
			return false, false
		}}
		// 4. uses that need confirmation
		type use struct {
			in   ssa.Instruction
			what string
		}
		var uses []use
		eng.Instrs(f, func(in ssa.Instruction) {
			switch x := in.(type) {
			case *ssa.Return:
				for _, r := range x.Results {
					if isEntry(r) {
						// returning a possibly-nil chain cursor is fine only if it is the nil case; require confirmation
						uses = append(uses, use{in, "return of the entry found"})
					}
				}
			case *ssa.Store:
				if fa, ok := x.Addr.(*ssa.FieldAddr); ok && isEntry(fa.X) {
					// writes into the found entry; linking a *fresh* object in front of the chain is not a use
					uses = append(uses, use{in, "write to field of the entry found"})
				}
			case *ssa.MapUpdate:
				if isEntry(x.Value) {
					uses = append(uses, use{in, "re-linking the map slot to a chained entry"})
				}
			}
		})
		for _, d := range deletes {
			uses = append(uses, use{d, "delete of the map slot"})
		}
		// collision-chain unlink idiom: P.link = M.link removes M only if P is the element
		// visited immediately before M, i.e. the loop-carried previous cursor (phi of nil and M).
		eng.Instrs(f, func(in ssa.Instruction) {
			st, ok := in.(*ssa.Store)
			if !ok {
				return
			}
			pfa, ok := st.Addr.(*ssa.FieldAddr)
			if !ok || !isEntry(pfa.X) {
				return
			}
			ld, ok := st.Val.(*ssa.UnOp)
			if !ok || ld.Op != token.MUL {
				return
			}
			mfa, ok := ld.X.(*ssa.FieldAddr)
			if !ok || mfa.Field != pfa.Field || !isEntry(mfa.X) || !types.Identical(mfa.X.Type(), pfa.X.Type()) {
				return
			}
			m := mfa.X
			okPrev := false
			if phi, isPhi := pfa.X.(*ssa.Phi); isPhi {
				okPrev = true
				hasM := false
				for _, e := range phi.Edges {
					switch {
					case eng.IsNilConst(e):
					case e == m:
						hasM = true
					default:
						okPrev = false
					}
				}
				okPrev = okPrev && hasM
			}
			c.Check(okPrev, rule, name+":chain unlink uses the previous element", st.Pos(), "the element unlinked is bypassed from its immediate predecessor", "collision chain unlink `P.next = M.next` where P is not the loop-carried element visited just before M ("+eng.Describe(pfa.X)+"): entries between P and M are dropped")
		})
		// dropping the map slot discards every entry chained behind it: a delete is allowed only
		// where the entry being removed is the head of its chain (no predecessor) and has no
		// successor (entry.link == nil) — otherwise the other filters that fold to this key are lost.
		linkOf := func(v ssa.Value) (ssa.Value, bool) { // v = load of entry.<self-typed pointer field>
			u, ok := v.(*ssa.UnOp)
			if !ok || u.Op != token.MUL {
				return nil, false
			}
			fa, ok := u.X.(*ssa.FieldAddr)
			if !ok || !isEntry(fa.X) || !types.Identical(u.Type(), fa.X.Type()) {
				return nil, false
			}
			return fa.X, true
		}
		chained := false
		for v := range E {
			if _, ok := linkOf(v); ok {
				chained = true
			}
		}
		if chained {
			selLink := func(x, y ssa.Value) bool {
				_, ok := linkOf(x)
				return ok && eng.IsNilConst(y)
			}
			noSucc := eng.EqPred("entry.link == nil", true, selLink)
			selPrev := func(x, y ssa.Value) bool {
				phi, ok := x.(*ssa.Phi)
				if !ok || !isEntry(phi) || !eng.IsNilConst(y) {
					return false
				}
				hasNil := false
				for _, e := range phi.Edges {
					if eng.IsNilConst(e) {
						hasNil = true
					}
				}
				return hasNil
			}
			isHead := eng.EqPred("predecessor == nil", true, selPrev)
			for i, d := range deletes {
				g1 := eng.Guarded(d, noSucc)
				g2 := eng.Guarded(d, isHead)
				c.Count("guard_cuts", 2)
				key := fmt.Sprintf("%s:slot dropped only for a single-entry chain#%d", name, i)
				switch {
				case !(g1.Guarded && g1.Edges > 0):
					c.Fail(rule, key, d.Pos(), "delete of the fold-keyed map slot is reachable while the entry being removed still has a successor in its collision chain (no `entry.link == nil` test cuts it off): the counters of the other filters that fold to the same key are dropped with it", g1.Witness...)
				case !(g2.Guarded && g2.Edges > 0):
					c.Fail(rule, key, d.Pos(), "delete of the fold-keyed map slot is reachable while the entry being removed has a predecessor in its collision chain (no `prev == nil` test cuts it off): the whole chain is dropped", g2.Witness...)
				default:
					c.OK(rule, key, d.Pos(), "the slot is deleted only when the removed entry is the head of its chain and has no successor")
				}
			}
			if len(deletes) > 0 {
				// the two other ways an entry leaves its chain must exist and be taken:
				// head with a successor -> slot = entry.link; entry with a predecessor -> prev.link = entry.link
				hasSucc := eng.EqPred("entry.link != nil", false, selLink)
				hasPrev := eng.EqPred("predecessor != nil", false, selPrev)
				relinkSlot := func(in ssa.Instruction) bool {
					mu, ok := in.(*ssa.MapUpdate)
					if !ok {
						return false
					}
					_, isLink := linkOf(mu.Value)
					return isLink
				}
				bypass := func(in ssa.Instruction) bool {
					st, ok := in.(*ssa.Store)
					if !ok {
						return false
					}
					fa, ok := st.Addr.(*ssa.FieldAddr)
					if !ok || !isEntry(fa.X) {
						return false
					}
					_, isLink := linkOf(st.Val)
					return isLink
				}
				ok1, w1 := eng.MustFollow(f, []eng.Pred{isHead, hasSucc}, relinkSlot)
				ok1 = ok1 && eng.HasLicensingEdge(f, hasSucc)
				if ok1 {
					c.OK(rule, name+":head with successors re-links the slot", f.Pos(), "removing the head of a longer chain stores its successor in the map slot")
				} else {
					c.Fail(rule, name+":head with successors re-links the slot", f.Pos(), "a path removes the head of a collision chain that has a successor without storing the successor in the map slot (the removed entry stays reachable or the chain is lost)", w1...)
				}
				ok2, w2 := eng.MustFollow(f, []eng.Pred{hasPrev}, bypass)
				ok2 = ok2 && eng.HasLicensingEdge(f, hasPrev)
				if ok2 {
					c.OK(rule, name+":inner entry is bypassed", f.Pos(), "removing an entry that has a predecessor links the predecessor to its successor")
				} else {
					c.Fail(rule, name+":inner entry is bypassed", f.Pos(), "a path removes an entry that has a predecessor in its collision chain without `prev.link = entry.link`", w2...)
				}
			}
		}
		if len(uses) == 0 {
			c.OK(rule, name+":no use", f.Pos(), "fold-keyed lookup whose result is only tested, never used")
			continue
		}
		for i, u := range uses {
			key := fmt.Sprintf("%s:%s#%d", name, u.what, i)
			// a return/phi of the entry can legitimately be nil (not found): accept if guarded
			g := eng.Guarded(u.in, confirm)
			c.Count("guard_cuts", 1)
			if g.Guarded && g.Edges > 0 {
				c.OK(rule, key, u.in.Pos(), "cut off by an element-wise equality test between the stored and the requested slice")
			} else {
				c.Fail(rule, key, u.in.Pos(), "entry found under a permutation-invariant fold key is used without confirming the slices are equal (two different slices with the same fold share the entry)", g.Witness...)
			}
		}
	}
	c.Count("fold_keyed_map_functions", nSites)
	if nSites == 0 {
		c.OK(rule, "no fold-keyed map", token.NoPos, "fold functions exist but no map is keyed by them")
	}
}
