package rules

import (
	"fmt"
	"go/token"
	"go/types"

	"golang.org/x/tools/go/ssa"

	"verif/checker/core"
	"verif/checker/eng"
)

// foldKeyRule (engine K): every map access whose key is a permutation-invariant fold of a
// slice must confirm element-wise equality of the stored and the requested slice before the
// entry found is used (returned, mutated, deleted or re-linked).
// ownerFilter restricts the reported sites to maps that are fields of the given struct types
// (nil = all).
func foldKeyRule(c *core.Ctx, rule string, min int) {
	c.Rule(rule, "identity keys: a map keyed by a permutation-invariant fold of a slice (e.g. XOR of the ssid words: {c,a,b} and {c,b,a} collide by construction) must confirm element-wise equality of the stored and requested slice before an entry found under that key is returned, mutated, deleted or re-linked", min)
	// 1. find folds
	folds := map[*ssa.Function]token.Token{}
	eqs := map[*ssa.Function]bool{}
	for _, f := range c.P.ScopeFuncs() {
		if ok, op := eng.IsCommutativeFold(f); ok {
			folds[f] = op
		}
		if eng.IsSliceEquality(f) {
			eqs[f] = true
		}
	}
	c.Count("commutative_folds_found", len(folds))
	c.Count("slice_equality_functions_found", len(eqs))
	if len(folds) == 0 {
		c.OK(rule, "no fold", token.NoPos, "no permutation-invariant fold function exists in production code; rule vacuous")
		return
	}
	isFoldCall := func(call *ssa.Call) bool {
		sc := call.Call.StaticCallee()
		_, ok := folds[sc]
		return sc != nil && ok
	}
	isEqCall := func(v ssa.Value) (*ssa.Call, bool) {
		call, ok := v.(*ssa.Call)
		if !ok {
			return nil, false
		}
		if sc := call.Call.StaticCallee(); sc != nil && eqs[sc] {
			return call, true
		}
		if obj := eng.CalleeObj(&call.Call); obj != nil && eng.FuncID(obj) == "slices.Equal" {
			return call, true
		}
		return nil, false
	}
	nSites := 0
	for _, f := range c.P.ScopeFuncs() {
		// fold-keyed lookups in f
		var lookups []*ssa.Lookup
		var foldArg ssa.Value
		eng.Instrs(f, func(in ssa.Instruction) {
			lk, ok := in.(*ssa.Lookup)
			if !ok {
				return
			}
			if _, isMap := lk.X.Type().Underlying().(*types.Map); !isMap {
				return
			}
			if fc, ok := eng.DerivedFromCall(lk.Index, isFoldCall, 0); ok {
				lookups = append(lookups, lk)
				foldArg = eng.CallArgs(&fc.Call)[0]
			}
		})
		var deletes []ssa.Instruction
		eng.Instrs(f, func(in ssa.Instruction) {
			if args, ok := eng.IsBuiltinCall(in, "delete"); ok {
				if fc, ok := eng.DerivedFromCall(args[1], isFoldCall, 0); ok {
					deletes = append(deletes, in)
					foldArg = eng.CallArgs(&fc.Call)[0]
				}
			}
		})
		if len(lookups) == 0 && len(deletes) == 0 {
			continue
		}
		nSites++
		name := fnName(f)
		// 2. entry-derived values: closure of lookup results under Extract, Phi, loads of pointer fields of same type
		E := map[ssa.Value]bool{}
		var grow func(v ssa.Value)
		grow = func(v ssa.Value) {
			if v == nil || E[v] {
				return
			}
			E[v] = true
			if refs := v.Referrers(); refs != nil {
				for _, r := range *refs {
					switch x := r.(type) {
					case *ssa.Extract:
						if x.Index == 0 {
							grow(x)
						}
					case *ssa.Phi:
						grow(x)
					case *ssa.FieldAddr:
						// pointer-typed field of the same type as the entry (collision chain)
						if refs2 := x.Referrers(); refs2 != nil {
							for _, r2 := range *refs2 {
								if u, ok := r2.(*ssa.UnOp); ok && u.Op == token.MUL && types.Identical(u.Type(), v.Type()) {
									grow(u)
								}
							}
						}
					}
				}
			}
		}
		for _, lk := range lookups {
			grow(lk)
		}
		isEntry := func(v ssa.Value) bool { return E[v] }
		// 3. the confirming predicate: eq(entry.<field>, foldArg) == true
		confirm := eng.Pred{Name: "element-wise equality of stored and requested slice", Match: func(a eng.Atom) (bool, bool) {
			if a.Op != token.ILLEGAL {
				return false, false
			}
			call, ok := isEqCall(a.V)
			if !ok {
				return false, false
			}
			args := eng.CallArgs(&call.Call)
			if len(args) != 2 {
				return false, false
			}
			fromEntry := func(v ssa.Value) bool {
				if u, ok := v.(*ssa.UnOp); ok && u.Op == token.MUL {
					if fa, ok := u.X.(*ssa.FieldAddr); ok {
						return isEntry(fa.X)
					}
				}
				return false
			}
			isReq := func(v ssa.Value) bool { return foldArg != nil && eng.SameValue(v, foldArg) }
			if (fromEntry(args[0]) && isReq(args[1])) || (fromEntry(args[1]) && isReq(args[0])) {
				return true, true
			}
			return false, false
		}}
		// 4. uses that need confirmation
		type use struct {
			in   ssa.Instruction
			what string
		}
		var uses []use
		eng.Instrs(f, func(in ssa.Instruction) {
			switch x := in.(type) {
			case *ssa.Return:
				for _, r := range x.Results {
					if isEntry(r) {
						// returning a possibly-nil chain cursor is fine only if it is the nil case; require confirmation
						uses = append(uses, use{in, "return of the entry found"})
					}
				}
			case *ssa.Store:
				if fa, ok := x.Addr.(*ssa.FieldAddr); ok && isEntry(fa.X) {
					// writes into the found entry; linking a *fresh* object in front of the chain is not a use
					uses = append(uses, use{in, "write to field of the entry found"})
				}
			case *ssa.MapUpdate:
				if isEntry(x.Value) {
					uses = append(uses, use{in, "re-linking the map slot to a chained entry"})
				}
			}
		})
		for _, d := range deletes {
			uses = append(uses, use{d, "delete of the map slot"})
		}
		// collision-chain unlink idiom: P.link = M.link removes M only if P is the element
		// visited immediately before M, i.e. the loop-carried previous cursor (phi of nil and M).
		eng.Instrs(f, func(in ssa.Instruction) {
			st, ok := in.(*ssa.Store)
			if !ok {
				return
			}
			pfa, ok := st.Addr.(*ssa.FieldAddr)
			if !ok || !isEntry(pfa.X) {
				return
			}
			ld, ok := st.Val.(*ssa.UnOp)
			if !ok || ld.Op != token.MUL {
				return
			}
			mfa, ok := ld.X.(*ssa.FieldAddr)
			if !ok || mfa.Field != pfa.Field || !isEntry(mfa.X) || !types.Identical(mfa.X.Type(), pfa.X.Type()) {
				return
			}
			m := mfa.X
			okPrev := false
			if phi, isPhi := pfa.X.(*ssa.Phi); isPhi {
				okPrev = true
				hasM := false
				for _, e := range phi.Edges {
					switch {
					case eng.IsNilConst(e):
					case e == m:
						hasM = true
					default:
						okPrev = false
					}
				}
				okPrev = okPrev && hasM
			}
			c.Check(okPrev, rule, name+":chain unlink uses the previous element", st.Pos(), "the element unlinked is bypassed from its immediate predecessor", "collision chain unlink `P.next = M.next` where P is not the loop-carried element visited just before M ("+eng.Describe(pfa.X)+"): entries between P and M are dropped")
		})
		if len(uses) == 0 {
			c.OK(rule, name+":no use", f.Pos(), "fold-keyed lookup whose result is only tested, never used")
			continue
		}
		for i, u := range uses {
			key := fmt.Sprintf("%s:%s#%d", name, u.what, i)
			// a return/phi of the entry can legitimately be nil (not found): accept if guarded
			g := eng.Guarded(u.in, confirm)
			c.Count("guard_cuts", 1)
			if g.Guarded && g.Edges > 0 {
				c.OK(rule, key, u.in.Pos(), "cut off by an element-wise equality test between the stored and the requested slice")
			} else {
				c.Fail(rule, key, u.in.Pos(), "entry found under a permutation-invariant fold key is used without confirming the slices are equal (two different slices with the same fold share the entry)", g.Witness...)
			}
		}
	}
	c.Count("fold_keyed_map_functions", nSites)
	if nSites == 0 {
		c.OK(rule, "no fold-keyed map", token.NoPos, "fold functions exist but no map is keyed by them")
	}
}
