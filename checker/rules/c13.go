package rules

import (
	"fmt"
	"go/token"
	"go/types"

	"golang.org/x/tools/go/ssa"

	"verif/checker/core"
	"verif/checker/eng"
)

const (
	idMapMerge   = M + "event/crdt.Map.Merge"
	idMapCount   = M + "event/crdt.Map.Count"
	idStateMerge = M + "event.State.Merge"
	idSwarmMerge = M + "service/cluster.Swarm.merge"
)

func init() {
	register(&Prop{
		ID:  "C13",
		Run: runC13,
		Explanation: "Structural necessary conditions of 'gossip deltas carry exactly what is new and lose nothing queued': " +
			"(R1) delta side of both merge kernels: a remote add/del time is zeroed exactly on the ¬(local<remote) branch, the key leaves the delta exactly when IsZero, otherwise the entry stays (complement of C04.R1 on the same comparisons); " +
			"(R2) State.Merge merges every subset with the same-typed subset of the argument, sums Count() of the mutated argument, returns nil exactly when that sum is 0 and the argument otherwise; Swarm.merge/OnGossip/OnGossipBroadcast hand that value on unchanged; " +
			"(R3) interface contract: mesh.GossipData.Merge is used by mesh's gossipSender to coalesce queued payloads and must return the merged receiver; every implementation in the repository is checked against that contract — State.Merge returns the argument-derived delta (or nil), which is recorded as a known finding. " +
			"NOT decided: relay termination as a global property; what mesh does with the payloads.",
		Assumptions: []string{"weaveworks/mesh gossipSender.Send/Broadcast keep `pending.Merge(new)` as the new pending payload (read from the vendored source in the module cache)"},
	})
}

func runC13(c *core.Ctx) {
	c04Kernels(c, "C04.R1", "C13.R1", true)
	c13R2(c)
	c13R3(c)
}

func c13R2(c *core.Ctx) {
	rule := "C13.R2"
	c.Rule(rule, "State.Merge: for each local subset lww, lww.Merge(other.subsets[typ]) with the same typ; count += that subset's Count() after the merge; `return nil` exactly under count==0, otherwise the (mutated) argument; Swarm.merge returns State.Merge's result, OnGossip/OnGossipBroadcast return Swarm.merge's result", 8)
	f := fn(c, rule, "internal/event", "State", "Merge")
	if f == nil {
		return
	}
	name := fnName(f)
	merges := eng.Calls(f, false, idMapMerge)
	counts := eng.Calls(f, false, idMapCount)
	if len(merges) != 1 || len(counts) != 1 {
		c.Fail(rule, name+":shape", f.Pos(), fmt.Sprintf("expected one subset Merge and one Count per iteration, found %d/%d", len(merges), len(counts)))
		return
	}
	ma := eng.CallArgs(merges[0].Common())
	ca := eng.CallArgs(counts[0].Common())
	// the subset merged in is other.subsets[typ] with typ the key of the local range
	otherSub := ma[1]
	sameKey := false
	if lk, ok := eng.StripConv(otherSub).(*ssa.Lookup); ok {
		if base, ok := eng.LoadOfField(lk.X, "subsets"); ok {
			if ta, ok := base.(*ssa.TypeAssert); ok && ta.X == param(f, 1) {
				// key is the range key
				if ex, ok := lk.Index.(*ssa.Extract); ok && ex.Index == 1 {
					if lex, ok := ma[0].(*ssa.Extract); ok && lex.Tuple == ex.Tuple && lex.Index == 2 {
						sameKey = true
					}
				}
			}
		}
	}
	c.Check(sameKey, rule, name+":same-typed subsets", merges[0].Pos(), "each local subset is merged with the argument's subset of the same type", "the subset merged in is not other.subsets[typ] for the local subset's own typ")
	c.Check(eng.SameValue(ca[0], otherSub) && eng.Dominates(merges[0], counts[0]) && eng.InLoop(counts[0]), rule, name+":counts the delta", counts[0].Pos(), "count accumulates the size of the argument's subset after it was reduced to the delta", "count is not the post-merge Count() of the argument's subset")
	// count value: phi accumulating the Count result
	var countPhi ssa.Value
	if refs := counts[0].Value().Referrers(); refs != nil {
		for _, r := range *refs {
			if b, ok := r.(*ssa.BinOp); ok && b.Op == token.ADD {
				if p, ok := b.X.(*ssa.Phi); ok {
					countPhi = p
				}
				if p, ok := b.Y.(*ssa.Phi); ok {
					countPhi = p
				}
			}
		}
	}
	if countPhi == nil {
		c.Fail(rule, name+":count accumulator", counts[0].Pos(), "Count() is not accumulated into a sum")
		return
	}
	zero := func(want bool) eng.Pred {
		return eng.EqPred(fmt.Sprintf("count==0 is %v", want), want, func(x, y ssa.Value) bool {
			k, ok := eng.ConstInt(y)
			return ok && k == 0 && x == countPhi
		})
	}
	nNil, nArg := 0, 0
	eng.Instrs(f, func(in ssa.Instruction) {
		ret, ok := in.(*ssa.Return)
		if !ok {
			return
		}
		r := eng.StripConv(ret.Results[0])
		if eng.IsNilConst(ret.Results[0]) || eng.IsNilConst(r) {
			nNil++
			g := eng.Guarded(ret, zero(true))
			c.Check(g.Guarded && g.Edges > 0, rule, name+":nil only if nothing new", ret.Pos(), "`return nil` is cut off by count==0", "State.Merge can return nil although the argument still holds new entries (an update would be withheld from relay)")
			return
		}
		nArg++
		ta, isTA := r.(*ssa.TypeAssert)
		c.Check(isTA && ta.X == param(f, 1), rule, name+":returns the reduced argument", ret.Pos(), "the non-nil result is the argument after it was reduced to the delta", "the non-nil result is not the (mutated) argument: "+eng.Describe(r))
		g := eng.Guarded(ret, zero(false))
		c.Check(g.Guarded && g.Edges > 0, rule, name+":delta only if something new", ret.Pos(), "a non-nil delta is returned only when count!=0", "a non-nil (empty) delta can be returned when nothing changed (gossip would not quiesce)")
	})
	c.Check(nNil == 1 && nArg == 1, rule, name+":two outcomes", f.Pos(), "exactly the two outcomes nil / delta", fmt.Sprintf("expected one nil return and one delta return, found %d/%d", nNil, nArg))

	// pass-through
	if g := fn(c, rule, "internal/service/cluster", "Swarm", "merge"); g != nil {
		sm := eng.Calls(g, false, idStateMerge)
		okPass := len(sm) == 1
		n := 0
		eng.Instrs(g, func(in ssa.Instruction) {
			ret, ok := in.(*ssa.Return)
			if !ok {
				return
			}
			if eng.IsNilConst(ret.Results[0]) {
				// only on the decode-error path
				if eng.IsNilConst(ret.Results[1]) {
					okPass = false
				}
				return
			}
			n++
			if len(sm) == 1 && ret.Results[0] != sm[0].Value() {
				okPass = false
			}
		})
		c.Check(okPass && n == 1, rule, fnName(g)+":returns State.Merge result", g.Pos(), "the delta computed by State.Merge is returned as is", "Swarm.merge does not return exactly what State.Merge returned")
		// merge is applied to the local state with the decoded payload
		if len(sm) == 1 {
			a := eng.CallArgs(sm[0].Common())
			_, isState := eng.LoadOfField(a[0], "state")
			dec := eng.Calls(g, false, M+"event.DecodeState")
			okArg := isState && len(dec) == 1 && isExtractOf(eng.StripConv(a[1]), dec[0].Value(), 0)
			c.Check(okArg, rule, fnName(g)+":merges decoded payload into own state", sm[0].Pos(), "s.state.Merge(decoded payload)", "Swarm.merge does not merge the decoded payload into s.state")
		}
	}
	for _, m := range []string{"OnGossip", "OnGossipBroadcast"} {
		g := fn(c, rule, "internal/service/cluster", "Swarm", m)
		if g == nil {
			continue
		}
		calls := eng.Calls(g, false, idSwarmMerge)
		ok := len(calls) == 1
		if ok {
			d := extractOf(calls[0].Value(), 0)
			nonNil := 0
			eng.Instrs(g, func(in ssa.Instruction) {
				ret, isRet := in.(*ssa.Return)
				if !isRet {
					return
				}
				r := ret.Results[0]
				if eng.IsNilConst(r) {
					return
				}
				nonNil++
				if !derivesOnlyFrom(r, d, 0) {
					ok = false
				}
			})
			ok = ok && nonNil >= 1
		}
		c.Check(ok, rule, fnName(g)+":returns merge delta", g.Pos(), "the handler returns the delta of merge (nil only on its early exits)", "the gossip handler does not return the delta produced by merge")
	}
}

// derivesOnlyFrom: v is d, or a phi / named-result load whose every non-nil input is d.
func derivesOnlyFrom(v, d ssa.Value, depth int) bool {
	if v == d {
		return true
	}
	if depth > 5 || v == nil {
		return false
	}
	if eng.IsNilConst(v) {
		return true
	}
	switch x := v.(type) {
	case *ssa.Phi:
		for _, e := range x.Edges {
			if !derivesOnlyFrom(e, d, depth+1) {
				return false
			}
		}
		return true
	case *ssa.UnOp:
		if a, ok := x.X.(*ssa.Alloc); ok && x.Op == token.MUL {
			refs := a.Referrers()
			if refs == nil {
				return false
			}
			n := 0
			for _, r := range *refs {
				if st, ok := r.(*ssa.Store); ok && st.Addr == a {
					n++
					if !derivesOnlyFrom(st.Val, d, depth+1) {
						return false
					}
				}
			}
			return n > 0
		}
	}
	return false
}

func c13R3(c *core.Ctx) { c13R3Rule(c, "C13.R3") }

func c13R3Rule(c *core.Ctx, rule string) {
	c.Rule(rule, "interface contract of mesh.GossipData.Merge (\"merges the other GossipData into this one and returns the result\"; gossipSender keeps the return value as the pending payload): every implementation in the repository returns a value aliasing its receiver on every non-panicking path", 1)
	var iface *types.Interface
	for _, pk := range c.P.Pkgs {
		for path, imp := range pk.Imports {
			if path == "github.com/weaveworks/mesh" {
				if tn, ok := imp.Types.Scope().Lookup("GossipData").(*types.TypeName); ok {
					iface, _ = tn.Type().Underlying().(*types.Interface)
				}
			}
		}
	}
	if iface == nil {
		c.Undecided(rule, "anchor:mesh.GossipData", token.NoPos, "anchor missing: interface mesh.GossipData")
		return
	}
	impls := c.P.Implementers(iface)
	if len(impls) == 0 {
		c.Undecided(rule, "impls", token.NoPos, "no implementation of mesh.GossipData in production code")
	}
	for _, t := range impls {
		f := c.P.MethodOf(t, "Merge")
		if f == nil || f.Blocks == nil {
			continue
		}
		ok := true
		what := ""
		eng.Instrs(f, func(in ssa.Instruction) {
			ret, isRet := in.(*ssa.Return)
			if !isRet {
				return
			}
			r := eng.StripConv(ret.Results[0])
			if r != f.Params[0] {
				ok = false
				what = eng.Describe(r)
			}
		})
		c.Check(ok, rule, fnName(f)+":returns receiver", f.Pos(), "Merge returns the merged receiver",
			"Merge returns "+what+" instead of the merged receiver: when mesh coalesces two queued payloads the pending payload becomes the delta of the second against the first (pending {a} + {b} leaves {b}; a duplicate leaves nil and drops the pending payload)")
	}
}
