package rules

import (
	"fmt"
	"go/token"

	"golang.org/x/tools/go/ssa"

	"verif/checker/core"
	"verif/checker/eng"
)

const (
	idNotifySub     = M + "service.Notifier.NotifySubscribe"
	idNotifyUnsub   = M + "service.Notifier.NotifyUnsubscribe"
	idPresNotify    = M + "service/presence.Service.Notify"
	idPresSend      = M + "service/presence.Service.send"
	idNewNotif      = M + "service/presence.newNotification"
	idConnIDI       = M + "service.Conn.ID"
	idConnUsernameI = M + "service.Conn.Username"
)

func init() {
	register(&Prop{
		ID:  "C18",
		Run: runC18,
		Explanation: "Structural necessary conditions of 'presence reports who is subscribed': " +
			"(R1) pubsub.Service.Subscribe calls NotifySubscribe exactly once per accepted subscription, after the trie insert and only when the per-connection bookkeeping admitted it; Unsubscribe calls NotifyUnsubscribe once when admitted; broker.Service.NotifySubscribe/NotifyUnsubscribe enqueue a presence notification of the matching type for direct subscribers with a channel; " +
			"(R2) order preservation: presence.Notify is exactly one blocking send on the service queue (no goroutine, select or drop), and the queue has exactly one consuming goroutine which publishes each notification synchronously; " +
			"(R3) status lookup: lookupPresence uses the same Trie.Lookup (unfiltered) as Publish and reports ID()/Username() of every service.Conn subscriber; OnRequest's status reply is built from it for the authorised ssid; " +
			"(R4) changes: `changes:true` calls PubSub.Subscribe and `changes:false` PubSub.Unsubscribe with the same event (presence ssid of the authorised channel, this connection), so the per-connection bookkeeping stays in step; authorisation per C03.R2. " +
			"NOT decided: the notification stream as a function of the history.",
		Assumptions: []string{"Go channels are FIFO"},
	})
}

func runC18(c *core.Ctx) {
	c18R1(c)
	c18R2(c)
	c18R3(c)
	c18R4(c)
	jsonTargetRule(c, "C18.R5", "service/presence")
	nilGossiperRule(c, "C18.R6")
	// the unsubscribe notification of a closing connection exists only for the filters its
	// counters still know: integrity of the counter chains (shared with C02.R1)
	foldKeyRule(c, "C18.R7", 5)
	counterTransitions(c, "C18.R8")
}

func c18R1(c *core.Ctx) { c18R1as(c, "C18.R1") }

// c18R1as/c18R2as emit the presence-notification obligations under another rule id (C08: a
// connection that ends "tells presence watchers it left").
func c18R1as(c *core.Ctx, rule string) {
	c.Rule(rule, "pubsub.Service.Subscribe/Unsubscribe: exactly one Notify{Subscribe,Unsubscribe}(sub, ev) call, outside loops, cut off by the bookkeeping (not a Conn or Can*=true), on every admitted path, Subscribe's after the trie insert; broker NotifySubscribe/NotifyUnsubscribe: presence.Notify(type, ev, …) for SubscriberDirect with ev.Channel != nil, with EventTypeSubscribe / EventTypeUnsubscribe respectively", 5)
	for _, k := range []struct {
		name, notify, can, trie string
	}{{"Subscribe", idNotifySub, idCanSubscribe, idTrieSubscribe}, {"Unsubscribe", idNotifyUnsub, idCanUnsubscribe, idTrieUnsubscribe}} {
		f := fn(c, rule, "internal/service/pubsub", "Service", k.name)
		if f == nil {
			continue
		}
		name := fnName(f)
		ns := eng.Calls(f, false, k.notify)
		if len(ns) != 1 {
			c.Fail(rule, name+":one notification", f.Pos(), fmt.Sprintf("expected exactly one %s call, found %d", shortT(k.notify), len(ns)))
			continue
		}
		n := ns[0]
		a := eng.CallArgs(n.Common())
		sub := f.Params[1]
		admitted := eng.Pred{Name: "admitted by the bookkeeping", Match: func(at eng.Atom) (bool, bool) {
			if at.Op != token.ILLEGAL {
				return false, false
			}
			if ex, ok := at.V.(*ssa.Extract); ok && ex.Index == 1 {
				if ta, ok := ex.Tuple.(*ssa.TypeAssert); ok && denotesParam(f, ta.X, sub, 0) {
					return false, true
				}
			}
			if call, ok := at.V.(*ssa.Call); ok && eng.FuncID(eng.CalleeObj(&call.Call)) == k.can {
				return true, true
			}
			return false, false
		}}
		g := eng.Guarded(n, admitted)
		ok := !eng.InLoop(n) && denotesParam(f, a[1], sub, 0) && denotesParam(f, a[2], f.Params[2], 0) && g.Guarded && g.Edges >= 2
		ok2, w := eng.MustFollow(f, []eng.Pred{admitted}, func(i ssa.Instruction) bool { return i == n.(ssa.Instruction) })
		c.Check(ok && ok2, rule, name+":notifies exactly the admitted transitions", n.Pos(), "one notification per admitted transition, none otherwise", fmt.Sprintf("the notifier is not called exactly once for exactly the admitted transitions: %v", w))
		if k.name == "Subscribe" {
			ins := eng.Calls(f, false, k.trie)
			c.Check(len(ins) == 1 && eng.Dominates(ins[0], n), rule, name+":notifies after the trie insert", n.Pos(), "watchers are told after the subscription exists", "NotifySubscribe is not preceded by the trie insert")
		}
	}
	direct, _ := constOf(c, rule, "internal/message", "SubscriberDirect")
	for _, k := range []struct{ name, evType string }{{"NotifySubscribe", "EventTypeSubscribe"}, {"NotifyUnsubscribe", "EventTypeUnsubscribe"}} {
		f := fn(c, rule, "internal/broker", "Service", k.name)
		if f == nil {
			continue
		}
		name := fnName(f)
		want := ""
		if kc := c.P.Const("internal/service/presence", k.evType); kc != nil {
			want = kc.Val().ExactString()
		}
		isDirect := eng.EqPred("sub.Type()==SubscriberDirect", true, func(x, y ssa.Value) bool {
			kv, isC := eng.ConstInt(y)
			return isC && kv == direct && isCallOn(x, idSubscriberTyp, func(r ssa.Value) bool { return r == f.Params[1] })
		})
		hasChan := eng.EqPred("ev.Channel != nil", false, func(x, y ssa.Value) bool {
			b, ok := eng.LoadOfField(x, "Channel")
			return ok && b == f.Params[2] && eng.IsNilConst(y)
		})
		var direct []ssa.CallInstruction
		for _, n := range eng.Calls(f, false, idPresNotify) {
			a := eng.CallArgs(n.Common())
			if eng.IsNilConst(a[3]) {
				direct = append(direct, n)
			}
		}
		if len(direct) != 1 {
			c.Fail(rule, name+":presence notification", f.Pos(), fmt.Sprintf("expected one unfiltered presence.Notify for direct subscribers, found %d", len(direct)))
			continue
		}
		n := direct[0]
		a := eng.CallArgs(n.Common())
		kv, isC := a[1].(*ssa.Const)
		typeOK := isC && kv.Value != nil && kv.Value.ExactString() == want && a[2] == f.Params[2]
		g1, g2 := eng.Guarded(n, isDirect), eng.Guarded(n, hasChan)
		ok2, w := eng.MustFollow(f, []eng.Pred{isDirect, hasChan}, func(i ssa.Instruction) bool { return i == n.(ssa.Instruction) })
		c.Check(typeOK && g1.Guarded && g1.Edges > 0 && g2.Guarded && g2.Edges > 0 && ok2, rule, name+":queues a "+k.evType+" notification", n.Pos(), "a direct subscriber with a channel always produces exactly this presence event", fmt.Sprintf("%s does not enqueue presence.Notify(%s, ev, nil) exactly for direct subscribers with a channel: %v", k.name, k.evType, w))
	}
}

func c18R2(c *core.Ctx) { c18R2as(c, "C18.R2") }

func c18R2as(c *core.Ctx, rule string) {
	c.Rule(rule, "presence.Notify is one unconditional blocking send of newNotification(type, ev, filter) on s.queue (no go/select); exactly one goroutine in the presence package receives from s.queue and calls s.send for each notification; send publishes synchronously", 3)
	f := fn(c, rule, "internal/service/presence", "Service", "Notify")
	if f == nil {
		return
	}
	var sends []*ssa.Send
	bad := ""
	for _, g := range eng.WithAnon(f) {
		eng.Instrs(g, func(in ssa.Instruction) {
			switch x := in.(type) {
			case *ssa.Send:
				sends = append(sends, x)
			case *ssa.Go:
				bad = "go statement"
			case *ssa.Select:
				bad = "select"
			}
		})
	}
	ok := bad == "" && len(sends) == 1 && sends[0].Parent() == f
	if ok {
		_, isQ := eng.LoadOfField(sends[0].Chan, "queue")
		call, isCall := sends[0].X.(*ssa.Call)
		ok = isQ && isCall && eng.FuncID(eng.CalleeObj(&call.Call)) == idNewNotif
		if ok {
			a := eng.CallArgs(&call.Call)
			ok = a[0] == f.Params[1] && a[1] == f.Params[2] && a[2] == f.Params[3]
		}
		ok2, _ := eng.MustPass(f, nil, func(i ssa.Instruction) bool { return i == ssa.Instruction(sends[0]) })
		ok = ok && ok2
	}
	c.Check(ok, rule, fnName(f)+":single blocking send", f.Pos(), "notifications enter one FIFO queue in call order", "presence.Notify is not a single unconditional blocking send on s.queue ("+bad+"): notifications can be reordered or dropped")
	// consumer
	pk := c.P.SSAPkg("internal/service/presence")
	consumers := 0
	var consumer *ssa.Function
	for _, g := range c.P.ScopeFuncs() {
		if g.Pkg != pk {
			continue
		}
		recv := false
		eng.Instrs(g, func(in ssa.Instruction) {
			switch x := in.(type) {
			case *ssa.Select:
				for _, st := range x.States {
					if st.Dir == 2 { // RecvOnly
						if _, isQ := eng.LoadOfField(st.Chan, "queue"); isQ {
							recv = true
						}
					}
				}
			case *ssa.UnOp:
				if x.Op == token.ARROW {
					if _, isQ := eng.LoadOfField(x.X, "queue"); isQ {
						recv = true
					}
				}
			}
		})
		if recv {
			consumers++
			consumer = g
		}
	}
	okC := consumers == 1
	if okC {
		// it is started exactly once with `go` and calls s.send synchronously
		starts := 0
		for _, g := range c.P.ScopeFuncs() {
			eng.Instrs(g, func(in ssa.Instruction) {
				if gi, ok := in.(*ssa.Go); ok {
					if mc, ok := gi.Call.Value.(*ssa.MakeClosure); ok && mc.Fn == consumer {
						starts++
					} else if gi.Call.StaticCallee() == consumer {
						starts++
					}
				}
			})
		}
		sc := eng.Calls(consumer, false, idPresSend)
		// the function starting the consumer is itself called exactly once, outside loops
		if starter := consumer.Parent(); starter != nil {
			sites := c.P.CG().In[starter]
			if len(sites) != 1 || eng.InLoop(sites[0].Site.(ssa.Instruction)) {
				starts = len(sites) * 10
			}
		}
		okC = starts == 1 && len(sc) == 1
		if okC {
			_, isCall := sc[0].(*ssa.Call)
			okC = isCall
		}
	}
	c.Check(okC, rule, "presence queue:single consumer", f.Pos(), "one goroutine drains the queue and publishes each notification in order", fmt.Sprintf("the presence queue does not have exactly one consumer goroutine calling send synchronously (consumers=%d)", consumers))
	if g := fn(c, rule, "internal/service/presence", "Service", "send"); g != nil {
		pubs := eng.Calls(g, false, idPubSubPublishI)
		okS := len(pubs) == 1
		if okS {
			_, isCall := pubs[0].(*ssa.Call)
			okS = isCall
			nGo := 0
			eng.Instrs(g, func(in ssa.Instruction) {
				if _, isGo := in.(*ssa.Go); isGo {
					nGo++
				}
			})
			okS = okS && nGo == 0
		}
		c.Check(okS, rule, fnName(g)+":synchronous publish", g.Pos(), "each notification is published before the next is taken", "send does not publish the notification synchronously exactly once")
	}
}

func c18R3(c *core.Ctx) {
	rule := "C18.R3"
	c.Rule(rule, "lookupPresence: Trie.Lookup(ssid, nil) on the service trie; for every subscriber that is a service.Conn an Info{ID: conn.ID(), Username: conn.Username()} is appended; getAllPresence = local + cluster", 3)
	f := fn(c, rule, "internal/service/presence", "Service", "lookupPresence")
	if f == nil {
		return
	}
	lks := eng.Calls(f, false, idTrieLookup)
	ok := len(lks) == 1
	if ok {
		a := eng.CallArgs(lks[0].Common())
		_, isTrie := eng.LoadOfField(a[0], "trie")
		ok = isTrie && a[1] == f.Params[1] && eng.IsNilConst(a[2])
	}
	c.Check(ok, rule, fnName(f)+":same lookup as publish", f.Pos(), "presence is computed by the unfiltered trie lookup a publish would use", "lookupPresence does not call s.trie.Lookup(ssid, nil)")
	ids := eng.Calls(f, false, idConnIDI, idSubscriberID)
	us := eng.Calls(f, false, idConnUsernameI)
	okI := len(ids) == 1 && len(us) == 1 && eng.InLoop(ids[0]) && eng.InLoop(us[0])
	if okI {
		// both on the asserted connection
		r1, r2 := eng.CallArgs(ids[0].Common())[0], eng.CallArgs(us[0].Common())[0]
		okI = r1 == r2
		if ex, isEx := r1.(*ssa.Extract); isEx {
			_, isTA := ex.Tuple.(*ssa.TypeAssert)
			okI = okI && isTA
			g := eng.Guarded(ids[0], eng.ValuePred("is a Conn", extractOf(ex.Tuple, 1), true))
			okI = okI && g.Guarded && g.Edges > 0
		} else {
			okI = false
		}
		// appended
		apps := 0
		eng.Instrs(f, func(in ssa.Instruction) {
			if _, isApp := eng.IsBuiltinCall(in, "append"); isApp && eng.InLoop(in) {
				apps++
			}
		})
		okI = okI && apps == 1
	}
	c.Check(okI, rule, fnName(f)+":reports id and username of connections", f.Pos(), "each connection subscriber is listed with its id and username", "lookupPresence does not list ID()/Username() of every service.Conn subscriber")
	if g := fn(c, rule, "internal/service/presence", "Service", "getAllPresence"); g != nil {
		l := eng.Calls(g, false, M+"service/presence.Service.getLocalPresence", M+"service/presence.Service.lookupPresence")
		cl := eng.Calls(g, false, M+"service/presence.Service.getClusterPresence")
		okG := len(l) == 1 && len(cl) == 1 && eng.CallArgs(l[0].Common())[1] == g.Params[1] && eng.CallArgs(cl[0].Common())[1] == g.Params[1]
		c.Check(okG, rule, fnName(g)+":local plus cluster", g.Pos(), "status = local lookup + cluster survey for the same ssid", "getAllPresence is not local presence plus cluster presence of the requested ssid")
	}
}

func c18R4(c *core.Ctx) {
	rule := "C18.R4"
	c.Rule(rule, "presence.OnRequest: under msg.Changes != nil, *msg.Changes=true ⇒ pubsub.Subscribe(c, ev) and false ⇒ pubsub.Unsubscribe(c, ev) with the same ev whose Ssid is NewSsidForPresence(ssid of the authorised key/channel) and Conn is c.LocalID(); the status reply uses getAllPresence(that ssid); no direct trie access", 5)
	f := fn(c, rule, "internal/service/presence", "Service", "OnRequest")
	if f == nil {
		return
	}
	name := fnName(f)
	subs := eng.Calls(f, false, idPubSubSubscribeI)
	uns := eng.Calls(f, false, idPubSubUnsubscribeI)
	if len(subs) != 1 || len(uns) != 1 {
		c.Fail(rule, name+":changes calls", f.Pos(), fmt.Sprintf("expected one PubSub.Subscribe and one PubSub.Unsubscribe, found %d/%d (cancelling must go through the same bookkeeping as enabling)", len(subs), len(uns)))
	} else {
		sa, ua := eng.CallArgs(subs[0].Common()), eng.CallArgs(uns[0].Common())
		sameEv := sa[2] == ua[2] && eng.StripConv(sa[1]) == f.Params[1] && eng.StripConv(ua[1]) == f.Params[1]
		c.Check(sameEv, rule, name+":same event both ways", subs[0].Pos(), "enable and cancel use the same subscription event for this connection", "changes:true and changes:false do not subscribe/unsubscribe the same event for the requesting connection")
		// event fields
		ev := eng.StripConv(sa[2])
		ssidOK, connOK := false, false
		if al, isAl := ev.(*ssa.Alloc); isAl {
			if refs := al.Referrers(); refs != nil {
				for _, r := range *refs {
					fa, ok := r.(*ssa.FieldAddr)
					if !ok {
						continue
					}
					_, fl, _, _ := eng.FieldOf(fa)
					if frefs := fa.Referrers(); frefs != nil {
						for _, fr := range *frefs {
							st, ok := fr.(*ssa.Store)
							if !ok || st.Addr != fa {
								continue
							}
							if fl == "Ssid" {
								if call, ok := st.Val.(*ssa.Call); ok && eng.FuncID(eng.CalleeObj(&call.Call)) == M+"message.NewSsidForPresence" {
									ssidOK = isCallOn(eng.CallArgs(&call.Call)[0], idNewSsid, nil)
								}
							}
							if fl == "Conn" {
								connOK = isCallOn(st.Val, M+"service.Conn.LocalID", func(r ssa.Value) bool { return r == f.Params[1] })
							}
						}
					}
				}
			}
		}
		c.Check(ssidOK && connOK, rule, name+":event is the presence ssid of this connection", subs[0].Pos(), "Ssid = NewSsidForPresence(NewSsid(key.Contract(), channel.Query)), Conn = c.LocalID()", "the changes event is not built from the presence ssid of the authorised channel and the requesting connection")
		// polarity: Subscribe under *Changes == true, Unsubscribe under false, both under Changes != nil
		changesVal := func(want bool) eng.Pred {
			return eng.Pred{Name: fmt.Sprintf("*msg.Changes=%v", want), Match: func(a eng.Atom) (bool, bool) {
				v := a.V
				if a.Op == token.EQL {
					// comparisons with a bool constant are folded by Normalize; other forms: x == true
					return false, false
				}
				if u, ok := v.(*ssa.UnOp); ok && u.Op == token.MUL {
					if _, ok := eng.LoadOfField(u.X, "Changes"); ok {
						return want, true
					}
				}
				return false, false
			}}
		}
		notNil := eng.EqPred("msg.Changes != nil", false, func(x, y ssa.Value) bool {
			_, ok := eng.LoadOfField(x, "Changes")
			return ok && eng.IsNilConst(y)
		})
		for _, pr := range []struct {
			call ssa.CallInstruction
			pol  bool
			nm   string
		}{{subs[0], true, "Subscribe"}, {uns[0], false, "Unsubscribe"}} {
			g1, g2 := eng.Guarded(pr.call, changesVal(pr.pol)), eng.Guarded(pr.call, notNil)
			ok2, w := eng.MustFollow(f, []eng.Pred{notNil, changesVal(pr.pol), eng.ValuePred("allowed", authAllowedIn(c, f), true)}, func(i ssa.Instruction) bool { return i == pr.call.(ssa.Instruction) })
			c.Check(g1.Guarded && g1.Edges > 0 && g2.Guarded && g2.Edges > 0 && ok2, rule, fmt.Sprintf("%s:%s iff changes=%v", name, pr.nm, pr.pol), pr.call.Pos(), "the changes flag maps to the right bookkeeping call", fmt.Sprintf("PubSub.%s is not called exactly when changes=%v: %v", pr.nm, pr.pol, w))
		}
	}
	direct := len(eng.Calls(f, true, idTrieSubscribe, idTrieUnsubscribe))
	c.Check(direct == 0, rule, name+":no direct trie access", f.Pos(), "the handler never touches the trie behind the bookkeeping", "presence.OnRequest mutates the trie directly")
	gets := eng.Calls(f, false, idGetAllPresence)
	okS := len(gets) == 1
	if okS {
		okS = isCallOn(eng.CallArgs(gets[0].Common())[1], idNewSsid, nil)
		status := eng.Pred{Name: "msg.Status", Match: func(a eng.Atom) (bool, bool) {
			if a.Op == token.ILLEGAL {
				if _, ok := eng.LoadOfField(a.V, "Status"); ok {
					return true, true
				}
			}
			return false, false
		}}
		g := eng.Guarded(gets[0], status)
		okS = okS && g.Guarded && g.Edges > 0
	}
	c.Check(okS, rule, name+":status for the authorised ssid", f.Pos(), "the status reply lists getAllPresence(ssid) when requested", "the status reply is not getAllPresence of the authorised ssid under msg.Status")
}

func authAllowedIn(c *core.Ctx, f *ssa.Function) ssa.Value {
	for _, s := range authorizeSites(c) {
		if s.fn == f {
			return s.allowed
		}
	}
	return nil
}
