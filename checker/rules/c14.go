package rules

import (
	"fmt"
	"go/token"
	"strings"

	"golang.org/x/tools/go/ssa"

	"verif/checker/core"
	"verif/checker/eng"
)

const (
	idTxSet        = "github.com/tidwall/buntdb.Tx.Set"
	idBuntOpen     = "github.com/tidwall/buntdb.Open"
	idBuntClose    = "github.com/tidwall/buntdb.DB.Close"
	idCacheDel     = "github.com/coocood/freecache.Cache.Del"
	idCacheSet     = "github.com/coocood/freecache.Cache.Set"
	idCacheClear   = "github.com/coocood/freecache.Cache.Clear"
	idValIsRemoved = M + "event/crdt.Value.IsRemoved"
	idReplNotify   = M + "service.Replicator.Notify"
	idReplContains = M + "service.Replicator.Contains"
	idDecryptorKey = M + "service.Decryptor.DecryptKey"
	idStateAdd     = M + "event.State.Add"
	idStateDel     = M + "event.State.Del"
	idGossipBcast  = "github.com/weaveworks/mesh.Gossip.GossipBroadcast"
)

func init() {
	register(&Prop{
		ID:  "C14",
		Run: runC14,
		Explanation: "Structural necessary conditions of 'bans are immediate and durable': " +
			"(R1) in Authorize the ban lookup cuts off decryption and the success return (shared with C03.R1); " +
			"(R2) cache coherence of crdt.Durable: every function that writes the buntdb store for a key (Tx.Set) invalidates or rewrites the read cache for that key on every path afterwards, itself or — propagated through the call graph — in every caller, down to the exported API (Add, Del, Merge); objects created in the same function are exempt; " +
			"(R3) keyban.OnRequest: Notify(ban,true) exactly under Banned ∧ ¬Contains, Notify(ban,false) exactly under ¬Banned ∧ Contains, both only for a secret key that decrypts, is master and not expired and a target key of the same contract; the banned key is the request's target; " +
			"(R4) durability path: the ban subset of NewState is opened on <dir>/ban.db (never \":memory:\" for a non-empty dir), Service.Close → Swarm.Close → State.Close → Durable.Close → buntdb Close; " +
			"(R5) Swarm.Notify applies the event to the local state before (and synchronously with) the broadcast; " +
			"(R6) an entry is persisted with an expiry only when it IsRemoved (an active ban is stored without TTL). " +
			"NOT decided: buntdb's fsync policy against power loss, timing across brokers.",
		Assumptions: []string{"freecache.Cache.Del/Set and buntdb.Tx.Set behave as documented", "buntdb serialises read and write transactions (fetch populates the cache inside a read transaction)"},
	})
}

func runC14(c *core.Ctx) {
	c14R1(c)
	c14R2(c)
	c14R3(c)
	c14R4(c)
	c14R5(c, "C14.R5")
	c14R6(c)
	c14R7(c)
	c20R5as(c, "C14.R8")
	c14R9(c, "C14.R9")
	jsonTargetRule(c, "C14.R10", "service/keyban")
	c14R11(c, "C14.R11")
	keyTextRule(c, "C14.R12")
}

// c14R7: the ban lookup reads the replicated state under the ban's own key and type.
func c14R7(c *core.Ctx) {
	rule := "C14.R7"
	c.Rule(rule, "Swarm.Contains(ev) returns s.state.Has(ev); State.Has addresses subsets[ev.unitType()] with ev.Key() (C04.R8); Ban.Key is the key string itself and Ban.unitType the ban subset; Durable.Has/Get answer from fetch, which returns the cached value only when the cache holds one and otherwise reads the store inside a read transaction and caches exactly what it read under the same key", 4)
	if f := fn(c, rule, "internal/service/cluster", "Swarm", "Contains"); f != nil {
		calls := eng.Calls(f, false, M+"event.State.Has")
		ok := len(calls) == 1
		if ok {
			a := eng.CallArgs(calls[0].Common())
			_, isState := eng.LoadOfField(a[0], "state")
			ok = isState && a[1] == f.Params[1]
			for _, rv := range eng.ResultValues(f, 0) {
				if rv != calls[0].Value() {
					ok = false
				}
			}
		}
		c.Check(ok, rule, fnName(f)+":reads the replicated state", f.Pos(), "Contains(ev) = s.state.Has(ev)", "Swarm.Contains does not return s.state.Has(ev)")
	}
	if f := fn(c, rule, "internal/event", "Ban", "Key"); f != nil {
		ok := false
		for _, rv := range eng.ResultValues(f, 0) {
			if eng.StripConv(rv) == ssa.Value(f.Params[0]) {
				ok = true
			}
		}
		c.Check(ok, rule, fnName(f)+":identity", f.Pos(), "a ban is keyed by the key string itself", "Ban.Key is not the banned key string")
	}
	if f := fn(c, rule, "internal/event", "Ban", "unitType"); f != nil {
		tb := c.P.Const("internal/event", "typeBan")
		ok := false
		if tb != nil {
			want, _ := constInt64(tb)
			for _, rv := range eng.ResultValues(f, 0) {
				if k, isC := eng.ConstInt(rv); isC && k == want {
					ok = true
				}
			}
		}
		c.Check(ok, rule, fnName(f)+":ban subset", f.Pos(), "bans live in the typeBan subset", "Ban.unitType is not typeBan")
	}
	if f := fn(c, rule, "internal/event/crdt", "Durable", "fetch"); f != nil {
		gets := eng.Calls(f, false, "github.com/coocood/freecache.Cache.Get")
		sets := eng.Calls(f, false, idCacheSet)
		txg := eng.Calls(f, false, "github.com/tidwall/buntdb.Tx.Get")
		ok := len(gets) == 1 && len(sets) == 1 && len(txg) == 1
		if ok {
			// cache key on both sides is the same value; the value cached derives from the store read
			ok = eng.SameValue(eng.CallArgs(gets[0].Common())[1], eng.CallArgs(sets[0].Common())[1])
			hit := errNilPred("cache hit", gets[0].Value(), 1)
			// the store is consulted only on a miss
			if g := eng.Guarded(txg[0], eng.Pred{Name: "cache miss", Match: func(a eng.Atom) (bool, bool) {
				w, m := hit.Match(a)
				return !w, m
			}}); !g.Guarded || g.Edges == 0 {
				ok = false
			}
			found := errNilPred("store hit", txg[0].Value(), 1)
			if g := eng.Guarded(sets[0], found); !g.Guarded || g.Edges == 0 {
				ok = false
			}
			if call, isCall := eng.CallArgs(sets[0].Common())[2].(*ssa.Call); isCall {
				if !isExtractOf(eng.CallArgs(&call.Call)[0], txg[0].Value(), 0) {
					ok = false
				}
			} else {
				ok = false
			}
			// the item looked up is the parameter
			ok = ok && eng.CallArgs(txg[0].Common())[1] == f.Params[1]
		}
		c.Check(ok, rule, fnName(f)+":cache mirrors the store", f.Pos(), "a miss reads the store for the same item and caches exactly that value", "Durable.fetch does not fill the cache with exactly what the store holds for the requested item")
	}
}

func c14R1(c *core.Ctx) {
	rule := "C14.R1"
	c.Rule(rule, "every production Authorizer: the ban lookup (cluster==nil or !Contains(Ban(channel.Key))) cuts off DecryptKey and every success return", 2)
	for _, f := range authorizerImpls(c, rule) {
		name := fnName(f)
		dec, _, why := resolveDecrypt(f)
		if dec == nil {
			c.Undecided(rule, name+":DecryptKey", f.Pos(), "cannot locate the decryption call: "+why)
			continue
		}
		g := eng.Guarded(dec, banPred())
		c.Check(g.Guarded && g.Edges > 0, rule, name+":ban before decrypt", dec.Pos(), "a banned key is refused before it is even decrypted", "DecryptKey is reachable without the ban lookup")
		eng.Instrs(f, func(in ssa.Instruction) {
			ret, ok := in.(*ssa.Return)
			if !ok || len(ret.Results) != 3 {
				return
			}
			if b, isC := constBoolOf(ret.Results[2]); isC && !b {
				return
			}
			g := eng.Guarded(ret, banPred())
			c.Check(g.Guarded && g.Edges > 0, rule, name+":success only if not banned", ret.Pos(), "no success return bypasses the ban lookup", "Authorize can succeed without consulting the ban set")
		})
	}
}

// isInvalidation: the instruction invalidates/rewrites the read cache (directly or by calling
// a function that does so on every path).
func isInvalidation(in ssa.Instruction, depth int) bool {
	if eng.IsCallTo(in, idCacheDel, idCacheSet, idCacheClear) {
		if _, isDefer := in.(*ssa.Defer); isDefer {
			return true
		}
		return true
	}
	call, ok := in.(*ssa.Call)
	if !ok || depth > 2 {
		return false
	}
	callee := call.Call.StaticCallee()
	if callee == nil || callee.Blocks == nil || callee.Pkg == nil || callee.Pkg.Pkg.Path() != M+"event/crdt" {
		return false
	}
	ok2, _ := eng.MustPass(callee, nil, func(i ssa.Instruction) bool { return isInvalidation(i, depth+1) })
	return ok2
}

func c14R2(c *core.Ctx) { c14R2as(c, "C14.R2") }

func c14R2as(c *core.Ctx, rule string) {
	c.Rule(rule, "cache coherence: after buntdb Tx.Set on a Durable's store, the read cache entry of that key is deleted or rewritten on every path — in the writing function or, propagated upwards, after the call in every caller up to the exported methods of Durable; freshly created Durable objects are exempt", 2)
	pk := c.P.SSAPkg("internal/event/crdt")
	if pk == nil {
		c.Undecided(rule, "anchor:crdt", token.NoPos, "package missing")
		return
	}
	cg := c.P.CG()
	type need struct {
		f    *ssa.Function
		site ssa.Instruction // the write (or call leading to it) after which invalidation must follow
		why  string
	}
	var work []need
	nSets := 0
	for _, f := range c.P.ScopeFuncs() {
		if f.Pkg != pk {
			continue
		}
		for _, call := range eng.Calls(f, false, idTxSet) {
			nSets++
			work = append(work, need{f, call.(ssa.Instruction), "Tx.Set in " + f.Name()})
		}
	}
	c.Count("store_write_sites", nSets)
	if nSets == 0 {
		c.Fail(rule, "no store writes", token.NoPos, "no buntdb Tx.Set found in the crdt package")
		return
	}
	seen := map[string]bool{}
	for len(work) > 0 {
		n := work[0]
		work = work[1:]
		k := fmt.Sprintf("%p|%p", n.f, n.site)
		if seen[k] {
			continue
		}
		seen[k] = true
		okHere, w := eng.MustPass(n.f, n.site, func(i ssa.Instruction) bool { return isInvalidation(i, 0) })
		if okHere {
			// key agreement when the invalidation is a direct cache.Del in the same function as the Set
			keyOK := true
			if eng.IsCallTo(n.site, idTxSet) {
				setKey := eng.CallArgs(n.site.(ssa.CallInstruction).Common())[1]
				for _, d := range eng.Calls(n.f, false, idCacheDel) {
					arg := eng.CallArgs(d.Common())[1]
					if call, ok := arg.(*ssa.Call); ok {
						a := eng.CallArgs(&call.Call)
						if len(a) == 1 && !eng.SameValue(a[0], setKey) {
							keyOK = false
						}
					}
				}
			}
			c.Check(keyOK, rule, fnName(n.f)+":invalidates after write", n.site.Pos(), "every path after the store write invalidates the cached entry ("+n.why+")", "the cache entry invalidated is not the key that was written")
			continue
		}
		// is the written object fresh (constructor / decoder building a new set)?
		if writesFreshDurable(n.f) {
			c.OK(rule, fnName(n.f)+":fresh object", n.site.Pos(), "the store written belongs to a Durable created in this function (empty cache)")
			continue
		}
		exported := n.f.Object() != nil && n.f.Object().Exported()
		if exported {
			c.Fail(rule, fnName(n.f)+":invalidates after write", n.site.Pos(), "the durable store is written ("+n.why+") but the 60 s read cache is not invalidated on every path afterwards: Has/Get keep answering from the stale entry (a ban/unban does not take effect)", w...)
			continue
		}
		// propagate: closures -> the site where the closure is passed; functions -> every call site
		pushed := 0
		if p := n.f.Parent(); p != nil {
			eng.Instrs(p, func(in ssa.Instruction) {
				call, ok := in.(*ssa.Call)
				if !ok {
					return
				}
				for _, a := range eng.CallArgs(&call.Call) {
					if mc, ok := a.(*ssa.MakeClosure); ok && mc.Fn == n.f {
						work = append(work, need{p, call, n.why + " <- closure"})
						pushed++
					}
				}
			})
		} else {
			for _, e := range cg.In[n.f] {
				work = append(work, need{e.Caller, e.Site.(ssa.Instruction), n.why + " <- " + n.f.Name()})
				pushed++
			}
		}
		if pushed == 0 {
			c.Fail(rule, fnName(n.f)+":invalidates after write", n.site.Pos(), "the durable store is written ("+n.why+") but the 60 s read cache is not invalidated on every path afterwards: Has/Get keep answering from the stale entry (a ban/unban does not take effect)", w...)
		}
	}
}

// writesFreshDurable: every Durable whose store is written in f (or its closures' parent) is
// created in the same outermost function.
func writesFreshDurable(f *ssa.Function) bool {
	top := f
	for top.Parent() != nil {
		top = top.Parent()
	}
	fresh := len(eng.Calls(top, false, M+"event/crdt.NewDurable", M+"event/crdt.newDurableWith")) > 0
	recvIsDurable := false
	if top.Signature.Recv() != nil {
		recvIsDurable = shortT(top.Signature.Recv().Type().String()) == "crdt.Durable" || shortT(top.Signature.Recv().Type().String()) == "*crdt.Durable"
	}
	// newDurableWith itself: allocates the object
	allocs := false
	eng.Instrs(top, func(in ssa.Instruction) {
		if a, ok := in.(*ssa.Alloc); ok && a.Heap {
			if shortT(a.Type().String()) == "*crdt.Durable" {
				allocs = true
			}
		}
	})
	return (fresh || allocs) && !recvIsDurable
}

func c14R3(c *core.Ctx) {
	rule := "C14.R3"
	c.Rule(rule, "keyban.OnRequest: Notify(ban,true) iff Banned ∧ ¬Contains(ban); Notify(ban,false) iff ¬Banned ∧ Contains(ban); every Notify is cut off by secret key decrypts ∧ ¬IsExpired ∧ IsMaster ∧ target key decrypts ∧ same contract; the ban is the request's Target", 8)
	f := fn(c, rule, "internal/service/keyban", "Service", "OnRequest")
	if f == nil {
		return
	}
	name := fnName(f)
	decs := eng.Calls(f, false, idDecryptorKey, idDecryptKey)
	if len(decs) != 2 {
		c.Fail(rule, name+":two decryptions", f.Pos(), fmt.Sprintf("expected the secret and the target key to be decrypted, found %d DecryptKey calls", len(decs)))
		return
	}
	argField := func(call ssa.CallInstruction) string {
		a := eng.CallArgs(call.Common())
		if _, ok := eng.LoadOfField(a[1], "Secret"); ok {
			return "Secret"
		}
		if _, ok := eng.LoadOfField(a[1], "Target"); ok {
			return "Target"
		}
		return "?"
	}
	var secretCall, targetCall *ssa.Call
	for _, d := range decs {
		switch argField(d) {
		case "Secret":
			secretCall = d.(*ssa.Call)
		case "Target":
			targetCall = d.(*ssa.Call)
		}
	}
	if secretCall == nil || targetCall == nil {
		c.Fail(rule, name+":decrypts Secret and Target", f.Pos(), "the two DecryptKey calls are not applied to message.Secret and message.Target")
		return
	}
	sk, tk := extractOf(secretCall, 0), extractOf(targetCall, 0)
	isK := func(k ssa.Value) func(ssa.Value) bool {
		return func(v ssa.Value) bool { return k != nil && eng.SameValue(v, k) }
	}
	auth := []eng.Pred{
		eng.EqPred("secret key decrypts", true, func(x, y ssa.Value) bool { return isExtractOf(x, secretCall, 1) && eng.IsNilConst(y) }),
		eng.CallPred("!secretKey.IsExpired()", idIsExpired, -1, false, func(a []ssa.Value) bool { return isK(sk)(a[0]) }),
		eng.CallPred("secretKey.IsMaster()", idIsMaster, -1, true, func(a []ssa.Value) bool { return isK(sk)(a[0]) }),
		eng.EqPred("target key decrypts", true, func(x, y ssa.Value) bool { return isExtractOf(x, targetCall, 1) && eng.IsNilConst(y) }),
		eng.EqPred("target contract == secret contract", true, func(x, y ssa.Value) bool {
			return isCallOn(x, idKeyContract, isK(tk)) && isCallOn(y, idKeyContract, isK(sk))
		}),
	}
	banned := func(want bool) eng.Pred {
		return eng.Pred{Name: fmt.Sprintf("message.Banned=%v", want), Match: func(a eng.Atom) (bool, bool) {
			if a.Op != token.ILLEGAL {
				return false, false
			}
			if _, ok := eng.LoadOfField(a.V, "Banned"); ok {
				return want, true
			}
			return false, false
		}}
	}
	contains := func(want bool) eng.Pred {
		return eng.CallPred(fmt.Sprintf("cluster.Contains(ban)=%v", want), idReplContains, -1, want, nil)
	}
	notifies := eng.Calls(f, false, idReplNotify)
	var nTrue, nFalse, nVar []ssa.CallInstruction
	for _, n := range notifies {
		a := eng.CallArgs(n.Common())
		b, isC := constBoolOf(a[2])
		if !isC {
			// the other spelling: Notify(ban, message.Banned) under Contains(ban) != message.Banned
			if _, isReq := eng.LoadOfField(a[2], "Banned"); !isReq {
				c.Fail(rule, name+":Notify polarity", n.Pos(), "Notify is called with a flag that is neither a constant nor the request's Banned field")
				continue
			}
			nVar = append(nVar, n)
		} else if b {
			nTrue = append(nTrue, n)
		} else {
			nFalse = append(nFalse, n)
		}
		for _, p := range auth {
			g := eng.Guarded(n, p)
			c.Count("guard_cuts", 1)
			c.Check(g.Guarded && g.Edges > 0, rule, fmt.Sprintf("%s:Notify(%v) only if %s", name, b, p.Name), n.Pos(), "cut off by "+p.Name, "a ban/unban can be issued without "+p.Name)
		}
		// the event is the request's target key
		evOK := derivesFromField(a[1], "Target", 0)
		c.Check(evOK, rule, fmt.Sprintf("%s:Notify(%v) bans message.Target", name, b), n.Pos(), "the event is Ban(message.Target)", "the banned event is not derived from message.Target")
	}
	check := func(calls []ssa.CallInstruction, pol bool) {
		if len(calls) != 1 {
			c.Fail(rule, fmt.Sprintf("%s:one Notify(%v)", name, pol), f.Pos(), fmt.Sprintf("expected exactly one Notify(ban,%v), found %d", pol, len(calls)))
			return
		}
		n := calls[0]
		g1 := eng.Guarded(n, banned(pol))
		g2 := eng.Guarded(n, contains(!pol))
		c.Check(g1.Guarded && g1.Edges > 0 && g2.Guarded && g2.Edges > 0, rule, fmt.Sprintf("%s:Notify(%v) only if requested and needed", name, pol), n.Pos(), "issued only for the requested polarity when the state differs", fmt.Sprintf("Notify is issued for the wrong polarity or although the state already matches (banned-guard=%v/%d contains-guard=%v/%d)", g1.Guarded, g1.Edges, g2.Guarded, g2.Edges))
		ok, w := eng.MustFollow(f, append(append([]eng.Pred{}, auth...), banned(pol), contains(!pol)), func(i ssa.Instruction) bool { return i == n.(ssa.Instruction) })
		c.Check(ok, rule, fmt.Sprintf("%s:Notify(%v) whenever requested and needed", name, pol), n.Pos(), "an authorised request that changes the state always notifies before replying", fmt.Sprintf("an authorised ban request returns without Notify: %v", w))
	}
	if len(nVar) == 1 && len(nTrue) == 0 && len(nFalse) == 0 {
		n := nVar[0]
		differs := eng.EqPred("cluster.Contains(ban) != message.Banned", false, func(x, y ssa.Value) bool {
			call, ok := eng.StripConv(x).(*ssa.Call)
			if !ok || eng.FuncID(eng.CalleeObj(&call.Call)) != idReplContains {
				return false
			}
			_, isReq := eng.LoadOfField(y, "Banned")
			return isReq
		})
		g := eng.Guarded(n, differs)
		c.Check(g.Guarded && g.Edges > 0, rule, name+":Notify(Banned) only if the state differs", n.Pos(), "issued with the requested polarity only when the state differs", "Notify(ban, message.Banned) is issued although the state already matches the request")
		ok, w := eng.MustFollow(f, append(append([]eng.Pred{}, auth...), differs), func(i ssa.Instruction) bool { return i == n.(ssa.Instruction) })
		c.Check(ok, rule, name+":Notify(Banned) whenever requested and needed", n.Pos(), "an authorised request that changes the state always notifies before replying", fmt.Sprintf("an authorised ban request returns without Notify: %v", w))
		return
	}
	if len(nVar) > 0 {
		c.Fail(rule, name+":Notify polarity", f.Pos(), "Notify is called both with constant flags and with the request's flag")
	}
	check(nTrue, true)
	check(nFalse, false)
}

func c14R4(c *core.Ctx) {
	rule := "C14.R4"
	c.Rule(rule, "durability path: NewState opens the ban subset with crdt.New(dir!=\"\", fileOf(dir, …)); fileOf joins the directory (returns \":memory:\" only for that literal); newDurableWith opens buntdb at its path argument, \":memory:\" only when the path is empty; Service.Close → dispose(cluster) → Swarm.Close → State.Close → (io.Closer).Close of every subset → Durable.Close → buntdb DB.Close", 7)
	if f := fn(c, rule, "internal/event", "", "NewState"); f != nil {
		// durable := dir != ""
		okBan := false
		for _, call := range eng.Calls(f, false, M+"event/crdt.New") {
			a := eng.CallArgs(call.Common())
			if fc, ok := a[1].(*ssa.Call); ok && eng.FuncID(eng.CalleeObj(&fc.Call)) == M+"event.fileOf" {
				fa := eng.CallArgs(&fc.Call)
				at := eng.Normalize(a[0])
				durOK := at.Op == token.EQL && at.Neg && ((at.X == param(f, 0) && isEmptyString(at.Y)) || (at.Y == param(f, 0) && isEmptyString(at.X)))
				if fa[0] == param(f, 0) && durOK {
					okBan = true
				}
			}
		}
		c.Check(okBan, rule, fnName(f)+":ban set on disk", f.Pos(), "one subset is crdt.New(dir != \"\", fileOf(dir, …))", "no subset of NewState is opened durably on a file under the state directory")
	}
	if f := fn(c, rule, "internal/event", "", "fileOf"); f != nil {
		ok := true
		n := 0
		eng.Instrs(f, func(in ssa.Instruction) {
			ret, isRet := in.(*ssa.Return)
			if !isRet {
				return
			}
			n++
			r := ret.Results[0]
			if r == param(f, 0) {
				// only under dir == ":memory:"
				p := eng.EqPred("dir==\":memory:\"", true, func(x, y ssa.Value) bool {
					k, isC := y.(*ssa.Const)
					return x == param(f, 0) && isC && k.Value != nil && k.Value.ExactString() == `":memory:"`
				})
				if g := eng.Guarded(ret, p); !g.Guarded || g.Edges == 0 {
					ok = false
				}
				return
			}
			if call, isCall := r.(*ssa.Call); isCall && eng.FuncID(eng.CalleeObj(&call.Call)) == "path.Join" {
				return
			}
			ok = false
		})
		c.Check(ok && n >= 1, rule, fnName(f)+":joins the directory", f.Pos(), "the ban file lives under the state directory", "fileOf does not return a path under the state directory")
	}
	if f := fn(c, rule, "internal/event/crdt", "", "newDurableWith"); f != nil {
		opens := eng.Calls(f, false, idBuntOpen)
		ok := len(opens) == 1
		if ok {
			a := eng.CallArgs(opens[0].Common())[0]
			// path is the parameter or ":memory:" under path == ""
			switch x := a.(type) {
			case *ssa.Phi:
				for i, e := range x.Edges {
					if e == param(f, 0) {
						continue
					}
					k, isC := e.(*ssa.Const)
					if !isC || k.Value == nil || k.Value.ExactString() != `":memory:"` {
						ok = false
						continue
					}
					pb := x.Block().Preds[i]
					empty := eng.EqPred("path==\"\"", true, func(p, q ssa.Value) bool { return p == param(f, 0) && isEmptyString(q) })
					g := eng.Guarded(pb.Instrs[len(pb.Instrs)-1], empty)
					if !g.Guarded || g.Edges == 0 {
						ok = false
					}
				}
			default:
				ok = a == param(f, 0)
			}
		}
		c.Check(ok, rule, fnName(f)+":opens its path", f.Pos(), "buntdb is opened at the given path, in memory only for an empty path", "the durable set is not opened at the path it was given")
	}
	// close chain
	type link struct {
		rel, recv, name string
		calls           []string
	}
	for _, l := range []link{
		{"internal/broker", "Service", "Close", []string{M + "broker.dispose"}},
		{"internal/service/cluster", "Swarm", "Close", []string{M + "event.State.Close"}},
		{"internal/event", "State", "Close", []string{"io.Closer.Close"}},
		{"internal/event/crdt", "Durable", "Close", []string{idBuntClose}},
	} {
		f := fn(c, rule, l.rel, l.recv, l.name)
		if f == nil {
			continue
		}
		ok, w := eng.MustPass(f, nil, func(i ssa.Instruction) bool { return eng.IsCallTo(i, l.calls...) })
		if l.name == "Close" && l.recv == "State" {
			// the close is inside a range over subsets guarded by the type assertion: require presence in loop
			cs := eng.Calls(f, false, l.calls...)
			ok = len(cs) == 1 && eng.InLoop(cs[0])
		}
		if l.recv == "Service" {
			ok = false
			for _, d := range eng.Calls(f, false, l.calls...) {
				if _, isCluster := eng.LoadOfField(eng.StripConv(eng.CallArgs(d.Common())[0]), "cluster"); isCluster {
					if ok2, _ := eng.MustPass(f, nil, func(i ssa.Instruction) bool { return i == d.(ssa.Instruction) }); ok2 {
						ok = true
					}
				}
			}
		}
		c.Check(ok, rule, fnName(f)+":closes downstream", f.Pos(), "the close chain reaches "+shortT(l.calls[0]), fmt.Sprintf("the close chain is broken: %s does not always call %s %v", l.name, shortT(l.calls[0]), w))
	}
}

func isEmptyString(v ssa.Value) bool {
	k, ok := v.(*ssa.Const)
	return ok && k.Value != nil && k.Value.ExactString() == `""`
}

// c14R5 / c05R3: Swarm.Notify.
func c14R5(c *core.Ctx, rule string) {
	c.Rule(rule, "Swarm.Notify: enabled ⇒ s.state.Add(ev) and op.Add(ev), otherwise s.state.Del(ev) and op.Del(ev), for the same event; GossipBroadcast(op) is called synchronously (not in a new goroutine) on every path, after the local state was updated", 4)
	f := fn(c, rule, "internal/service/cluster", "Swarm", "Notify")
	if f == nil {
		return
	}
	name := fnName(f)
	ev, en := param(f, 1), param(f, 2)
	enabled := func(want bool) eng.Pred { return eng.ValuePred(fmt.Sprintf("enabled=%v", want), en, want) }
	for _, k := range []struct {
		id  string
		pol bool
		nm  string
	}{{idStateAdd, true, "Add"}, {idStateDel, false, "Del"}} {
		calls := eng.Calls(f, false, k.id)
		var local, op []ssa.CallInstruction
		for _, cl := range calls {
			a := eng.CallArgs(cl.Common())
			if a[1] != ev {
				c.Fail(rule, name+":"+k.nm+" same event", cl.Pos(), "the event applied is not Notify's argument")
				continue
			}
			if _, isState := eng.LoadOfField(a[0], "state"); isState {
				local = append(local, cl)
			} else {
				op = append(op, cl)
			}
		}
		if len(local) != 1 || len(op) != 1 {
			c.Fail(rule, name+":"+k.nm+" applied to state and op", f.Pos(), fmt.Sprintf("expected %s on s.state and on the broadcast op, found %d/%d", k.nm, len(local), len(op)))
			continue
		}
		for _, cl := range []ssa.CallInstruction{local[0], op[0]} {
			g := eng.Guarded(cl, enabled(k.pol))
			c.Check(g.Guarded && g.Edges > 0, rule, fmt.Sprintf("%s:%s only if enabled=%v (%s)", name, k.nm, k.pol, eng.Describe(eng.CallArgs(cl.Common())[0])), cl.Pos(), "polarity matches the flag", k.nm+" is applied for the wrong polarity")
		}
		ok, w := eng.MustFollow(f, []eng.Pred{enabled(k.pol)}, func(i ssa.Instruction) bool { return i == local[0].(ssa.Instruction) })
		c.Check(ok, rule, fmt.Sprintf("%s:local %s whenever enabled=%v", name, k.nm, k.pol), local[0].Pos(), "the local state is always updated", fmt.Sprintf("the local replicated state is not updated: %v", w))
		// before the broadcast
		for _, b := range eng.Calls(f, false, idGossipBcast) {
			if again, _ := eng.Reach(f, b.(ssa.Instruction), nil, func(i ssa.Instruction) bool { return i == local[0].(ssa.Instruction) }); again {
				c.Fail(rule, name+":state before broadcast", b.Pos(), "the broadcast can happen before the local state is updated")
			}
		}
	}
	bs := eng.Calls(f, false, idGossipBcast)
	okB := len(bs) == 1
	if okB {
		_, isCall := bs[0].(*ssa.Call)
		okB = isCall
		if okB {
			ok2, _ := eng.MustPass(f, nil, func(i ssa.Instruction) bool { return i == bs[0].(ssa.Instruction) })
			okB = ok2
		}
	}
	c.Check(okB, rule, name+":synchronous broadcast on every path", f.Pos(), "GossipBroadcast(op) is called once, synchronously, on every path (two Notify calls hand their operations to the gossip layer in program order)", "the operation is not broadcast exactly once synchronously on every path (a `go` statement or a skipped path reorders or loses updates)")
	// also look into closures for an asynchronous broadcast
	for _, a := range f.AnonFuncs {
		if len(eng.Calls(a, true, idGossipBcast)) > 0 {
			c.Fail(rule, name+":broadcast in closure", a.Pos(), "GossipBroadcast is called from a closure (asynchronous hand-off)")
		}
	}
}

func c14R6(c *core.Ctx) {
	rule := "C14.R6"
	c.Rule(rule, "Durable.store: buntdb SetOptions with Expires are only built under t.IsRemoved()=true of the value being stored (active entries are persisted without TTL)", 1)
	f := fn(c, rule, "internal/event/crdt", "Durable", "store")
	if f == nil {
		return
	}
	val := param(f, 3)
	pred := eng.CallPred("t.IsRemoved()", idValIsRemoved, -1, true, func(a []ssa.Value) bool { return denotesParam(f, a[0], val, 0) })
	n := 0
	eng.Instrs(f, func(in ssa.Instruction) {
		a, ok := in.(*ssa.Alloc)
		if !ok || shortT(a.Type().String()) != "*github.com/tidwall/buntdb.SetOptions" && !hasSuffix(a.Type().String(), "buntdb.SetOptions") {
			return
		}
		n++
		g := eng.Guarded(a, pred)
		c.Check(g.Guarded && g.Edges > 0, rule, fnName(f)+":expiry only for tombstones", a.Pos(), "a TTL is attached only to removed entries", "an entry that is not removed (an active ban) can be stored with an expiry and silently disappears later")
	})
	if n == 0 {
		// no TTL at all is fine for durability
		c.OK(rule, fnName(f)+":no expiry", f.Pos(), "no expiring options are built")
	}
}

func hasSuffix(s, suf string) bool { return len(s) >= len(suf) && s[len(s)-len(suf):] == suf }

// c14R9: nothing in the replicated-set packages removes entries from the durable store except
// buntdb's own expiry of tombstones (C14.R6): an entry deleted outright (Tx.Delete/DeleteAll,
// a dropped index, os.Remove of the file) takes its add/remove times with it — a ban that was
// toggled (add > del > 0) vanishes on restart, and a removed entry can be resurrected by an
// older gossip.
func c14R9(c *core.Ctx, rule string) {
	c.Rule(rule, "the durable replicated set is never shrunk by the broker itself: no call of buntdb Tx.Delete / Tx.DeleteAll / DB.Load(overwrite) / os.Remove* / os.Truncate in internal/event and internal/event/crdt (expected: 0 sites; the overlay mutant C14-purge-on-open is the positive example)", 1)
	forbidden := []string{
		"github.com/tidwall/buntdb.Tx.Delete", "github.com/tidwall/buntdb.Tx.DeleteAll", "github.com/tidwall/buntdb.DB.Load",
		"os.Remove", "os.RemoveAll", "os.Truncate", "os.Rename",
	}
	n, funcs := 0, 0
	for _, f := range c.P.ScopeFuncs() {
		if p := pkgPathOf(f); p != M+"event" && p != M+"event/crdt" {
			continue
		}
		funcs++
		for _, call := range eng.Calls(f, false, forbidden...) {
			n++
			c.Fail(rule, fmt.Sprintf("%s:removes from the durable set (%s)", fnName(f), shortT(eng.FuncID(eng.CalleeObj(call.Common())))), call.Pos(), "entries of the durable replicated set (the ban list) are removed by the broker itself: their add/remove times are lost, so a key banned again after an unban (add > del > 0) is no longer banned after a restart, and older gossip can resurrect removed entries")
		}
	}
	c.Count("functions_analysed", funcs)
	if n == 0 {
		c.OK(rule, "no deletion from the durable set", token.NoPos, fmt.Sprintf("%d functions of internal/event and internal/event/crdt: entries leave the store only through the tombstone expiry of C14.R6", funcs))
	}
}

// c14R11: the read cache is keyed by the item itself. Every key handed to the freecache of a
// Durable set (Get/Set/Del/Peek/GetOrSet…) is the item string's own bytes (binary.ToBytes or a
// []byte conversion of the item/key parameter) — a hashed or truncated cache key lets one item
// answer for another: the cached "removed" of an unbanned key then unbans a banned one.
func c14R11(c *core.Ctx, rule string) {
	c.Rule(rule, "Durable read cache: every freecache call is keyed by the bytes of the item string itself (binary.ToBytes(item) / []byte(item)), never by a hash or a part of it", 3)
	n := 0
	for _, f := range c.P.ScopeFuncs() {
		if pkgPathOf(f) != M+"event/crdt" {
			continue
		}
		eng.Instrs(f, func(in ssa.Instruction) {
			ci, ok := in.(ssa.CallInstruction)
			if !ok {
				return
			}
			id := eng.FuncID(eng.CalleeObj(ci.Common()))
			if !strings.HasPrefix(id, "github.com/coocood/freecache.Cache.") {
				return
			}
			m := id[strings.LastIndex(id, ".")+1:]
			switch m {
			case "Get", "Set", "Del", "Peek", "GetOrSet", "SetAndGet", "Touch", "TTL", "GetWithExpiration", "GetWithBuf":
			default:
				return
			}
			n++
			k := eng.CallArgs(ci.Common())[1]
			ok2, why := false, eng.Describe(k)
			v := k
			if ph, isPhi := v.(*ssa.Phi); isPhi && len(ph.Edges) > 0 {
				v = ph.Edges[0]
			}
			switch x := v.(type) {
			case *ssa.Call:
				if eng.FuncID(eng.CalleeObj(&x.Call)) == "github.com/kelindar/binary.ToBytes" {
					a := eng.CallArgs(&x.Call)[0]
					if _, isParam := eng.StripConv(a).(*ssa.Parameter); isParam {
						ok2 = true
					} else if u, isU := a.(*ssa.UnOp); isU {
						if fv, isFV := u.X.(*ssa.FreeVar); isFV || fv != nil {
							ok2 = true
						}
						if _, isAl := u.X.(*ssa.Alloc); isAl {
							ok2 = true
						}
					} else if _, isFV := a.(*ssa.FreeVar); isFV {
						ok2 = true
					}
				}
			case *ssa.Convert:
				if _, isParam := x.X.(*ssa.Parameter); isParam {
					ok2 = true
				}
			}
			c.Check(ok2, rule, fmt.Sprintf("%s:cache.%s keyed by the item", fnName(f), m), in.Pos(), "the cache key is the item's own bytes", "the read cache of the durable set is addressed by something other than the item string itself ("+why+"): two items sharing that key answer for each other for 60 s — the cached tombstone of an unbanned key makes a banned key valid again, or the other way round")
		})
	}
	c.Count("cache_call_sites", n)
	if n == 0 {
		c.OK(rule, "no read cache", token.NoPos, "the durable set does not use a read cache any more")
	}
}
