package rules

import (
	"fmt"
	"go/token"
	"go/types"
	"sort"
	"strings"

	"golang.org/x/tools/go/ssa"

	"verif/checker/core"
	"verif/checker/eng"
)

const (
	idTrieSubscribe   = M + "message.Trie.Subscribe"
	idTrieUnsubscribe = M + "message.Trie.Unsubscribe"
	idTrieLookup      = M + "message.Trie.Lookup"
	idCanSubscribe    = M + "service.Conn.CanSubscribe"
	idCanUnsubscribe  = M + "service.Conn.CanUnsubscribe"
	idOnSubscribe     = M + "service/pubsub.Service.OnSubscribe"
	idOnUnsubscribe   = M + "service/pubsub.Service.OnUnsubscribe"
	idOnPublish       = M + "service/pubsub.Service.OnPublish"
	idOnEmitterReq    = M + "service/pubsub.Service.onEmitterRequest"
	idNotifyError     = M + "broker.Conn.notifyError"
	idChannelExclude  = M + "security.Channel.Exclude"
)

func init() {
	register(&Prop{
		ID:  "C02",
		Run: runC02,
		Explanation: "Structural necessary conditions of 'an acknowledged subscription gets every matching publish once': " +
			"(R1) identity-key rule — any map keyed by a permutation-invariant fold of the ssid (Ssid.GetHashCode is an XOR fold, so a/b and b/a collide by construction) confirms element-wise ssid equality before an entry is used; this is exactly the permuted/repeated-filter clause of the property; " +
			"(R2) in OnSubscribe/OnUnsubscribe/OnPublish every state-changing call is cut off by channel-valid, Authorize().allowed and !HasPermission(AllowExtend) on the authorised key, and every `return nil` is cut off by the same guards (or is the emitter/ API path); " +
			"(R3) in Conn.onReceive a failed OnSubscribe yields 0x80 + notifyError, failed OnUnsubscribe/OnPublish yield notifyError, and SUBACK/UNSUBACK are written on every path after the handler loop; " +
			"(R4) Trie.Subscribe/Unsubscribe are only called from pubsub.Service.Subscribe/Unsubscribe and are cut off there by the per-connection bookkeeping (CanSubscribe/CanUnsubscribe) for connections; " +
			"(R5) the self-exclusion filter compares the subscriber id with a value that is the publisher's id only under channel.Exclude(); " +
			"(R6) on the success path each handler reaches its effect (Subscribe / Unsubscribe / Publish; trie insert; trie removal when present). " +
			"NOT decided: delivery multiplicities end to end, payload/channel byte equality, link expansion values.",
		Assumptions: []string{"security.Key accessors are pure", "fakes whose CanSubscribe always answers true are out of scope (test doubles)"},
	})
}

func runC02(c *core.Ctx) {
	foldKeyRule(c, "C02.R1", 5)
	c02R2(c)
	c02R3(c)
	c02R4(c)
	c02R5(c)
	c02R7(c)
	c02R8(c, "C02.R8")
	c02R9(c, "C02.R9")
	jsonTargetRule(c, "C02.R10", "service/link")
	counterTransitions(c, "C02.R11")
	// shared with C01 (reported under their C01 ids): an acknowledged subscription stays in the
	// trie until removed (pruning only of empty leaves, count bookkeeping, one critical section)
	// and is found by the matcher
	c01R2(c)
	c01R3(c)
	c01R7(c)
	c01R8(c)
	c01R9(c)
}

// chanValidPred: channel.ChannelType != ChannelInvalid for the *security.Channel value ch
// (established by `== Invalid` false edge, or by `== <non-invalid constant>` true edge).
func chanValidPred(c *core.Ctx, ch func(ssa.Value) bool) eng.Pred {
	inv := int64(0)
	if k := c.P.Const("internal/security", "ChannelInvalid"); k != nil {
		inv, _ = constInt64(k)
	}
	return eng.Pred{Name: "channel valid", Match: func(a eng.Atom) (bool, bool) {
		if a.Op != token.EQL {
			return false, false
		}
		for _, pr := range [][2]ssa.Value{{a.X, a.Y}, {a.Y, a.X}} {
			base, ok := eng.LoadOfField(pr[0], "ChannelType")
			if !ok || !ch(base) {
				continue
			}
			k, ok := eng.ConstInt(pr[1])
			if !ok {
				continue
			}
			if k == inv {
				return false, true // holds when (type == Invalid) is false
			}
			return true, true // holds when (type == Static/Wildcard) is true
		}
		return false, false
	}}
}

// notExtendPred: key.HasPermission(AllowExtend) == false on the given key value.
func notExtendPred(c *core.Ctx, key ssa.Value) eng.Pred {
	ext := int64(64)
	if k := c.P.Const("internal/security", "AllowExtend"); k != nil {
		ext, _ = constInt64(k)
	}
	return eng.CallPred("!key.HasPermission(AllowExtend)", idHasPermission, -1, false, func(a []ssa.Value) bool {
		if len(a) != 2 || key == nil || !eng.SameValue(a[0], key) {
			return false
		}
		k, ok := eng.ConstInt(a[1])
		return ok && k == ext
	})
}

type handlerSpec struct {
	name    string
	effects []string // effect call ids that must exist and be guarded
	must    string   // the effect the success path must reach (R6)
}

func c02R2(c *core.Ctx) {
	rule := "C02.R2"
	c.Rule(rule, "OnSubscribe/OnUnsubscribe/OnPublish: every effect call is cut off by channel-valid ∧ allowed ∧ !HasPermission(AllowExtend); `return nil` only behind those guards (or on the emitter/ API path); the success path reaches the handler's effect", 18)
	specs := []handlerSpec{
		{"OnSubscribe", nil, idPSSubscribe},
		{"OnUnsubscribe", nil, idPSUnsubscribe},
		{"OnPublish", nil, idPSPublish},
	}
	sites := authorizeSites(c)
	for _, sp := range specs {
		f := fn(c, rule, "internal/service/pubsub", "Service", sp.name)
		if f == nil {
			continue
		}
		var site *authSite
		for i := range sites {
			if sites[i].fn == f {
				site = &sites[i]
			}
		}
		if site == nil || site.allowed == nil || site.key == nil {
			c.Fail(rule, fnName(f)+":no Authorize", f.Pos(), "handler does not call Authorize or ignores its results")
			continue
		}
		chv := site.chanArg
		preds := []eng.Pred{
			chanValidPred(c, func(v ssa.Value) bool { return eng.SameValue(v, chv) }),
			eng.ValuePred("allowed", site.allowed, true),
			notExtendPred(c, site.key),
		}
		neff := 0
		for _, call := range eng.Calls(f, false, effectIDs...) {
			neff++
			eid := shortT(eng.FuncID(eng.CalleeObj(call.Common())))
			for _, p := range preds {
				g := eng.Guarded(call, p)
				c.Count("guard_cuts", 1)
				if g.Guarded && g.Edges > 0 {
					c.OK(rule, fnName(f)+":"+eid+" only if "+p.Name, call.Pos(), "cut off by "+p.Name)
				} else {
					c.Fail(rule, fnName(f)+":"+eid+" only if "+p.Name, call.Pos(), "effect call is reachable without "+p.Name, g.Witness...)
				}
			}
		}
		if neff == 0 {
			c.Fail(rule, fnName(f)+":no effects", f.Pos(), "no effect call found in handler")
		}
		// nil returns
		apiPath := func(ret ssa.Instruction) bool {
			for _, call := range eng.Calls(f, false, idOnEmitterReq) {
				if eng.Dominates(call, ret) {
					return true
				}
			}
			return false
		}
		eng.Instrs(f, func(in ssa.Instruction) {
			ret, ok := in.(*ssa.Return)
			if !ok || len(ret.Results) != 1 {
				return
			}
			if !eng.IsNilConst(ret.Results[0]) {
				return // an error value is returned
			}
			if apiPath(ret) {
				c.OK(rule, fnName(f)+":nil return on emitter/ API path", ret.Pos(), "request handed to the API handler, which answers itself")
				return
			}
			all := true
			var w []string
			for _, p := range preds {
				g := eng.Guarded(ret, p)
				if !g.Guarded || g.Edges == 0 {
					all = false
					w = append(w, "without "+p.Name+":")
					w = append(w, g.Witness...)
				}
			}
			c.Check(all, rule, fnName(f)+":success only behind the guards", ret.Pos(), "`return nil` is cut off by all three guards", fmt.Sprintf("handler can report success for an invalid/unauthorised request: %v", w))
		})
		// R6: the success path reaches the effect
		ok, w := eng.MustFollow(f, preds, func(i ssa.Instruction) bool { return eng.IsCallTo(i, sp.must) })
		c.Check(ok, rule, fnName(f)+":success path reaches "+shortT(sp.must), f.Pos(), "when all guards pass the handler performs its effect", fmt.Sprintf("all guards pass but the handler returns without calling %s: %v", shortT(sp.must), w))
	}
	// Service.Subscribe reaches trie.Subscribe and the notifier; Unsubscribe reaches trie.Unsubscribe under Contains
	if f := fn(c, rule, "internal/service/pubsub", "Service", "Subscribe"); f != nil {
		eng.Instrs(f, func(in ssa.Instruction) {
			ret, ok := in.(*ssa.Return)
			if !ok {
				return
			}
			if b, isC := constBoolOf(ret.Results[0]); isC && !b {
				return
			}
			dom := false
			for _, call := range eng.Calls(f, false, idTrieSubscribe) {
				if eng.Dominates(call, ret) {
					dom = true
				}
			}
			c.Check(dom, rule, fnName(f)+":true only after trie insert", ret.Pos(), "Subscribe reports success only after the trie insert", "Subscribe can return true without inserting into the trie")
		})
	}
	if f := fn(c, rule, "internal/service/pubsub", "Service", "Unsubscribe"); f != nil {
		calls := eng.Calls(f, false, idTrieUnsubscribe)
		contains := eng.CallPred("subscribers.Contains(sub)", idSubsContains, -1, true, nil)
		ok := len(calls) == 1
		if ok {
			ok2, _ := eng.MustFollow(f, []eng.Pred{contains}, func(i ssa.Instruction) bool { return i == calls[0].(ssa.Instruction) })
			ok = ok2 && eng.HasLicensingEdge(f, contains)
		}
		c.Check(ok, rule, fnName(f)+":removes from trie when present", f.Pos(), "a present subscriber is removed from the trie", "Unsubscribe does not remove a present subscriber from the trie on every path")
	}
}

func c02R3(c *core.Ctx) {
	rule := "C02.R3"
	c.Rule(rule, "Conn.onReceive: OnSubscribe error ⇒ 0x80 in the SUBACK and notifyError(err, packet id); OnUnsubscribe/OnPublish error ⇒ notifyError; SUBACK / UNSUBACK are written on every path after the handler calls", 6)
	f := fn(c, rule, "internal/broker", "Conn", "onReceive")
	if f == nil {
		return
	}
	type hs struct {
		id, ack string
	}
	for _, h := range []hs{{idOnSubscribe, M + "network/mqtt.Suback.EncodeTo"}, {idOnUnsubscribe, M + "network/mqtt.Unsuback.EncodeTo"}, {idOnPublish, ""}} {
		calls := eng.Calls(f, false, h.id)
		if len(calls) != 1 {
			c.Fail(rule, fnName(f)+":"+shortT(h.id), f.Pos(), fmt.Sprintf("expected one call of %s, found %d", shortT(h.id), len(calls)))
			continue
		}
		call := calls[0].(*ssa.Call)
		isErr := eng.EqPred("handler error != nil", false, func(x, y ssa.Value) bool { return x == ssa.Value(call) && eng.IsNilConst(y) })
		ok, w := eng.MustFollow(f, []eng.Pred{isErr}, func(i ssa.Instruction) bool {
			if !eng.IsCallTo(i, idNotifyError) {
				return false
			}
			a := eng.CallArgs(i.(ssa.CallInstruction).Common())
			if len(a) != 3 || a[1] != ssa.Value(call) {
				return false
			}
			_, isMsgID := eng.LoadOfField(a[2], "MessageID")
			return isMsgID
		})
		c.Check(ok && eng.HasLicensingEdge(f, isErr), rule, fnName(f)+":"+shortT(h.id)+" error is reported", call.Pos(), "a handler error is sent back with the request's message id", fmt.Sprintf("a handler error is not reported to the client on every path: %v", w))
		if h.ack != "" {
			ok, w := eng.MustPass(f, call, func(i ssa.Instruction) bool { return eng.IsCallTo(i, h.ack) })
			c.Check(ok, rule, fnName(f)+":"+shortT(h.ack)+" follows", call.Pos(), "the acknowledgement is written on every path after the handler ran", fmt.Sprintf("a path returns without writing the acknowledgement: %v", w))
		}
		if h.id == idOnSubscribe {
			// failure code 0x80 appended exactly under the error
			found := false
			eng.Instrs(f, func(i ssa.Instruction) {
				st, ok := i.(*ssa.Store)
				if !ok {
					return
				}
				if k, ok := eng.ConstInt(st.Val); ok && k == 0x80 {
					if g := eng.Guarded(st, isErr); g.Guarded && g.Edges > 0 {
						found = true
					} else {
						c.Fail(rule, fnName(f)+":0x80 only on error", st.Pos(), "failure code 0x80 is appended although the subscription succeeded", g.Witness...)
					}
				}
			})
			c.Check(found, rule, fnName(f)+":0x80 on error", call.Pos(), "a failed subscription is acknowledged with 0x80", "no 0x80 failure code is produced for a failed subscription")
		}
	}
}

func c02R4(c *core.Ctx) {
	rule := "C02.R4"
	c.Rule(rule, "who-may-call: Trie.Subscribe/Unsubscribe are called only from pubsub.Service.Subscribe/Unsubscribe, where they are cut off by `sub is not a service.Conn or CanSubscribe/CanUnsubscribe = true`", 4)
	allowedCallers := map[string]string{
		idTrieSubscribe:   "(*internal/service/pubsub.Service).Subscribe",
		idTrieUnsubscribe: "(*internal/service/pubsub.Service).Unsubscribe",
	}
	can := map[string]string{idTrieSubscribe: idCanSubscribe, idTrieUnsubscribe: idCanUnsubscribe}
	for _, f := range c.P.ScopeFuncs() {
		for _, id := range []string{idTrieSubscribe, idTrieUnsubscribe} {
			for _, call := range eng.Calls(f, false, id) {
				c.Count("trie_mutation_call_sites", 1)
				okCaller := fnName(f) == allowedCallers[id]
				c.Check(okCaller, rule, fnName(f)+":calls "+shortT(id), call.Pos(), "trie mutation goes through the pubsub service", "the trie is mutated from "+fnName(f)+", bypassing the per-connection bookkeeping in pubsub.Service")
				if !okCaller {
					continue
				}
				sub := param(f, 1)
				pred := eng.Pred{Name: "not a Conn or Can*=true", Match: func(a eng.Atom) (bool, bool) {
					if a.Op != token.ILLEGAL {
						return false, false
					}
					if ex, ok := a.V.(*ssa.Extract); ok && ex.Index == 1 {
						if ta, ok := ex.Tuple.(*ssa.TypeAssert); ok && denotesParam(f, ta.X, sub, 0) {
							if n, ok := ta.AssertedType.(*types.Named); ok && n.Obj().Name() == "Conn" {
								return false, true
							}
						}
					}
					if call, ok := a.V.(*ssa.Call); ok && eng.FuncID(eng.CalleeObj(&call.Call)) == can[id] {
						return true, true
					}
					return false, false
				}}
				g := eng.Guarded(call, pred)
				c.Check(g.Guarded && g.Edges >= 2, rule, fnName(f)+":"+shortT(id)+" behind bookkeeping", call.Pos(), "cut off by the connection's own counter", "the trie is mutated for a connection without consulting its subscription counters")
			}
		}
	}
}

func c02R5(c *core.Ctx) {
	rule := "C02.R5"
	c.Rule(rule, "self-exclusion: the filter OnPublish passes to Publish is `s.ID() != exclude`, and `exclude` is assigned the publisher's ID only under channel.Exclude()=true", 2)
	f := fn(c, rule, "internal/service/pubsub", "Service", "OnPublish")
	if f == nil {
		return
	}
	pubs := eng.Calls(f, false, idPSPublish)
	if len(pubs) != 1 {
		c.Fail(rule, fnName(f)+":publish", f.Pos(), "expected one Publish call")
		return
	}
	args := eng.CallArgs(pubs[0].Common())
	mc, ok := args[2].(*ssa.MakeClosure)
	if !ok {
		c.Fail(rule, fnName(f)+":filter", pubs[0].Pos(), "Publish is not given a filter closure (self-exclusion impossible)")
		return
	}
	cf, off := eng.FuncValue(args[2])
	if cf == nil || cf.Blocks == nil || len(cf.Params) < off+1 {
		c.Fail(rule, fnName(f)+":filter", pubs[0].Pos(), "the Publish filter is not a closure literal, function or method value")
		return
	}
	subP := ssa.Value(cf.Params[off])
	// filter: return s.ID() != <exclude>, where <exclude> is a captured variable (closure
	// literal) or the bound receiver (method value), possibly converted
	shape := false
	var excl ssa.Value
	eng.Instrs(cf, func(in ssa.Instruction) {
		ret, ok := in.(*ssa.Return)
		if !ok {
			return
		}
		a := eng.Normalize(ret.Results[0])
		if a.Op == token.EQL && a.Neg {
			for _, pr := range [][2]ssa.Value{{a.X, a.Y}, {a.Y, a.X}} {
				if !isCallOn(pr[0], idSubscriberID, func(r ssa.Value) bool { return r == subP }) {
					continue
				}
				other := eng.StripConv(pr[1])
				if ct, isCT := other.(*ssa.ChangeType); isCT {
					other = ct.X
				}
				if u, ok := other.(*ssa.UnOp); ok {
					if fv, ok := u.X.(*ssa.FreeVar); ok {
						for i, x := range cf.FreeVars {
							if x == fv && i < len(mc.Bindings) {
								excl = mc.Bindings[i]
								shape = true
							}
						}
					}
				}
				if off == 1 && other == ssa.Value(cf.Params[0]) && len(mc.Bindings) == 1 {
					excl = mc.Bindings[0] // the bound receiver
					shape = true
				}
			}
		}
	})
	c.Check(shape, rule, fnName(f)+":filter shape", mc.Pos(), "filter admits every subscriber whose ID differs from `exclude`", "the Publish filter is not `s.ID() != exclude`")
	if !shape {
		return
	}
	okAssign := false
	bad := false
	exPred := eng.CallPred("channel.Exclude()", idChannelExclude, -1, true, nil)
	isPubID := func(v ssa.Value) bool {
		return isCallOn(v, idSubscriberID, func(r ssa.Value) bool { return eng.SameValue(r, param(f, 1)) })
	}
	isEmptyStr := func(v ssa.Value) bool {
		k, isC := v.(*ssa.Const)
		return isC && k.Value != nil && k.Value.ExactString() == `""`
	}
	if _, isAlloc := excl.(*ssa.Alloc); isAlloc {
		if refs := excl.Referrers(); refs != nil {
			for _, r := range *refs {
				st, ok := r.(*ssa.Store)
				if !ok || st.Addr != excl {
					continue
				}
				if isEmptyStr(st.Val) {
					continue
				}
				g := eng.Guarded(st, exPred)
				if g.Guarded && g.Edges > 0 && isPubID(st.Val) {
					okAssign = true
				} else {
					bad = true
				}
			}
		}
	} else {
		// a plain local (not captured): the value is "" or the publisher's id computed under Exclude()
		v := eng.StripConv(excl)
		if ct, isCT := v.(*ssa.ChangeType); isCT {
			v = eng.StripConv(ct.X)
		}
		var edges []ssa.Value
		if phi, isPhi := v.(*ssa.Phi); isPhi {
			edges = phi.Edges
		} else {
			edges = []ssa.Value{v}
		}
		for _, e := range edges {
			if isEmptyStr(e) {
				continue
			}
			call, isCall := e.(*ssa.Call)
			if isCall && isPubID(e) {
				if g := eng.Guarded(call, exPred); g.Guarded && g.Edges > 0 {
					okAssign = true
					continue
				}
			}
			bad = true
		}
	}
	c.Check(okAssign && !bad, rule, fnName(f)+":exclude set only under me=0", mc.Pos(), "`exclude` is the publisher's id exactly under channel.Exclude()", "`exclude` is assigned outside channel.Exclude()=true or not with the publisher's id")
}

// c02R7: a link shortcut expands to exactly the channel that was requested.
func c02R7(c *core.Ctx) {
	rule := "C02.R7"
	c.Rule(rule, "link round trip: link.OnRequest registers (AddLink) the very channel parsed from the request; Conn.AddLink stores channel.String() under the alias and Conn.GetLink returns the stored string for short topics and the topic itself otherwise", 3)
	if f := fn(c, rule, "internal/service/link", "Service", "OnRequest"); f != nil {
		adds := eng.Calls(f, false, M+"service.Conn.AddLink")
		mk := eng.Calls(f, false, M+"security.MakeChannel", M+"security.ParseChannel")
		ok := len(adds) == 1 && len(mk) == 1
		if ok {
			a := eng.CallArgs(adds[0].Common())
			ok = a[2] == mk[0].Value()
		}
		c.Check(ok, rule, fnName(f)+":registers the parsed channel", f.Pos(), "the link stores the channel exactly as requested (options included)", "the channel registered for the shortcut is not the channel parsed from the request (options such as me=0 / ttl may be lost or altered)")
	}
	if f := fn(c, rule, "internal/broker", "Conn", "AddLink"); f != nil {
		ok := false
		eng.Instrs(f, func(in ssa.Instruction) {
			if mu, isMU := in.(*ssa.MapUpdate); isMU {
				if _, isLinks := eng.LoadOfField(mu.Map, "links"); isLinks && mu.Key == param(f, 1) &&
					isCallOn(mu.Value, M+"security.Channel.String", func(r ssa.Value) bool { return r == param(f, 2) }) {
					ok = true
				}
			}
		})
		c.Check(ok, rule, fnName(f)+":stores channel.String()", f.Pos(), "links[alias] = channel.String()", "AddLink does not store channel.String() under the alias")
	}
	if f := fn(c, rule, "internal/broker", "Conn", "GetLink"); f != nil {
		ok := true
		n := 0
		eng.Instrs(f, func(in ssa.Instruction) {
			ret, isRet := in.(*ssa.Return)
			if !isRet {
				return
			}
			n++
			v := eng.StripConv(ret.Results[0])
			if denotesParam(f, v, param(f, 1), 0) {
				return
			}
			if lk, isLk := v.(*ssa.Lookup); isLk {
				if _, isLinks := eng.LoadOfField(lk.X, "links"); isLinks {
					return
				}
			}
			ok = false
		})
		c.Check(ok && n == 2, rule, fnName(f)+":returns stored link or topic", f.Pos(), "a shortcut expands to the stored string, anything else is passed through", "GetLink returns something other than the stored link or the topic itself")
	}
}

// c02R8: channel option accessors read the option they are named after.
func c02R8(c *core.Ctx, rule string) {
	c.Rule(rule, "channel options: TTL reads \"ttl\", Last reads \"last\", Exclude reads \"me\" and is true exactly for ok ∧ value == 0, Window reads \"from\" and \"until\"; getOption returns the parsed value of the first option with that key", 5)
	want := map[string][]string{"TTL": {`"ttl"`}, "Last": {`"last"`}, "Exclude": {`"me"`}, "Window": {`"from"`, `"until"`}}
	names := []string{"Exclude", "Last", "TTL", "Window"}
	for _, n := range names {
		f := fn(c, rule, "internal/security", "Channel", n)
		if f == nil {
			continue
		}
		var got []string
		for _, call := range eng.Calls(f, false, M+"security.Channel.getOption") {
			if k, ok := eng.CallArgs(call.Common())[1].(*ssa.Const); ok && k.Value != nil {
				got = append(got, k.Value.ExactString())
			}
		}
		sort.Strings(got)
		w := append([]string{}, want[n]...)
		sort.Strings(w)
		c.Check(strings.Join(got, ",") == strings.Join(w, ","), rule, fnName(f)+":option name", f.Pos(), n+" reads option "+strings.Join(w, ","), fmt.Sprintf("Channel.%s reads option(s) [%s], expected [%s]", n, strings.Join(got, ","), strings.Join(w, ",")))
	}
	if f := fn(c, rule, "internal/security", "Channel", "Exclude"); f != nil {
		calls := eng.Calls(f, false, M+"security.Channel.getOption")
		ok := len(calls) == 1
		if ok {
			v, okv := extractOf(calls[0].Value(), 0), extractOf(calls[0].Value(), 1)
			p1 := eng.ValuePred("ok", okv, true)
			p2 := eng.EqPred("v == 0", true, func(x, y ssa.Value) bool { k, isC := eng.ConstInt(y); return x == v && isC && k == 0 })
			t1, _ := eng.TrueImplies(f, 0, p1)
			t2, _ := eng.TrueImplies(f, 0, p2)
			ok = t1 && t2 && eng.HasLicensingEdgeOrValue(f, p1) && eng.HasLicensingEdgeOrValue(f, p2)
		}
		c.Check(ok, rule, fnName(f)+":me=0", f.Pos(), "Exclude ≡ option present ∧ value == 0", "Channel.Exclude is not `ok && v == 0` of the me option")
	}
}

// c02R9: the per-connection bookkeeping moves once per admitted transition. Conn.subs (the list
// Close walks, and the gate in front of the trie) is incremented/decremented only inside
// broker.Conn's own CanSubscribe/CanUnsubscribe (and the unused exported Increment/Decrement),
// and those are asked only by pubsub.Service.Subscribe/Unsubscribe: a second asker (a "cheap
// pre-check" in a handler) consumes or adds a count, after which an acknowledged
// subscription is not in the trie, or Close no longer removes it.
func c02R9(c *core.Ctx, rule string) {
	c.Rule(rule, "who-may-call: Counters.Increment/IncrementOnce/Decrement on Conn.subs only inside broker.Conn.{CanSubscribe,CanUnsubscribe,Increment,Decrement}; CanSubscribe/CanUnsubscribe (interface or concrete) only from pubsub.Service.Subscribe/Unsubscribe; broker.Conn.Increment/Decrement have no production caller", 4)
	inner := map[string]bool{
		"(*internal/broker.Conn).CanSubscribe": true, "(*internal/broker.Conn).CanUnsubscribe": true,
		"(*internal/broker.Conn).Increment": true, "(*internal/broker.Conn).Decrement": true,
	}
	askers := map[string]string{
		"CanSubscribe":   "(*internal/service/pubsub.Service).Subscribe",
		"CanUnsubscribe": "(*internal/service/pubsub.Service).Unsubscribe",
	}
	for _, f := range c.P.ScopeFuncs() {
		eng.Instrs(f, func(in ssa.Instruction) {
			ci, ok := in.(ssa.CallInstruction)
			if !ok {
				return
			}
			obj := eng.CalleeObj(ci.Common())
			if obj == nil {
				return
			}
			id := eng.FuncID(obj)
			switch id {
			case M + "message.Counters.Increment", M + "message.Counters.IncrementOnce", M + "message.Counters.Decrement":
				recv := eng.CallArgs(ci.Common())[0]
				owner, fl, _, isField := eng.FieldOf(recv)
				if !isField {
					if b, ok := eng.LoadOfField(recv, "subs"); ok && b != nil {
						owner, fl, isField = b.Type().String(), "subs", true
					}
				}
				if !isField || fl != "subs" || !strings.Contains(owner, "broker.Conn") {
					return
				}
				c.Count("callsites_analysed", 1)
				c.Check(inner[fnName(f)], rule, fnName(f)+":moves Conn.subs ("+obj.Name()+")", in.Pos(), "the connection's counters move only inside its own Can*/Increment/Decrement methods", "the connection's subscription counters are moved from "+fnName(f)+": the bookkeeping no longer moves exactly once per admitted subscribe/unsubscribe")
			case M + "service.Conn.CanSubscribe", M + "service.Conn.CanUnsubscribe", M + "broker.Conn.CanSubscribe", M + "broker.Conn.CanUnsubscribe":
				c.Count("callsites_analysed", 1)
				c.Check(fnName(f) == askers[obj.Name()], rule, fnName(f)+":asks "+obj.Name(), in.Pos(), "the bookkeeping is consulted only by the pubsub service, once per request", obj.Name()+" has a side effect (it moves the connection's counter) and is also called from "+fnName(f)+": each extra call adds or consumes a count, so an acknowledged subscription misses the trie or Close leaves it behind")
			case M + "broker.Conn.Increment", M + "broker.Conn.Decrement":
				c.Count("callsites_analysed", 1)
				c.Fail(rule, fnName(f)+":calls Conn."+obj.Name(), in.Pos(), "broker.Conn."+obj.Name()+" moves the subscription counter outside the CanSubscribe/CanUnsubscribe protocol and had no production caller on the tree the rules were confirmed against")
			}
		})
	}
}

// counterTransitions: the counters report exactly the first and the last holder. Increment
// returns true iff the counter is 1 after `Counter++` (first); IncrementOnce leaves an
// already-held filter at its count and returns whether the counter was 0 (and then makes it
// non-zero); Decrement returns true only on the path that removes the entry, taken when the
// decremented counter is <= 0. The trie insert/removal and the cluster announcements hang on
// these booleans.
func counterTransitions(c *core.Ctx, rule string) {
	c.Rule(rule, "Counters: Increment = Counter++ then Counter == 1; IncrementOnce increments only when Counter == 0 and returns exactly that; Decrement = Counter-- then removes and returns true exactly when the counter has reached 0, false otherwise (comparisons judged by their truth table, not their spelling)", 3)
	isCounterField := func(v ssa.Value) bool {
		_, ok := eng.LoadOfField(eng.StripConv(v), "Counter")
		return ok
	}
	counterStores := func(f *ssa.Function) []*ssa.Store {
		var out []*ssa.Store
		eng.Instrs(f, func(in ssa.Instruction) {
			if st, ok := in.(*ssa.Store); ok {
				if fa, ok := st.Addr.(*ssa.FieldAddr); ok {
					if _, fl, _, ok := eng.FieldOf(fa); ok && fl == "Counter" {
						out = append(out, st)
					}
				}
			}
		})
		return out
	}
	plusMinus := func(st *ssa.Store, op token.Token) bool {
		bo, ok := st.Val.(*ssa.BinOp)
		if !ok || bo.Op != op {
			return false
		}
		k, isC := eng.ConstInt(bo.Y)
		return isC && k == 1 && isCounterField(bo.X)
	}
	// counterPred: a comparison of the Counter field with a constant whose truth table over the
	// counter values 0, 1, 2 is `want` (or its complement) — `== 0`, `!= 0`, `< 1`, `<= 0`,
	// `> 0`, `>= 1` all denote the same test.
	counterPred := func(name string, want func(int64) bool) eng.Pred {
		return eng.Pred{Name: name, Match: func(a eng.Atom) (bool, bool) {
			if a.Op != token.EQL && a.Op != token.LSS {
				return false, false
			}
			var k int64
			var counterLeft bool
			if kk, isC := eng.ConstInt(a.Y); isC && isCounterField(a.X) {
				k, counterLeft = kk, true
			} else if kk, isC := eng.ConstInt(a.X); isC && isCounterField(a.Y) {
				k, counterLeft = kk, false
			} else {
				return false, false
			}
			same, opposite := true, true
			for _, cv := range []int64{0, 1, 2} {
				var t bool
				switch {
				case a.Op == token.EQL:
					t = cv == k
				case counterLeft:
					t = cv < k
				default:
					t = k < cv
				}
				if t != want(cv) {
					same = false
				}
				if t == want(cv) {
					opposite = false
				}
			}
			if same {
				return true, true
			}
			if opposite {
				return false, true
			}
			return false, false
		}}
	}
	isZero := counterPred("Counter == 0", func(cv int64) bool { return cv == 0 })
	// every return of f yields b exactly under pred (const results), or the comparison itself
	resultIs := func(f *ssa.Function, pred eng.Pred) bool {
		ok := true
		eng.Instrs(f, func(in ssa.Instruction) {
			ret, isRet := in.(*ssa.Return)
			if !isRet || ret.Block() == f.Recover {
				return
			}
			v := returnedValue(ret, 0)
			if b, isC := constBoolOf(v); isC {
				want := pred
				if !b {
					want = eng.Pred{Name: "not " + pred.Name, Match: func(a eng.Atom) (bool, bool) {
						w, m := pred.Match(a)
						return !w, m
					}}
				}
				if g := eng.Guarded(ret, want); !(g.Guarded && g.Edges > 0) {
					ok = false
				}
				return
			}
			if r := unspill(v); r != nil {
				v = r
			}
			at := eng.Normalize(v)
			w, m := pred.Match(at)
			if !m || w == at.Neg {
				ok = false
			}
		})
		return ok
	}
	if f := fn(c, rule, "internal/message", "Counters", "Increment"); f != nil {
		sts := counterStores(f)
		ok := len(sts) == 1 && plusMinus(sts[0], token.ADD)
		if ok {
			ok = false
			isOne := counterPred("Counter == 1", func(cv int64) bool { return cv == 1 })
			for _, rv := range eng.ResultValues(f, 0) {
				if r := unspill(rv); r != nil {
					rv = r
				}
				at := eng.Normalize(rv)
				if w, m := isOne.Match(at); m && w != at.Neg {
					if in, isIn := at.V.(ssa.Instruction); isIn && eng.Dominates(sts[0], in) {
						ok = true
					}
				}
			}
		}
		c.Check(ok, rule, fnName(f)+":first iff counter becomes 1", f.Pos(), "Counter++ then Counter == 1", "Increment does not return `Counter == 1` after `Counter++`: the first subscription of a peer is not announced to the trie, or every one is")
	}
	if f := fn(c, rule, "internal/message", "Counters", "IncrementOnce"); f != nil {
		sts := counterStores(f)
		ok := len(sts) == 1 && plusMinus(sts[0], token.ADD)
		if ok {
			g := eng.Guarded(sts[0], isZero)
			ok = g.Guarded && g.Edges > 0
			if !ok {
				// `first = Counter == 0; if first {` with first a named result (spilled to a local
				// in a function with defer): the test reads the local back
				spilled := eng.Pred{Name: "first (= Counter == 0)", Match: func(a eng.Atom) (bool, bool) {
					if a.Op != token.ILLEGAL {
						return false, false
					}
					if r := unspill(a.V); r != nil {
						at := eng.Normalize(r)
						if w, m := isZero.Match(at); m {
							return w != at.Neg, true
						}
					}
					return false, false
				}}
				g2 := eng.Guarded(sts[0], spilled)
				ok = g2.Guarded && g2.Edges > 0
			}
			ok = ok && resultIs(f, isZero)
		}
		c.Check(ok, rule, fnName(f)+":first iff counter was 0", f.Pos(), "increments only when the counter is 0 and returns exactly that", "IncrementOnce does not increment exactly when the counter is 0 and return that: a repeated SUBSCRIBE of a held filter is counted again (one UNSUBSCRIBE then no longer removes it) or a new one is refused")
	}
	if f := fn(c, rule, "internal/message", "Counters", "Decrement"); f != nil {
		sts := counterStores(f)
		ok := len(sts) == 1 && plusMinus(sts[0], token.SUB)
		if ok {
			// after the decrement, "gone" is Counter == 0 (<= 0, < 1, not > 0 …)
			base := counterPred("Counter <= 0", func(cv int64) bool { return cv <= 0 })
			gone := eng.Pred{Name: base.Name, Match: func(a eng.Atom) (bool, bool) {
				w, m := base.Match(a)
				if !m {
					return false, false
				}
				if in, isIn := a.V.(ssa.Instruction); isIn && !eng.Dominates(sts[0], in) {
					return false, false // a test of the counter before the decrement is another question
				}
				return w, true
			}}
			if !eng.HasLicensingEdge(f, gone) {
				c.Fail(rule, fnName(f)+":last iff counter reaches 0", f.Pos(), "Decrement no longer tests whether the decremented counter has reached 0")
				return
			}
			eng.Instrs(f, func(in ssa.Instruction) {
				ret, isRet := in.(*ssa.Return)
				if !isRet || ret.Block() == f.Recover {
					return
				}
				b, isC := constBoolOf(returnedValue(ret, 0))
				if !isC {
					ok = false
					return
				}
				if b {
					if g := eng.Guarded(ret, gone); !(g.Guarded && g.Edges > 0) {
						ok = false
					}
				}
			})
			ok2, _ := eng.MustFollow(f, []eng.Pred{gone}, func(i ssa.Instruction) bool {
				ret, isRet := i.(*ssa.Return)
				if !isRet {
					return false
				}
				b, isC := constBoolOf(returnedValue(ret, 0))
				return isC && b
			})
			ok = ok && ok2
		}
		c.Check(ok, rule, fnName(f)+":last iff counter reaches 0", f.Pos(), "Counter-- then true exactly when the counter has reached 0", "Decrement does not return true exactly when the decremented counter has reached 0: the last unsubscribe is not reported (the filter stays in the trie) or an earlier one is (it is removed while still held), or an unsubscribe of a filter that was never held is reported as the last")
	}
}
