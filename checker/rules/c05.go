package rules

import (
	"fmt"
	"go/token"

	"golang.org/x/tools/go/ssa"

	"verif/checker/core"
	"verif/checker/eng"
)

const (
	idStateSubs     = M + "event.State.Subscriptions"
	idStateSubsOf   = M + "event.State.SubscriptionsOf"
	idPeerOnSub     = M + "service/cluster.Peer.onSubscribe"
	idPeerOnUnsub   = M + "service/cluster.Peer.onUnsubscribe"
	idPeerIsActive  = M + "service/cluster.Peer.IsActive"
	idPeerClose     = M + "service/cluster.Peer.Close"
	idValIsAdded    = M + "event/crdt.Value.IsAdded"
	idCountersInc   = M + "message.Counters.Increment"
	idCountersDec   = M + "message.Counters.Decrement"
	idSubscriberTyp = M + "message.Subscriber.Type"
)

func init() {
	register(&Prop{
		ID:  "C05",
		Run: runC05,
		Explanation: "Structural necessary conditions of 'cluster routing follows the replicated subscription state': " +
			"(R1) identity-key rule on the per-peer subscription counters (same Counters type as connections: a peer subscribed to a/b and b/a must keep two counters); " +
			"(R2) Swarm.merge drives the routing callbacks from the delta: it iterates the very object it passed to State.Merge, after the merge, and State.Merge reduces that object in place (its non-nil result is its argument); events of the local broker are skipped; " +
			"(R2b) in that callback OnSubscribe runs only under v.IsAdded() ∧ peer.onSubscribe()=true ∧ IsActive, OnUnsubscribe only under v.IsRemoved() ∧ peer.onUnsubscribe()=true ∧ IsActive, and always then; onSubscribe/onUnsubscribe are Increment/Decrement of the peer's counters for the event's ssid; " +
			"(R3) Swarm.Notify applies the same event with the same polarity to the local state and to the broadcast operation and broadcasts synchronously on every path (program order of two Notify calls is the order handed to the FIFO link); " +
			"(R4) onPeerOffline closes the peer and, for every subscription of that peer, calls OnUnsubscribe and removes it from the state; " +
			"(R5) the OnMessage callback fans out only to SubscriberDirect subscribers (no re-forwarding); " +
			"(R6) mesh.GossipData.Merge contract (shared with C13.R3; known finding). " +
			"NOT decided: quiescence, relay schedules, the 30 s activity window, FIFO of the transport.",
		Assumptions: []string{"callbacks stored in Swarm.OnSubscribe/OnUnsubscribe/OnMessage are those assigned in broker.NewService"},
	})
}

// fieldFuncCall reports whether in is a call of the function stored in field `field`.
func fieldFuncCall(in ssa.Instruction, field string) (*ssa.Call, bool) {
	call, ok := in.(*ssa.Call)
	if !ok || call.Call.IsInvoke() || call.Call.StaticCallee() != nil {
		return nil, false
	}
	if _, ok := eng.LoadOfField(call.Call.Value, field); ok {
		return call, true
	}
	return nil, false
}

func runC05(c *core.Ctx) {
	foldKeyRule(c, "C05.R1", 5)
	c05R2(c)
	c14R5(c, "C05.R3")
	c05R4(c)
	c04Range(c, "C05.R7")
	counterTransitions(c, "C05.R8")
	c05R5(c)
	// R6: interface contract, shared with C13.R3
	c13R3as(c, "C05.R6")
}

func c05R2(c *core.Ctx) {
	rule := "C05.R2"
	c.Rule(rule, "Swarm.merge: other.Subscriptions(cb) is called on the object passed to s.state.Merge, after it; State.Merge's non-nil result is its (reduced) argument; cb skips events whose Peer is the local name; cb calls OnSubscribe only under IsAdded ∧ onSubscribe ∧ IsActive and OnUnsubscribe only under IsRemoved ∧ onUnsubscribe ∧ IsActive, and always then; Peer.onSubscribe/onUnsubscribe are Counters.Increment/Decrement on the event ssid", 12)
	f := fn(c, rule, "internal/service/cluster", "Swarm", "merge")
	if f == nil {
		return
	}
	name := fnName(f)
	sm := eng.Calls(f, false, idStateMerge)
	subs := eng.Calls(f, false, idStateSubs)
	if len(sm) != 1 || len(subs) != 1 {
		c.Fail(rule, name+":shape", f.Pos(), fmt.Sprintf("expected one State.Merge and one Subscriptions call, found %d/%d", len(sm), len(subs)))
		return
	}
	merged := eng.StripConv(eng.CallArgs(sm[0].Common())[1])
	iter := eng.CallArgs(subs[0].Common())[0]
	c.Check(eng.SameValue(merged, iter) && eng.Dominates(sm[0], subs[0]), rule, name+":callbacks driven from the merged object", subs[0].Pos(), "the subscriptions iterated are those of the object reduced by Merge", "the callbacks iterate an object other than the one State.Merge was applied to, or before the merge")
	// State.Merge reduces its argument in place
	if g := fn(c, rule, "internal/event", "State", "Merge"); g != nil {
		ok := true
		eng.Instrs(g, func(in ssa.Instruction) {
			ret, isRet := in.(*ssa.Return)
			if !isRet {
				return
			}
			r := eng.StripConv(ret.Results[0])
			if eng.IsNilConst(r) || eng.IsNilConst(ret.Results[0]) {
				return
			}
			if ta, isTA := r.(*ssa.TypeAssert); !isTA || ta.X != param(g, 1) {
				ok = false
			}
		})
		// and the subset Merge is applied to the argument's own subsets
		ms := eng.Calls(g, false, idMapMerge)
		if len(ms) == 1 {
			a := eng.CallArgs(ms[0].Common())
			if lk, isLk := eng.StripConv(a[1]).(*ssa.Lookup); isLk {
				if base, isF := eng.LoadOfField(lk.X, "subsets"); !isF {
					ok = false
				} else if ta, isTA := base.(*ssa.TypeAssert); !isTA || ta.X != param(g, 1) {
					ok = false
				}
			} else {
				ok = false
			}
		} else {
			ok = false
		}
		c.Check(ok, rule, fnName(g)+":reduces its argument in place", g.Pos(), "the delta is the argument object itself, reduced by the subset merges", "State.Merge does not reduce its argument in place (Swarm.merge would replay the whole payload into the peer counters)")
	}
	// the callback
	cb, off := eng.FuncValue(eng.CallArgs(subs[0].Common())[1])
	if cb == nil || cb.Blocks == nil || len(cb.Params) < off+2 {
		c.Undecided(rule, name+":callback", subs[0].Pos(), "Subscriptions is not given a closure literal, function or method value")
		return
	}
	cbName := fnName(cb)
	ev, val := cb.Params[off], cb.Params[off+1]
	// who-may-call: the per-peer counters move once per replicated event, i.e. only in this
	// callback. A second site (e.g. the replay in onPeerOnline, which findPeer triggers from
	// inside this very callback) counts an event twice and the last unsubscribe never reaches
	// the trie.
	for _, g := range c.P.ScopeFuncs() {
		for _, call := range eng.Calls(g, false, idPeerOnSub, idPeerOnUnsub) {
			c.Count("callsites_analysed", 1)
			id := shortT(eng.FuncID(eng.CalleeObj(call.Common())))
			c.Check(g == cb, rule, fnName(g)+":moves the peer counter ("+id+")", call.Pos(), "the per-peer subscription counter moves only in the merge callback, once per replicated event", "the per-peer subscription counter is also moved from "+fnName(g)+": an event that passes here and through the merge callback is counted twice (or a removal is consumed), so routing no longer follows the replicated state")
		}
	}
	// own events skipped
	notSelf := eng.EqPred("ev.Peer != ourself", false, func(x, y ssa.Value) bool {
		b, isPeer := eng.LoadOfField(x, "Peer")
		if !isPeer || b != ev {
			return false
		}
		// uint64(s.router.Ourself.Name)
		return derivesFromField(y, "Name", 0) || derivesFromField(y, "name", 0)
	})
	type side struct {
		field, cnt, pred, nm string
	}
	for _, sd := range []side{{"OnSubscribe", idPeerOnSub, idValIsAdded, "subscribe"}, {"OnUnsubscribe", idPeerOnUnsub, idValIsRemoved, "unsubscribe"}} {
		var calls []*ssa.Call
		eng.Instrs(cb, func(in ssa.Instruction) {
			if call, ok := fieldFuncCall(in, sd.field); ok {
				calls = append(calls, call)
			}
		})
		if len(calls) != 1 {
			c.Fail(rule, cbName+":"+sd.nm+" callback", cb.Pos(), fmt.Sprintf("expected one %s call in the merge callback, found %d", sd.field, len(calls)))
			continue
		}
		call := calls[0]
		peerArg := call.Call.Args[0]
		preds := []eng.Pred{
			notSelf,
			eng.CallPred("v."+shortT(sd.pred)+"()", sd.pred, -1, true, func(a []ssa.Value) bool { return a[0] == val }),
			eng.CallPred("peer."+shortT(sd.cnt)+"()", sd.cnt, -1, true, func(a []ssa.Value) bool {
				if len(a) != 3 {
					return false
				}
				b, isSsid := eng.LoadOfField(a[2], "Ssid")
				return isSsid && b == ev
			}),
			eng.CallPred("peer.IsActive()", idPeerIsActive, -1, true, nil),
		}
		for _, p := range preds {
			g := eng.Guarded(call, p)
			c.Count("guard_cuts", 1)
			c.Check(g.Guarded && g.Edges > 0, rule, cbName+":"+sd.field+" only if "+p.Name, call.Pos(), "cut off by "+p.Name, "the routing callback "+sd.field+" runs without "+p.Name)
		}
		// for the "if" direction only the tests belonging to this call's own condition chain count
		var own []eng.Pred
		for _, p := range preds {
			p := p
			own = append(own, eng.Pred{Name: p.Name, Match: func(a eng.Atom) (bool, bool) {
				w, ok := p.Match(a)
				if !ok {
					return false, false
				}
				if in, isIn := a.V.(ssa.Instruction); isIn && !eng.Dominates(in, call) {
					return false, false
				}
				return w, true
			}})
		}
		ok, w := eng.MustFollow(cb, own, func(i ssa.Instruction) bool { return i == ssa.Instruction(call) })
		c.Check(ok, rule, cbName+":"+sd.field+" whenever the transition happens", call.Pos(), "every first/last transition of an active peer reaches the trie callback", fmt.Sprintf("a counter transition of an active peer does not reach %s: %v", sd.field, w))
		// the counter moves for every replicated transition, whether or not the peer is active at
		// that moment: state.Merge has consumed the entry, it will not come again. Every path on
		// which the event is not ours and v.IsAdded()/IsRemoved() holds calls onSubscribe/
		// onUnsubscribe (a `peer.IsActive() && peer.onSubscribe(..)` short-circuit skips it).
		var cntCall ssa.Instruction
		eng.Instrs(cb, func(in ssa.Instruction) {
			if eng.IsCallTo(in, sd.cnt) {
				cntCall = in
			}
		})
		if cntCall != nil {
			okC, wC := eng.MustFollow(cb, own[:2], func(i ssa.Instruction) bool { return i == cntCall })
			actP := eng.CallPred("peer.IsActive()", idPeerIsActive, -1, true, nil)
			gA := eng.Guarded(cntCall, actP)
			c.Check(okC && !(gA.Guarded && gA.Edges > 0), rule, cbName+":"+shortT(sd.cnt)+" for every replicated transition", cntCall.Pos(), "the per-peer counter is updated for every event of the delta, independent of the peer's activity", fmt.Sprintf("the per-peer counter update %s is skipped on some path although the delta carries the transition (e.g. it sits behind peer.IsActive()): the merge consumed the entry, the counter stays off by one and the last unsubscribe never reaches the trie: %v", shortT(sd.cnt), wC))
		}
		// the peer handed to the callback is the one found for the event's peer name
		c.Check(call.Call.Args[1] == ev, rule, cbName+":"+sd.field+" passes the event", call.Pos(), "the callback receives the decoded event", "the callback does not receive the event being processed")
		_ = peerArg
	}
	// Peer.onSubscribe / onUnsubscribe
	for _, pr := range []struct{ m, id string }{{"onSubscribe", idCountersInc}, {"onUnsubscribe", idCountersDec}} {
		g := fn(c, rule, "internal/service/cluster", "Peer", pr.m)
		if g == nil {
			continue
		}
		calls := eng.Calls(g, false, pr.id)
		ok := len(calls) == 1
		if ok {
			a := eng.CallArgs(calls[0].Common())
			_, isSubs := eng.LoadOfField(a[0], "subs")
			ok = isSubs && a[1] == param(g, 2)
			// result returned as is
			eng.Instrs(g, func(in ssa.Instruction) {
				if ret, isRet := in.(*ssa.Return); isRet && ret.Results[0] != calls[0].Value() {
					ok = false
				}
			})
		}
		c.Check(ok, rule, fnName(g)+":counter transition", g.Pos(), "returns "+shortT(pr.id)+"(ssid) of the peer's own counters", "does not return "+shortT(pr.id)+" of the peer's counters for the event ssid")
	}
}

func c05R4(c *core.Ctx) {
	rule := "C05.R4"
	c.Rule(rule, "onPeerOffline: under members.Remove()=deleted, peer.Close() is called and for every subscription of that peer (SubscriptionsOf(name)) both OnUnsubscribe(dead peer, ev) and state.Del(ev) are called", 2)
	f := fn(c, rule, "internal/service/cluster", "Swarm", "onPeerOffline")
	if f == nil {
		return
	}
	name := fnName(f)
	removed := eng.Pred{Name: "members.Remove deleted", Match: func(a eng.Atom) (bool, bool) {
		if a.Op != token.ILLEGAL {
			return false, false
		}
		if ex, ok := a.V.(*ssa.Extract); ok && ex.Index == 1 {
			if call, ok := ex.Tuple.(*ssa.Call); ok && eng.FuncID(eng.CalleeObj(&call.Call)) == M+"service/cluster.memberlist.Remove" {
				return true, true
			}
		}
		return false, false
	}}
	ok, w := eng.MustFollow(f, []eng.Pred{removed}, func(i ssa.Instruction) bool { return eng.IsCallTo(i, idPeerClose) })
	c.Check(ok && eng.HasLicensingEdge(f, removed), rule, name+":closes the peer", f.Pos(), "a removed peer's send loop is stopped", fmt.Sprintf("a removed peer is not closed: %v", w))
	subsOf := eng.Calls(f, false, idStateSubsOf)
	okIter := false
	for _, so := range subsOf {
		a := eng.CallArgs(so.Common())
		if a[1] != param(f, 1) {
			continue
		}
		cb, off := eng.FuncValue(a[2])
		if cb == nil || cb.Blocks == nil || len(cb.Params) < off+1 {
			continue
		}
		var unsub, del bool
		okU, _ := eng.MustPass(cb, nil, func(i ssa.Instruction) bool {
			call, ok := fieldFuncCall(i, "OnUnsubscribe")
			return ok && call.Call.Args[1] == cb.Params[off]
		})
		unsub = okU
		okD, _ := eng.MustPass(cb, nil, func(i ssa.Instruction) bool {
			if !eng.IsCallTo(i, idStateDel) {
				return false
			}
			return eng.StripConv(eng.CallArgs(i.(ssa.CallInstruction).Common())[1]) == cb.Params[off]
		})
		del = okD
		if unsub && del {
			ok2, _ := eng.MustFollow(f, []eng.Pred{removed}, func(i ssa.Instruction) bool { return i == so.(ssa.Instruction) })
			okIter = ok2
		}
	}
	c.Check(okIter, rule, name+":drops the peer's subscriptions", f.Pos(), "every subscription of the lost peer is unsubscribed locally and removed from the replicated state", "the subscriptions of a lost peer are not all unsubscribed and deleted from the state")
	// (R4c) the stand-in works: onPeerOffline unsubscribes a deadPeer (type SubscriberOffline) that
	// shares only the ID of the live *Peer (SubscriberRemote) sitting in the trie. The membership
	// test in pubsub.Service.Unsubscribe must therefore not discriminate on Subscriber.Type():
	// its Lookup takes no filter, or one that never asks for the type.
	if u := fn(c, rule, "internal/service/pubsub", "Service", "Unsubscribe"); u != nil {
		for _, lk := range eng.Calls(u, false, idTrieLookup) {
			a := eng.CallArgs(lk.Common())
			okF, why := true, "no filter"
			if !eng.IsNilConst(eng.StripConv(a[2])) {
				flt, _ := eng.FuncValue(a[2])
				if flt == nil || flt.Blocks == nil {
					okF, why = false, "the filter is not a literal, function or method value"
				} else {
					why = "filter " + fnName(flt) + " does not look at the subscriber type"
					for _, g := range eng.WithAnon(flt) {
						if len(eng.Calls(g, false, idSubscriberTyp)) > 0 {
							okF, why = false, "filter "+fnName(flt)+" tests Subscriber.Type()"
						}
					}
				}
			}
			c.Count("callsites_analysed", 1)
			c.Check(okF, rule, fnName(u)+":membership by subscriber id only", lk.Pos(), "the subscribers consulted before trie.Unsubscribe are not restricted by type ("+why+"), so the deadPeer stand-in finds the live peer's entry", "pubsub.Unsubscribe restricts the subscribers it consults by type ("+why+"): the deadPeer that onPeerOffline unsubscribes (SubscriberOffline) no longer matches the live Peer (SubscriberRemote) with the same ID, the lost broker stays in the trie and keeps being forwarded to")
		}
	}
	// (R4b) the key deleted is the lost peer's: state.Del(ev) derives the replicated key from
	// ev.Peer/ev.Conn/ev.Ssid, so between SubscriptionsOf handing out ev and Del(ev) the event
	// must not be given to anything that may write its fields (the unsubscribe handler chain
	// ends in broker.NotifyUnsubscribe, which re-stamps ev.Peer with the local broker id).
	cg := c.P.CG()
	for _, so := range subsOf {
		a := eng.CallArgs(so.Common())
		cb, off := eng.FuncValue(a[2])
		if a[1] != param(f, 1) || cb == nil || cb.Blocks == nil || len(cb.Params) < off+1 {
			continue
		}
		ev := ssa.Value(cb.Params[off])
		isDel := func(i ssa.Instruction) bool {
			return eng.IsCallTo(i, idStateDel) && eng.StripConv(eng.CallArgs(i.(ssa.CallInstruction).Common())[1]) == ev
		}
		why := ""
		mutator := func(i ssa.Instruction) bool {
			ci, ok := i.(ssa.CallInstruction)
			if !ok || isDel(i) {
				return false
			}
			for _, e := range cg.Out[cb] {
				if e.Site != ci {
					continue
				}
				args := eng.CallArgs(ci.Common())
				o := len(e.Callee.Params) - len(args)
				for k, arg := range args {
					if o >= 0 && eng.StripConv(arg) == ev {
						if w, how := mayWriteParam(cg, e.Callee, k+o, map[string]bool{}); w {
							why = how
							return true
						}
					}
				}
			}
			return false
		}
		reached, path := eng.Reach(cb, nil, isDel, mutator)
		c.Count("callsites_analysed", len(cg.Out[cb]))
		if reached {
			c.Fail(rule, name+":deletes the lost peer's own key", so.Pos(), "the event is handed to a function that may rewrite it before state.Del(ev) computes the key to delete ("+why+"): the entry removed is not the lost peer's, whose subscriptions stay live in the replicated state", path...)
		} else {
			c.OK(rule, name+":deletes the lost peer's own key", so.Pos(), "state.Del(ev) runs before ev is handed to any function that may write its fields")
		}
	}
}

func c05R5(c *core.Ctx) {
	rule := "C05.R5"
	c.Rule(rule, "the function stored in Swarm.OnMessage (broker.Service.onPeerMessage) looks the message's ssid up with a filter admitting exactly SubscriberDirect, and sends to each result", 2)
	f := fn(c, rule, "internal/broker", "Service", "onPeerMessage")
	if f == nil {
		return
	}
	// it is the function assigned to OnMessage
	assigned := false
	for _, g := range c.P.ScopeFuncs() {
		eng.Instrs(g, func(in ssa.Instruction) {
			st, ok := in.(*ssa.Store)
			if !ok {
				return
			}
			if fa, ok := st.Addr.(*ssa.FieldAddr); ok {
				if _, fl, _, ok := eng.FieldOf(fa); ok && fl == "OnMessage" {
					if mc, ok := st.Val.(*ssa.MakeClosure); ok {
						if bound, ok := mc.Fn.(*ssa.Function); ok && (bound == f || boundTo(bound) == f) {
							assigned = true
						}
					}
				}
			}
		})
	}
	c.Check(assigned, rule, "Swarm.OnMessage = Service.onPeerMessage", f.Pos(), "the cluster delivers peer frames to onPeerMessage", "Swarm.OnMessage is not assigned Service.onPeerMessage (update the anchor)")
	lks := eng.Calls(f, false, idTrieLookup)
	ok := len(lks) == 1
	if ok {
		a := eng.CallArgs(lks[0].Common())
		var flt *ssa.Function
		switch x := a[2].(type) {
		case *ssa.MakeClosure:
			flt, _ = x.Fn.(*ssa.Function)
		case *ssa.Function:
			flt = x
		}
		ok = flt != nil
		if flt != nil {
			direct, _ := constOf(c, rule, "internal/message", "SubscriberDirect")
			shape := false
			eng.Instrs(flt, func(in ssa.Instruction) {
				ret, isRet := in.(*ssa.Return)
				if !isRet {
					return
				}
				at := eng.Normalize(ret.Results[0])
				if at.Op == token.EQL && !at.Neg {
					for _, pr := range [][2]ssa.Value{{at.X, at.Y}, {at.Y, at.X}} {
						if isCallOn(pr[0], idSubscriberTyp, func(r ssa.Value) bool { return r == flt.Params[0] }) {
							if k, isC := eng.ConstInt(pr[1]); isC && k == direct {
								shape = true
							}
						}
					}
				}
			})
			ok = shape
		}
	}
	c.Check(ok, rule, fnName(f)+":direct subscribers only", f.Pos(), "a forwarded message is delivered to local connections only, never forwarded again", "the peer-message fan-out is not restricted to SubscriberDirect (messages could be re-forwarded or delivered to nobody)")
}

// boundTo resolves a bound-method wrapper to the method it calls.
func boundTo(f *ssa.Function) *ssa.Function {
	if f == nil || f.Synthetic == "" {
		return f
	}
	var out *ssa.Function
	eng.Instrs(f, func(in ssa.Instruction) {
		if c, ok := in.(ssa.CallInstruction); ok {
			if sc := c.Common().StaticCallee(); sc != nil {
				out = sc
			}
		}
	})
	return out
}

// c13R3as emits the GossipData.Merge contract obligation under another rule id.
func c13R3as(c *core.Ctx, rule string) {
	c13R3Rule(c, rule)
}
