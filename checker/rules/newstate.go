package rules

import (
	"fmt"
	"go/token"
	"go/types"
	"sort"
	"strings"

	"golang.org/x/tools/go/ssa"

	"verif/checker/core"
	"verif/checker/eng"
)

// newStateRule: mutable state added to the components a property rests on must be classified.
//
// The rules of a property were confirmed against a fixed set of fields and package variables
// (the pinned symbol table). A field added to one of the property's types, or a package
// variable added to one of its packages, that is *written after construction* (a store, a map
// update, a call of a pointer-receiver method on it such as sync.Map.Store or sync.Pool.Put)
// is new shared state on the property's paths — a memo, a cache, a scratch object, a "last
// node" shortcut, a shared outgoing packet — which none of the rules knows how to protect
// (which lock guards it, who invalidates it, whether its zero value is a legal entry). It is
// reported as unclassified. Fields and variables that are only initialised (constructor,
// package initialiser) are not state and are not reported; locks and atomics are not reported.
// This is a who-may-write rule ("the state of T is the confirmed set of fields"): a correct
// cache is reported as well and has to be confirmed by hand, the rule text says so.
func newStateRule(c *core.Ctx, rule string, typeNames []string, pkgs []string) {
	c.Rule(rule, "no unclassified mutable state: every field of {"+strings.Join(typeNames, ", ")+"} and every package variable of {"+strings.Join(pkgs, ", ")+"} that is written after construction belongs to the set the rules were confirmed against (pinned symbol table); an added one (cache, memo, scratch object, pool) is reported with its writers", 1)
	pinnedField := map[string]bool{}
	pinnedVar := map[string]bool{}
	for _, l := range strings.Split(core.PinnedSymbols, "\n") {
		f := strings.Split(l, "\t")
		if len(f) != 4 {
			continue
		}
		switch f[0] {
		case "field":
			pinnedField[f[1]+"\t"+f[2]] = true
		case "var":
			pinnedVar[f[1]+"\t"+f[2]] = true
		}
	}
	if len(pinnedField) == 0 {
		c.Undecided(rule, "pinned symbols", token.NoPos, "the pinned symbol table is empty")
		return
	}
	benign := func(t types.Type) bool {
		s := t.String()
		for _, p := range []string{"sync.Mutex", "sync.RWMutex", "sync.Once", "sync.WaitGroup", "sync/atomic."} {
			if strings.Contains(s, p) {
				return true
			}
		}
		return false
	}
	// new fields
	newField := map[*types.Var]string{} // field -> "T.f"
	nFields := 0
	for _, tn := range typeNames {
		i := strings.LastIndex(tn, ".")
		named := c.P.Type(tn[:i], tn[i+1:])
		if named == nil {
			c.Undecided(rule, "anchor:"+tn, token.NoPos, "anchor missing: type "+tn)
			continue
		}
		st, ok := named.Underlying().(*types.Struct)
		if !ok {
			continue
		}
		for k := 0; k < st.NumFields(); k++ {
			f := st.Field(k)
			nFields++
			if f.Embedded() || benign(f.Type()) {
				continue
			}
			if !pinnedField[tn+"\t"+f.Name()] {
				newField[f] = tn[strings.LastIndex(tn, "/")+1:] + "." + f.Name()
			}
		}
	}
	// new package variables
	newVar := map[*ssa.Global]string{}
	nVars := 0
	for _, rel := range pkgs {
		sp := c.P.SSAPkg(rel)
		if sp == nil {
			c.Undecided(rule, "anchor:"+rel, token.NoPos, "anchor missing: package "+rel)
			continue
		}
		for name, m := range sp.Members {
			g, ok := m.(*ssa.Global)
			if !ok || strings.HasPrefix(name, "init$") || name == "init$guard" {
				continue
			}
			nVars++
			if benign(g.Type()) {
				continue
			}
			if !pinnedVar[rel+"\t"+name] {
				newVar[g] = rel[strings.LastIndex(rel, "/")+1:] + "." + name
			}
		}
	}
	c.Count("fields_compared_with_pinned_table", nFields)
	c.Count("package_variables_compared_with_pinned_table", nVars)
	writers := map[string][]string{}
	note := func(what string, f *ssa.Function, pos token.Pos, how string) {
		writers[what] = append(writers[what], fmt.Sprintf("%s %s (%s)", fnName(f), how, c.P.Pos(pos)))
	}
	if len(newField) > 0 || len(newVar) > 0 {
		fieldOf := func(v ssa.Value) (*types.Var, ssa.Value) { // v = &x.f (possibly through index/slice) -> f, x
			for d := 0; d < 6; d++ {
				switch x := v.(type) {
				case *ssa.FieldAddr:
					pt, ok := x.X.Type().Underlying().(*types.Pointer)
					if !ok {
						return nil, nil
					}
					st, ok := pt.Elem().Underlying().(*types.Struct)
					if !ok {
						return nil, nil
					}
					fv := st.Field(x.Field)
					if _, isNew := newField[fv]; isNew {
						return fv, x.X
					}
					v = x.X
				case *ssa.IndexAddr:
					v = x.X
				case *ssa.Slice:
					v = x.X
				case *ssa.UnOp:
					if x.Op != token.MUL {
						return nil, nil
					}
					v = x.X
				default:
					return nil, nil
				}
			}
			return nil, nil
		}
		globalOf := func(v ssa.Value) *ssa.Global {
			for d := 0; d < 6; d++ {
				switch x := v.(type) {
				case *ssa.Global:
					if _, isNew := newVar[x]; isNew {
						return x
					}
					return nil
				case *ssa.FieldAddr:
					v = x.X
				case *ssa.IndexAddr:
					v = x.X
				case *ssa.Slice:
					v = x.X
				case *ssa.UnOp:
					if x.Op != token.MUL {
						return nil
					}
					v = x.X
				default:
					return nil
				}
			}
			return nil
		}
		fresh := func(base ssa.Value) bool {
			for d := 0; d < 4; d++ {
				switch x := base.(type) {
				case *ssa.Alloc:
					return true
				case *ssa.FieldAddr:
					base = x.X
				case *ssa.UnOp:
					if al, ok := x.X.(*ssa.Alloc); ok && x.Op == token.MUL {
						// local holding a fresh pointer
						for _, r := range *al.Referrers() {
							if st, ok := r.(*ssa.Store); ok && st.Addr == al {
								if _, isNew := st.Val.(*ssa.Alloc); isNew {
									return true
								}
							}
						}
					}
					return false
				default:
					return false
				}
			}
			return false
		}
		fns := append([]*ssa.Function{}, c.P.ScopeFuncs()...)
		for _, f := range fns {
			isInit := f.Name() == "init" || strings.HasPrefix(f.Name(), "init#")
			eng.Instrs(f, func(in ssa.Instruction) {
				record := func(addr ssa.Value, how string) {
					if fv, base := fieldOf(addr); fv != nil {
						if !fresh(base) {
							note(newField[fv], f, in.Pos(), how)
						}
						return
					}
					if g := globalOf(addr); g != nil && !isInit {
						note(newVar[g], f, in.Pos(), how)
					}
				}
				switch x := in.(type) {
				case *ssa.Store:
					record(x.Addr, "stores into it")
				case *ssa.MapUpdate:
					record(x.Map, "updates the map")
				case ssa.CallInstruction:
					cc := x.Common()
					if b, isB := cc.Value.(*ssa.Builtin); isB {
						if (b.Name() == "delete" || b.Name() == "copy" || b.Name() == "clear") && len(cc.Args) > 0 {
							record(cc.Args[0], "calls "+b.Name()+" on it")
						}
						return
					}
					// pointer-receiver method on the field/variable itself (sync.Map.Store, sync.Pool.Get/Put, bytes.Buffer.Write…)
					args := eng.CallArgs(cc)
					if len(args) == 0 {
						return
					}
					obj := eng.CalleeObj(cc)
					if obj == nil {
						return
					}
					sig, _ := obj.Type().(*types.Signature)
					if sig == nil || sig.Recv() == nil {
						return
					}
					if _, ptrRecv := sig.Recv().Type().Underlying().(*types.Pointer); !ptrRecv && !cc.IsInvoke() {
						return
					}
					record(args[0], "calls "+obj.Name()+" on it")
				}
			})
		}
	}
	var names []string
	for n := range writers {
		names = append(names, n)
	}
	sort.Strings(names)
	for _, n := range names {
		w := writers[n]
		sort.Strings(w)
		if len(w) > 3 {
			w = append(w[:3], fmt.Sprintf("… %d more", len(w)-3))
		}
		c.Fail(rule, "state added: "+n, token.NoPos, "`"+n+"` is not part of the state the rules of this property were confirmed against and is written after construction ("+strings.Join(w, "; ")+"): a cache, memo, scratch object or shortcut on this path is unprotected by every rule here (which lock guards it, who invalidates it, whether its zero value is a legal entry, whether two goroutines share it) and has to be classified before the property can be claimed")
	}
	if len(names) == 0 {
		c.OK(rule, "no state added", token.NoPos, fmt.Sprintf("%d fields and %d package variables compared with the pinned table: %d added, none written after construction", nFields, nVars, len(newField)+len(newVar)))
	}
}

// stateScope lists, per property, the types and packages whose state the property's rules
// were confirmed against (the anchors' `state`/`mechanism` entries and what they reach).
var stateScope = map[string][2][]string{
	"C01": {{"internal/message.Trie", "internal/message.node", "internal/message.tempState", "internal/message.Counters", "internal/message.Counter"}, {"internal/message", "internal/security/hash"}},
	"C02": {{"internal/message.Counters", "internal/message.Counter", "internal/message.Trie", "internal/message.node", "internal/broker.Conn", "internal/service/pubsub.Service", "internal/service/link.Service", "internal/security.Channel"}, {"internal/message", "internal/service/pubsub", "internal/service/link", "internal/broker", "internal/security"}},
	"C03": {{"internal/broker.Service", "internal/service/keygen.Service", "internal/provider/contract.contract", "internal/provider/contract.HTTPContractProvider", "internal/provider/contract.SingleContractProvider", "internal/security.Channel", "internal/security/cipher.Xtea", "internal/security/cipher.Salsa", "internal/security/cipher.Shuffle"}, {"internal/security", "internal/provider/contract", "internal/service/keygen", "internal/security/cipher", "internal/security/license"}},
	"C04": {{"internal/event/crdt.Volatile", "internal/event/crdt.Durable", "internal/event.State"}, {"internal/event", "internal/event/crdt"}},
	"C05": {{"internal/service/cluster.Swarm", "internal/service/cluster.Peer", "internal/service/cluster.memberlist", "internal/message.Counters", "internal/event.State"}, {"internal/service/cluster", "internal/event", "internal/event/crdt"}},
	"C06": {{"internal/provider/storage.SSD", "internal/provider/storage.InMemory", "internal/provider/storage.lookupQuery", "internal/service/history.Service"}, {"internal/provider/storage", "internal/service/history", "internal/message"}},
	"C07": {{"internal/provider/storage.SSD", "internal/provider/storage.InMemory", "internal/service/pubsub.Service", "internal/message.Message"}, {"internal/provider/storage", "internal/service/pubsub"}},
	"C08": {{"internal/broker.Conn", "internal/message.Counters", "internal/message.Counter", "internal/service/presence.Service"}, {"internal/broker", "internal/service/pubsub", "internal/service/presence"}},
	"C09": {{"internal/security.Channel", "internal/event.State", "internal/event/crdt.Volatile", "internal/event/crdt.Durable", "internal/service/survey.Surveyor"}, {"internal/network/mqtt", "internal/event", "internal/event/crdt", "internal/security", "internal/service/survey", "internal/async"}},
	"C10": {{"internal/network/listener.Conn", "internal/broker.Conn", "internal/network/mqtt.bufferPool", "internal/network/mqtt.byteBuffer"}, {"internal/network/listener", "internal/network/mqtt"}},
	"C11": {{"internal/service/keygen.Service", "internal/service/keygen.Request", "internal/service/link.Service"}, {"internal/service/keygen", "internal/security"}},
	"C12": {{"internal/security/cipher.Xtea", "internal/security/cipher.Salsa", "internal/security/cipher.Shuffle", "internal/provider/contract.contract"}, {"internal/security/cipher", "internal/security"}},
	"C13": {{"internal/event.State", "internal/event/crdt.Volatile", "internal/event/crdt.Durable", "internal/service/cluster.Swarm"}, {"internal/event", "internal/event/crdt"}},
	"C14": {{"internal/event/crdt.Durable", "internal/event.State", "internal/service/keyban.Service", "internal/service/cluster.Swarm"}, {"internal/service/keyban", "internal/event/crdt", "internal/event"}},
	"C15": {{"internal/provider/storage.SSD", "internal/message.Message"}, {"internal/provider/storage", "internal/message"}},
	"C16": {{"internal/network/mqtt.bufferPool", "internal/network/mqtt.byteBuffer", "internal/network/mqtt.Header"}, {"internal/network/mqtt"}},
	"C17": {{"internal/network/listener.Conn", "internal/network/listener.sniffer", "internal/network/listener.Listener", "internal/network/listener.muxListener", "internal/network/websocket.websocketTransport"}, {"internal/network/listener", "internal/network/websocket"}},
	"C18": {{"internal/service/presence.Service", "internal/service/presence.Notification", "internal/service/pubsub.Service", "internal/broker.Service"}, {"internal/service/presence"}},
	"C19": {{"internal/service/cluster.Peer", "internal/message.Message", "internal/message.messageCodec"}, {"internal/message", "internal/service/cluster"}},
	"C20": {{"internal/security/cipher.Xtea", "internal/security/cipher.Salsa", "internal/security/cipher.Shuffle", "internal/security/license.V1", "internal/security/license.V2", "internal/security/license.V3"}, {"internal/security/cipher", "internal/security/license"}},
}

// StateRule runs newStateRule for property id under rule id "<id>.S".
func StateRule(c *core.Ctx, id string) {
	sc, ok := stateScope[id]
	if !ok {
		return
	}
	newStateRule(c, id+".S", sc[0], sc[1])
}
