package rules

import (
	"fmt"
	"go/token"
	"strings"

	"golang.org/x/tools/go/ssa"

	"verif/checker/core"
	"verif/checker/eng"
)

const (
	idFrameSplit    = M + "message.Frame.Split"
	idFrameEncode   = M + "message.Frame.Encode"
	idPeerSwap      = M + "service/cluster.Peer.swap"
	idGossipUnicast = "github.com/weaveworks/mesh.Gossip.GossipUnicast"
	idNewFrame      = M + "message.NewFrame"
	idReadBytes     = M + "message.readBytes"
	idDecReadUvar   = "github.com/kelindar/binary.Decoder.ReadUvarint"
	classPeer       = M + "service/cluster.Peer.Mutex"
)

func init() {
	register(&Prop{
		ID:  "C19",
		Run: runC19,
		Explanation: "Structural necessary conditions of 'ids and frames encode losslessly; peer forwarding drops nothing': " +
			"(R1) message codec agreement: EncodeTo writes (uvarint len, bytes) for struct fields 0,1,2 in order and uvarint for field 3; DecodeTo reads three length-prefixed byte strings into ID, Channel, Payload in that order and a uvarint into TTL; (R1b) every read error of DecodeTo/readBytes reaches the returned error (no shadowed or dropped error); " +
			"(R2) id layout: NewID writes [0:4]=ssid[0]^ssid[1], [4:8]=MaxUint32-seconds, [8:12]=MaxUint32-atomic.AddUint32(&next,1), [12:16]=process nonce, [16+4i:20+4i]=ssid[i]; Time, Contract, Ssid read the same offsets; " +
			"(R3) Peer.frame is only touched under Peer.Mutex (one tabled exception: the unlocked emptiness probe in processSendQueue); swap replaces the queue by a freshly allocated frame inside the critical section in which it takes the old one (no shared backing array between the frame being sent and the live queue); Send appends exactly the message; " +
			"(R4) processSendQueue: each chunk returned by Split is encoded and handed to GossipUnicast exactly once, in order, for the peer's own name; the loop continues with Split's tail and stops only on an empty chunk; " +
			"(R5) Frame.Split: the size of a message counts payload, id and channel; a split point is returned only at i>0 (never an empty head with a non-empty tail), head/tail are f[:i]/f[i:], otherwise (f, nil). " +
			"NOT decided: id uniqueness across processes, snappy/binary round trips.",
		Assumptions: []string{"kelindar/binary Encoder/Decoder primitives are mutually inverse", "sync/atomic"},
	})
}

func runC19(c *core.Ctx) {
	c19R1(c)
	c19R2(c)
	c.Rule("C19.R3", "guarded-by: Peer.frame by Peer.Mutex (exception: len(p.frame) probe in processSendQueue); swap: p.frame = message.NewFrame(...) (fresh) under the same lock hold as the read of the old frame; Send: p.frame = append(p.frame, *m) under the lock", 5)
	lockRule(c, "C19.R3", []string{tPeer}, nil)
	c19R3(c)
	c19R4(c)
	c19R5(c)
	uniqueRule(c, "C19.R6")
	poolRule(c, "C19.R7", "message")
	c19R8(c, "C19.R8")
}

func c19R1(c *core.Ctx) {
	rule := "C19.R1"
	c.Rule(rule, "messageCodec: EncodeTo = [uvarint(len f0), bytes f0, uvarint(len f1), bytes f1, uvarint(len f2), bytes f2, uvarint f3] over rv.Field(0..3); DecodeTo = readBytes→ID, readBytes→Channel, readBytes→Payload, ReadUvarint→TTL; readBytes = uvarint length then Slice(length); every read error reaches the returned error", 4)
	enc := fn(c, rule, "internal/message", "messageCodec", "EncodeTo")
	if enc != nil {
		ops := codecOps(enc, 1)
		want := "WriteUvarint,Write,WriteUvarint,Write,WriteUvarint,Write,WriteUvarint"
		c.Check(strings.Join(ops, ",") == want, rule, fnName(enc)+":layout", enc.Pos(), "three length-prefixed byte strings followed by a uvarint", fmt.Sprintf("encoder layout is [%s], expected [%s]", strings.Join(ops, ","), want))
		// field order: the Write calls carry Field(0), Field(1), Field(2); the last uvarint Field(3)
		var fieldIdx []int64
		eng.Instrs(enc, func(in ssa.Instruction) {
			call, ok := in.(*ssa.Call)
			if !ok {
				return
			}
			obj := eng.CalleeObj(&call.Call)
			if obj == nil || (obj.Name() != "Write" && obj.Name() != "WriteUvarint") {
				return
			}
			a := eng.CallArgs(&call.Call)
			if len(a) < 2 {
				return
			}
			if k := fieldIndexOf(a[1], 0); k >= 0 {
				fieldIdx = append(fieldIdx, k)
			}
		})
		got := fmt.Sprint(fieldIdx)
		c.Check(got == "[0 0 1 1 2 2 3]", rule, fnName(enc)+":field order", enc.Pos(), "fields are written in declaration order ID, Channel, Payload, TTL", "encoder writes struct fields in order "+got+", expected [0 0 1 1 2 2 3] (len+bytes of fields 0,1,2 then field 3)")
	}
	dec := fn(c, rule, "internal/message", "messageCodec", "DecodeTo")
	if dec != nil {
		var order []string
		var reads []ssa.Value
		eng.Instrs(dec, func(in ssa.Instruction) {
			call, ok := in.(*ssa.Call)
			if !ok {
				return
			}
			id := eng.FuncID(eng.CalleeObj(&call.Call))
			if id != idReadBytes && id != idDecReadUvar {
				return
			}
			reads = append(reads, call)
			// which field receives the value
			v0 := extractOf(call, 0)
			dst := "?"
			if v0 != nil {
				if refs := v0.Referrers(); refs != nil {
					for _, r := range *refs {
						target := r
						if cv, isCv := r.(*ssa.Convert); isCv {
							if cr := cv.Referrers(); cr != nil && len(*cr) > 0 {
								target = (*cr)[0]
							}
						}
						if ct, isCt := r.(*ssa.ChangeType); isCt {
							if cr := ct.Referrers(); cr != nil && len(*cr) > 0 {
								target = (*cr)[0]
							}
						}
						if st, isSt := target.(*ssa.Store); isSt {
							if _, fl, _, ok := eng.FieldOf(st.Addr); ok {
								dst = fl
							}
						}
					}
				}
			}
			order = append(order, shortT(id)+"→"+dst)
		})
		want := "message.readBytes→ID,message.readBytes→Channel,message.readBytes→Payload,binary.Decoder.ReadUvarint→TTL"
		c.Check(strings.Join(order, ",") == want, rule, fnName(dec)+":layout", dec.Pos(), "fields are read in the order they were written", fmt.Sprintf("decoder reads [%s], expected [%s]", strings.Join(order, ","), want))
		// R1b: each read's error reaches the result
		rvs := eng.ResultValues(dec, 0)
		for i, r := range reads {
			e := extractOf(r, 1)
			found := false
			for _, rv := range rvs {
				if rv == e {
					found = true
				}
			}
			c.Check(found, "C19.R1b", fmt.Sprintf("%s:error of read #%d returned", fnName(dec), i), r.(ssa.Instruction).Pos(), "a failed read is reported to the caller", "the error of this read never reaches DecodeTo's result (shadowed or dropped): truncated input decodes to a zero message without an error")
		}
		c.Rule("C19.R1b", "error discipline of the message decoder: the error result of every readBytes/ReadUvarint call in DecodeTo is among the values DecodeTo can return", 4)
	}
	if rb := fn(c, rule, "internal/message", "", "readBytes"); rb != nil {
		uv := eng.Calls(rb, false, idDecReadUvar)
		sl := eng.Calls(rb, false, "github.com/kelindar/binary.Decoder.Slice")
		ok := len(uv) == 1 && len(sl) == 1
		if ok {
			ok = eng.StripConv(eng.CallArgs(sl[0].Common())[1]) == extractOf(uv[0].Value(), 0)
			rvs := eng.ResultValues(rb, 1)
			for _, call := range []ssa.CallInstruction{uv[0], sl[0]} {
				found := false
				for _, rv := range rvs {
					if rv == extractOf(call.Value(), 1) {
						found = true
					}
				}
				ok = ok && found
			}
		}
		c.Check(ok, rule, fnName(rb)+":length-prefixed", rb.Pos(), "uvarint length followed by exactly that many bytes, errors propagated", "readBytes is not `l = ReadUvarint; Slice(l)` with both errors returned")
	}
}

// fieldIndexOf: v derives from rv.Field(k) (reflect) — returns k or -1.
func fieldIndexOf(v ssa.Value, depth int) int64 {
	if v == nil || depth > 8 {
		return -1
	}
	switch x := v.(type) {
	case *ssa.Call:
		if obj := eng.CalleeObj(&x.Call); obj != nil {
			if eng.FuncID(obj) == "reflect.Value.Field" {
				k, _ := eng.ConstInt(eng.CallArgs(&x.Call)[1])
				return k
			}
			if _, isB := x.Call.Value.(*ssa.Builtin); isB || obj != nil {
				for _, a := range eng.CallArgs(&x.Call) {
					if k := fieldIndexOf(a, depth+1); k >= 0 {
						return k
					}
				}
			}
		}
		if _, isB := x.Call.Value.(*ssa.Builtin); isB {
			for _, a := range x.Call.Args {
				if k := fieldIndexOf(a, depth+1); k >= 0 {
					return k
				}
			}
		}
	case *ssa.Convert:
		return fieldIndexOf(x.X, depth+1)
	case *ssa.UnOp:
		if a, ok := x.X.(*ssa.Alloc); ok {
			if refs := a.Referrers(); refs != nil {
				for _, r := range *refs {
					if st, ok := r.(*ssa.Store); ok && st.Addr == a {
						return fieldIndexOf(st.Val, depth+1)
					}
				}
			}
		}
	}
	return -1
}

func c19R2(c *core.Ctx) {
	rule := "C19.R2"
	c.Rule(rule, "NewID: PutUint32 at [0:4] (ssid[0]^ssid[1]), [4:8] (MaxUint32-now), [8:12] (MaxUint32-atomic.AddUint32(&next,1)), [12:16] (unique), and [16+4i:20+4i] (ssid[i]) for every i; len = 4*len(ssid)+16; Contract reads [16:20]; Ssid reads [16+4i:20+4i] for (len-16)/4 words", 6)
	f := fn(c, rule, "internal/message", "", "NewID")
	if f == nil {
		return
	}
	name := fnName(f)
	type rng struct{ a, b, ka, kb int64 }
	got := map[string]ssa.Value{}
	var wordIdx ssa.Value // the index i of the loop word [16+4i:20+4i]
	for _, call := range eng.Calls(f, false, idBEPutUint32) {
		a := eng.CallArgs(call.Common())
		sl, ok := eng.StripConv(a[1]).(*ssa.Slice)
		if !ok {
			continue
		}
		if b, iv, ok := sliceBounds(f, sl); ok {
			got[b] = a[2]
			if iv != nil {
				wordIdx = iv
			}
		}
	}
	isInv := func(v ssa.Value) (ssa.Value, bool) {
		bo, ok := eng.StripConv(v).(*ssa.BinOp)
		if !ok || bo.Op != token.SUB {
			return nil, false
		}
		k, isC := eng.ConstInt(bo.X)
		return bo.Y, isC && k == 4294967295
	}
	v04, v48, v812, v1216, vw := got["0:4"], got["4:8"], got["8:12"], got["12:16"], got["4i+16:4i+20"]
	okSeq := false
	if v812 != nil {
		if inner, ok := isInv(v812); ok {
			if call, ok := inner.(*ssa.Call); ok && eng.FuncID(eng.CalleeObj(&call.Call)) == "sync/atomic.AddUint32" {
				if k, ok := eng.ConstInt(call.Call.Args[1]); ok && k == 1 {
					if g, ok := call.Call.Args[0].(*ssa.Global); ok && g.Name() == "next" {
						okSeq = true
					}
				}
			}
		}
	}
	okTime := false
	if v48 != nil {
		_, okTime = isInv(v48)
	}
	okNonce := false
	if u, ok := v1216.(*ssa.UnOp); ok {
		if g, ok := u.X.(*ssa.Global); ok && g.Name() == "unique" {
			okNonce = true
		}
	}
	// the word written at [16+4i:20+4i] is ssid[i] for that same i
	okWord := false
	if u, ok := vw.(*ssa.UnOp); ok && wordIdx != nil {
		if ia, ok := u.X.(*ssa.IndexAddr); ok && ia.X == f.Params[0] && eng.SameValue(ia.Index, wordIdx) {
			okWord = true
		}
	}
	c.Check(v04 != nil, rule, name+":prefix word", f.Pos(), "[0:4] written", "NewID does not write bytes [0:4]")
	c.Check(okTime, rule, name+":inverted time", f.Pos(), "[4:8] = MaxUint32 - seconds", "NewID does not write MaxUint32-seconds at [4:8]")
	c.Check(okSeq, rule, name+":inverted atomic sequence", f.Pos(), "[8:12] = MaxUint32 - atomic.AddUint32(&next, 1): concurrent ids differ and later ids sort first", "NewID does not write MaxUint32-atomic.AddUint32(&next,1) at [8:12] (ids created in the same second could collide or sort oldest-first)")
	c.Check(okNonce, rule, name+":process nonce", f.Pos(), "[12:16] = unique", "NewID does not write the process nonce at [12:16]")
	c.Check(okWord, rule, name+":ssid words", f.Pos(), "[16+4i:20+4i] = ssid[i] for every word", "NewID does not write ssid[i] at [16+4i:20+4i]")
	// length
	okLen := false
	eng.Instrs(f, func(in ssa.Instruction) {
		if ms, ok := in.(*ssa.MakeSlice); ok {
			a, b, ok2 := affineLen(ms.Len, f.Params[0])
			if ok2 && a == 4 && b == 16 {
				okLen = true
			}
		}
	})
	c.Check(okLen, rule, name+":length", f.Pos(), "len(id) = 4*len(ssid)+16", "NewID does not allocate 4*len(ssid)+16 bytes")
	if g := fn(c, rule, "internal/message", "ID", "Ssid"); g != nil {
		// every store result[i] = Uint32(id[lo:hi]) reads the word belonging to that same i
		okS, nSt := true, 0
		eng.Instrs(g, func(in ssa.Instruction) {
			st, ok := in.(*ssa.Store)
			if !ok {
				return
			}
			ia, ok := st.Addr.(*ssa.IndexAddr)
			if !ok {
				return
			}
			call, ok := eng.StripConv(st.Val).(*ssa.Call)
			if !ok || eng.FuncID(eng.CalleeObj(&call.Call)) != idBEUint32 {
				return
			}
			nSt++
			sl, ok := eng.StripConv(eng.CallArgs(&call.Call)[1]).(*ssa.Slice)
			if !ok || !eng.SameValue(sl.X, g.Params[0]) {
				okS = false
				return
			}
			la, lb, ok1 := affine(sl.Low, ia.Index, 0)
			ha, hb, ok2 := affine(sl.High, ia.Index, 0)
			if !(ok1 && ok2 && la == 4 && lb == 16 && ha == 4 && hb == 20) {
				okS = false
			}
		})
		okS = okS && nSt > 0
		c.Check(okS, rule, fnName(g)+":word offsets", g.Pos(), "Ssid reads id[16+4i:20+4i]", "ID.Ssid does not read the words at [16+4i:20+4i]")
	}
	if g := fn(c, rule, "internal/message", "ID", "Contract"); g != nil {
		okC := false
		eng.Instrs(g, func(in ssa.Instruction) {
			if sl, ok := in.(*ssa.Slice); ok && sl.X == g.Params[0] {
				lo, _ := eng.ConstInt(sl.Low)
				hi, _ := eng.ConstInt(sl.High)
				if lo == 16 && hi == 20 {
					okC = true
				}
			}
		})
		c.Check(okC, rule, fnName(g)+":offset", g.Pos(), "Contract reads id[16:20]", "ID.Contract does not read [16:20]")
	}
}

func c19R3(c *core.Ctx) {
	rule := "C19.R3"
	if f := fn(c, rule, "internal/service/cluster", "Peer", "swap"); f != nil {
		la := lockAnalysis(c)
		var st *ssa.Store
		eng.Instrs(f, func(in ssa.Instruction) {
			if s, ok := in.(*ssa.Store); ok {
				if b, ok := eng.AddrOfField(s.Addr, "frame"); ok && b == f.Params[0] {
					st = s
				}
			}
		})
		ok := st != nil
		if ok {
			call, isCall := st.Val.(*ssa.Call)
			fresh := isCall && (eng.FuncID(eng.CalleeObj(&call.Call)) == idNewFrame)
			if _, isMake := st.Val.(*ssa.MakeSlice); isMake {
				fresh = true
			}
			ok = fresh && la.Holds(st, classPeer, true)
			// the returned frame is the old p.frame read under the same hold
			for _, rv := range eng.ResultValues(f, 0) {
				b, isF := eng.LoadOfField(rv, "frame")
				if !isF || b != f.Params[0] {
					ok = false
					continue
				}
				if in, isIn := rv.(ssa.Instruction); isIn && (!la.Holds(in, classPeer, true) || !eng.Dominates(in, st)) {
					ok = false
				}
			}
		}
		c.Check(ok, rule, fnName(f)+":fresh queue under the lock", f.Pos(), "the frame being sent and the live queue never share a backing array", "swap does not replace p.frame by a freshly allocated frame under the lock (re-slicing the old frame lets a concurrent Send overwrite messages that are still being encoded)")
	}
	if f := fn(c, rule, "internal/service/cluster", "Peer", "Send"); f != nil {
		okA := false
		eng.Instrs(f, func(in ssa.Instruction) {
			s, ok := in.(*ssa.Store)
			if !ok {
				return
			}
			if b, ok := eng.AddrOfField(s.Addr, "frame"); !ok || b != f.Params[0] {
				return
			}
			if args, ok := eng.IsBuiltinCall(s.Val.(ssa.Instruction), "append"); ok {
				if b2, ok := eng.LoadOfField(args[0], "frame"); ok && b2 == f.Params[0] {
					okA = true
				}
			}
		})
		c.Check(okA, rule, fnName(f)+":appends to the queue", f.Pos(), "p.frame = append(p.frame, *m)", "Peer.Send does not append the message to p.frame")
	}
}

func c19R4(c *core.Ctx) {
	rule := "C19.R4"
	c.Rule(rule, "processSendQueue: frame = swap(); loop: (chunk, frame) = frame.Split(bound); an empty chunk ends the loop; otherwise chunk.Encode() is passed to sender.GossipUnicast(p.name, …) exactly once per iteration and the loop continues on every path (a unicast error does not stop it)", 3)
	f := fn(c, rule, "internal/service/cluster", "Peer", "processSendQueue")
	if f == nil {
		return
	}
	name := fnName(f)
	sw := eng.Calls(f, false, idPeerSwap)
	sp := eng.Calls(f, false, idFrameSplit)
	en := eng.Calls(f, false, idFrameEncode)
	un := eng.Calls(f, false, idGossipUnicast)
	if len(sw) != 1 || len(sp) != 1 || len(en) != 1 || len(un) != 1 {
		c.Fail(rule, name+":shape", f.Pos(), fmt.Sprintf("expected one swap/Split/Encode/GossipUnicast, found %d/%d/%d/%d", len(sw), len(sp), len(en), len(un)))
		return
	}
	// Split is applied to swap's frame or the previous tail
	recv := eng.CallArgs(sp[0].Common())[0]
	okIter := false
	if phi, ok := recv.(*ssa.Phi); ok {
		okIter = true
		for _, e := range phi.Edges {
			if e != sw[0].Value() && !isExtractOf(e, sp[0].Value(), 1) {
				okIter = false
			}
		}
	}
	c.Check(okIter && eng.InLoop(sp[0]), rule, name+":consumes the frame through Split's tail", sp[0].Pos(), "each iteration splits what the previous one left", "the send loop does not iterate `chunk, frame = frame.Split(...)` over swap()'s frame")
	// the encoded chunk is Split's head
	encRecv := eng.CallArgs(en[0].Common())[0]
	okEnc := false
	if al, ok := encRecv.(*ssa.Alloc); ok {
		if refs := al.Referrers(); refs != nil {
			for _, r := range *refs {
				if st, ok := r.(*ssa.Store); ok && st.Addr == al && isExtractOf(st.Val, sp[0].Value(), 0) {
					okEnc = true
				}
			}
		}
	}
	ua := eng.CallArgs(un[0].Common())
	_, isName := eng.LoadOfField(ua[1], "name")
	okUni := ua[2] == en[0].Value() && isName && eng.Dominates(en[0], un[0]) && eng.InLoop(un[0])
	_, isCall := un[0].(*ssa.Call)
	c.Check(okEnc && okUni && isCall, rule, name+":each chunk sent once", un[0].Pos(), "the head chunk is encoded and unicast to this peer, synchronously, once per iteration", "the chunk returned by Split is not encoded and passed to GossipUnicast(p.name, …) exactly once per iteration")
	// loop exits only on an empty chunk
	empty := eng.EqPred("len(chunk)==0", true, func(x, y ssa.Value) bool {
		k, ok := eng.ConstInt(y)
		l, isL := eng.LenOf(x)
		return ok && k == 0 && isL && l != nil
	})
	okExit := true
	eng.Instrs(f, func(in ssa.Instruction) {
		if ret, ok := in.(*ssa.Return); ok {
			// returns after swap must be guarded by the empty-chunk test
			if eng.Dominates(sw[0], ret) {
				if g := eng.Guarded(ret, empty); !g.Guarded {
					okExit = false
				}
			}
		}
	})
	// non-empty chunk always reaches the unicast
	nonEmpty := eng.Pred{Name: "len(chunk)!=0", Match: func(a eng.Atom) (bool, bool) {
		w, ok := empty.Match(a)
		if !ok {
			return false, false
		}
		if in, isIn := a.V.(ssa.Instruction); isIn && !eng.Dominates(sp[0], in) {
			return false, false
		}
		return !w, true
	}}
	ok2, w := eng.MustFollow(f, []eng.Pred{nonEmpty}, func(i ssa.Instruction) bool { return i == un[0].(ssa.Instruction) })
	c.Check(okExit && ok2, rule, name+":stops only when nothing is left", f.Pos(), "the loop ends exactly when Split returns an empty chunk", fmt.Sprintf("the send loop can stop while messages remain, or skip a non-empty chunk: %v", w))
}

func c19R5(c *core.Ctx) {
	rule := "C19.R5"
	c.Rule(rule, "Frame.Split: per-message size = len(Payload)+len(ID)+len(Channel)+constant; the early return is (f[:i], f[i:]) under sum+size>=bound ∧ i>0; the final return is (f, nil); i steps by one from 0 and the running sum adds each size", 4)
	f := fn(c, rule, "internal/message", "Frame", "Split")
	if f == nil {
		return
	}
	name := fnName(f)
	recv := f.Params[0]
	// size expression: find BinOp chain compared with maxByteSize
	var sizeFields = map[string]bool{}
	var scan func(g *ssa.Function, depth int)
	scan = func(g *ssa.Function, depth int) {
		eng.Instrs(g, func(in ssa.Instruction) {
			call, ok := in.(*ssa.Call)
			if !ok {
				return
			}
			if b, ok := call.Call.Value.(*ssa.Builtin); ok && b.Name() == "len" {
				if _, fl, _, ok := eng.FieldOf(call.Call.Args[0]); ok {
					sizeFields[fl] = true
				}
				return
			}
			// size helpers of the message type (e.g. Message.Size) count for what they measure
			if h := call.Call.StaticCallee(); h != nil && h.Blocks != nil && h.Pkg == f.Pkg && depth < 1 && h.Signature.Recv() != nil {
				scan(h, depth+1)
			}
		})
	}
	scan(f, 0)
	c.Check(sizeFields["Payload"] && sizeFields["ID"] && sizeFields["Channel"], rule, name+":size counts payload, id and channel", f.Pos(), "the estimate covers every variable-length field", fmt.Sprintf("the per-message size omits a field (counted: %v): chunks can exceed the byte bound", keysOf(sizeFields)))
	nSplit, nAll := 0, 0
	eng.Instrs(f, func(in ssa.Instruction) {
		ret, ok := in.(*ssa.Return)
		if !ok || len(ret.Results) != 2 {
			return
		}
		h, hOK := ret.Results[0].(*ssa.Slice)
		t, tOK := ret.Results[1].(*ssa.Slice)
		if hOK && tOK {
			nSplit++
			i := h.High
			okShape := h.X == recv && t.X == recv && h.Low == nil && t.High == nil && t.Low == i && i != nil
			progress := eng.LtPred("0 < i", true, func(x, y ssa.Value) bool { k, ok := eng.ConstInt(x); return ok && k == 0 && y == i })
			g := eng.Guarded(ret, progress)
			c.Check(okShape, rule, name+":split point", ret.Pos(), "head = f[:i], tail = f[i:]", "the early return is not (f[:i], f[i:])")
			c.Check(g.Guarded && g.Edges > 0, rule, name+":progress", ret.Pos(), "a split is only made after at least one message (the head is never empty while the tail is not)", "Split can return an empty head with a non-empty tail (i == 0): the peer send loop stops on an empty chunk and drops the whole frame")
			return
		}
		if ret.Results[0] == recv && eng.IsNilConst(ret.Results[1]) {
			nAll++
		}
	})
	c.Check(nSplit == 1 && nAll == 1, rule, name+":two outcomes", f.Pos(), "either a split point or the whole frame", fmt.Sprintf("expected one split return and one (f, nil) return, found %d/%d", nSplit, nAll))
}

func keysOf(m map[string]bool) []string {
	var out []string
	for k := range m {
		out = append(out, k)
	}
	return out
}

// uniqueRule: message ids are (time, per-process counter, per-process nonce). The counter
// restarts at 1 in every process, so two processes started within one second on the same store
// produce the same ids unless the nonce differs: the package variable `unique` is assigned only
// by the package initialiser, from crypto/rand, and NewID writes it into the id.
func uniqueRule(c *core.Ctx, rule string) {
	c.Rule(rule, "message.unique (the per-process component of every message id) is assigned only by the package initialiser, from a value drawn from crypto/rand", 1)
	sp := c.P.SSAPkg("internal/message")
	if sp == nil {
		c.Undecided(rule, "anchor:message", token.NoPos, "package missing")
		return
	}
	g, _ := sp.Members["unique"].(*ssa.Global)
	if g == nil {
		c.Undecided(rule, "anchor:message.unique", token.NoPos, "anchor missing: package variable message.unique")
		return
	}
	n := 0
	fns := append([]*ssa.Function{}, c.P.ScopeFuncs()...)
	if ini := sp.Func("init"); ini != nil {
		fns = append(fns, ini)
	}
	for _, f := range fns {
		eng.Instrs(f, func(in ssa.Instruction) {
			st, ok := in.(*ssa.Store)
			if !ok || st.Addr != ssa.Value(g) {
				return
			}
			n++
			if f.Name() != "init" {
				c.Fail(rule, fnName(f)+":assigns message.unique", st.Pos(), "the per-process id component is reassigned at run time by "+fnName(f))
				return
			}
			ok2, why := fromCryptoRand(st.Val, 0)
			c.Check(ok2, rule, "message.unique:drawn from crypto/rand", st.Pos(), "the per-process component of message ids is random per process", "the per-process component of message ids is not drawn from crypto/rand ("+why+"): two processes started within the same second on one store produce identical ids (time, counter restarting at 1, same nonce) and the second overwrites acknowledged messages of the first")
		})
	}
	if n == 0 {
		c.Undecided(rule, "message.unique:initialised", token.NoPos, "no assignment of message.unique found")
	}
}

// c19R8: one serial flusher per peer. processSendQueue swaps the frame out and unicasts its
// chunks in order; it is started only by the async.Repeat ticker created in newPeer (one
// goroutine, runs never overlap). A second caller — a direct call or a `go` from Send when
// the frame is full — lets two flushes interleave their GossipUnicast calls, so later
// messages overtake earlier ones.
func c19R8(c *core.Ctx, rule string) {
	c.Rule(rule, "who-may-call: Peer.processSendQueue is referenced only as the action of the async.Repeat started in newPeer (no direct call, no go statement, no other function value)", 1)
	f := fn(c, rule, "internal/service/cluster", "Peer", "processSendQueue")
	if f == nil {
		return
	}
	cg := c.P.CG()
	nOK := 0
	for _, e := range cg.In[f] {
		if e.Kind == "static" {
			c.Fail(rule, fnName(e.Caller)+":calls processSendQueue", e.Site.Pos(), "the send queue of a peer is also flushed from "+fnName(e.Caller)+" ("+fmt.Sprintf("%T", e.Site)+"): two flushes can run at once and interleave their unicasts, later messages overtake earlier ones")
		}
	}
	for _, site := range cg.AddrTaken[f] {
		okSite := false
		if ci, ok := site.(ssa.CallInstruction); ok && eng.IsCallTo(site, M+"async.Repeat") {
			_ = ci
			okSite = true
		}
		if _, isMC := site.(*ssa.MakeClosure); isMC {
			// the bound-method value itself; its use is judged at the call that receives it
			continue
		}
		if okSite {
			nOK++
			c.OK(rule, fnName(site.Parent())+":ticker action", site.Pos(), "processSendQueue is the action of the peer's async.Repeat ticker")
		} else {
			c.Fail(rule, fnName(site.Parent())+":uses processSendQueue as a value", site.Pos(), "processSendQueue escapes as a function value outside the async.Repeat ticker of newPeer: a second flusher can run concurrently")
		}
	}
	if nOK == 0 {
		c.Fail(rule, "ticker", f.Pos(), "processSendQueue is no longer scheduled by async.Repeat")
	}
}
