package rules

import (
	"fmt"
	"go/token"
	"go/types"
	"strings"

	"golang.org/x/tools/go/ssa"

	"verif/checker/core"
	"verif/checker/eng"
)

const (
	idLConnEnqueue = M + "network/listener.Conn.enqueue"
	idLConnFlush   = M + "network/listener.Conn.Flush"
	idLConnWrite   = M + "network/listener.Conn.Write"
	idBufBytes     = "bytes.Buffer.Bytes"
	idBufReset     = "bytes.Buffer.Reset"
	idBufWrite     = "bytes.Buffer.Write"
	idBufLen       = "bytes.Buffer.Len"
	idWriterWrite  = "io.Writer.Write"
	idNetConnWrite = "net.Conn.Write"
	classLConn     = M + "network/listener.Conn.RWMutex"
	classWS        = M + "network/websocket.websocketTransport.Mutex"
)

func init() {
	register(&Prop{
		ID:  "C10",
		Run: runC10,
		Explanation: "Structural necessary conditions of 'concurrent delivery keeps packet framing and per-publisher order': " +
			"(R1) the write queue listener.Conn.writer is only touched under Conn.RWMutex (write lock for writes), and in Flush the socket write of the queued bytes and the Reset of the queue happen in one critical section with the write lock held; " +
			"(R2) write-once linearity of listener.Conn.Write: on every path the caller's bytes are consumed by exactly one of enqueue(p) / socket.Write(p); " +
			"(R3) every mqtt.Message.EncodeTo hands the io.Writer exactly one Write call per path, outside loops, and uses the writer for nothing else (a packet is never split across writes); Publish.EncodeTo refuses length>MaxMessageSize before copying into the 64 KiB pooled buffer; " +
			"(R4) the pooled encode buffer is obtained once and returned by a deferred Put; " +
			"(R5) websocketTransport.Write holds its mutex across NextWriter, Write and Close of one message; " +
			"(R6) delivery is synchronous in the publisher's goroutine: no go statement, channel send or select in Publish, Conn.Send, the encoders or the transport write path. " +
			"NOT decided: the arrival order as such, rate-limiter outcomes, atomicity of the underlying socket write.",
		Assumptions: []string{"a single Write call on the underlying net.Conn / websocket message writer is not interleaved with another", "sync.Pool semantics"},
	})
}

func runC10(c *core.Ctx) {
	c.Rule("C10.R1", "guarded-by: listener.Conn.writer by Conn.RWMutex (instance-sensitive, write lock for writes); Flush: socket.Write(writer.Bytes()) with the write lock held and writer.Reset() before the lock is released", 7)
	lockRule(c, "C10.R1", []string{tLConn}, nil)
	c10Flush(c, "C10.R1")
	c10R2(c, "C10.R2")
	c10R3(c)
	c10R5(c, "C10.R5")
	c10R6(c)
	poolRule(c, "C10.R4", "network/mqtt")
}

func c10Flush(c *core.Ctx, rule string) {
	f := fn(c, rule, "internal/network/listener", "Conn", "Flush")
	if f == nil {
		return
	}
	la := lockAnalysis(c)
	name := fnName(f)
	// the socket write of the queue contents
	var writes []ssa.Instruction
	for _, g := range eng.WithAnon(f) {
		eng.Instrs(g, func(in ssa.Instruction) {
			call, ok := in.(*ssa.Call)
			if !ok || !call.Call.IsInvoke() || call.Call.Method.Name() != "Write" {
				return
			}
			if _, isSock := eng.LoadOfField(call.Call.Value, "socket"); isSock {
				writes = append(writes, in)
			}
		})
	}
	if len(writes) != 1 {
		c.Fail(rule, name+":one socket write", f.Pos(), fmt.Sprintf("expected exactly one socket.Write in Flush, found %d", len(writes)))
		return
	}
	w := writes[0]
	arg := w.(*ssa.Call).Call.Args[0]
	fromQueue := false
	if call, ok := arg.(*ssa.Call); ok && eng.FuncID(eng.CalleeObj(&call.Call)) == idBufBytes {
		if _, ok := eng.AddrOfField(eng.CallArgs(&call.Call)[0], "writer"); ok {
			fromQueue = true
		}
	}
	c.Check(fromQueue, rule, name+":writes the whole queue", w.Pos(), "the flush writes writer.Bytes() itself", "Flush does not write writer.Bytes() directly (a snapshot taken earlier can be stale or alias a buffer that is being refilled)")
	c.Check(la.Holds(w, classLConn, true), rule, name+":socket write under the lock", w.Pos(), "the queue is written to the socket with the write lock held", "the queued bytes are written to the socket without the write lock: a concurrent enqueue/flush can duplicate, reorder or overwrite them")
	resets := eng.Calls(f, false, idBufReset)
	okR := len(resets) == 1
	if okR {
		r := resets[0].(ssa.Instruction)
		okR = la.Holds(r, classLConn, true) && eng.Dominates(w, r)
		// no unlock between write and reset
		unlocked, _ := eng.Reach(f, w, func(i ssa.Instruction) bool { return i == r }, func(i ssa.Instruction) bool {
			return eng.IsCallTo(i, "sync.RWMutex.Unlock", "sync.RWMutex.RUnlock")
		})
		okR = okR && !unlocked
		ok2, _ := eng.MustPass(f, w, func(i ssa.Instruction) bool { return i == r })
		okR = okR && ok2
	}
	c.Check(okR, rule, name+":reset in the same critical section", f.Pos(), "what was written is removed from the queue before anyone else can see it", "writer.Reset() does not follow the socket write inside the same critical section on every path")
}

func c10R2(c *core.Ctx, rule string) {
	c.Rule(rule, "listener.Conn.Write: on every path to return exactly one of enqueue(p) / socket.Write(p) consumes the argument; enqueue appends p to the queue under the lock", 3)
	f := fn(c, rule, "internal/network/listener", "Conn", "Write")
	if f == nil {
		return
	}
	name := fnName(f)
	p := f.Params[1]
	consumes := func(in ssa.Instruction) bool {
		call, ok := in.(*ssa.Call)
		if !ok {
			return false
		}
		if eng.FuncID(eng.CalleeObj(&call.Call)) == idLConnEnqueue {
			return eng.CallArgs(&call.Call)[1] == p
		}
		// enqueue written out in place: writer.Write(p) on the connection's own queue (the lock
		// rule C10.R1 requires the write lock for it)
		if eng.FuncID(eng.CalleeObj(&call.Call)) == idBufWrite {
			a := eng.CallArgs(&call.Call)
			if _, isW := eng.AddrOfField(a[0], "writer"); isW {
				return a[1] == p
			}
		}
		if call.Call.IsInvoke() && call.Call.Method.Name() == "Write" {
			if _, isSock := eng.LoadOfField(call.Call.Value, "socket"); isSock {
				return call.Call.Args[0] == p
			}
		}
		return false
	}
	ok, w := eng.MustPass(f, nil, consumes)
	c.Check(ok, rule, name+":argument consumed", f.Pos(), "every path hands the bytes to the queue or the socket", fmt.Sprintf("a path through Write drops the bytes: %v", w))
	twice := false
	var cs []ssa.Instruction
	eng.Instrs(f, func(in ssa.Instruction) {
		if consumes(in) {
			cs = append(cs, in)
		}
	})
	for _, x := range cs {
		if again, _ := eng.Reach(f, x, nil, consumes); again {
			twice = true
		}
	}
	c.Check(!twice && len(cs) >= 2, rule, name+":argument consumed once", f.Pos(), "no path consumes the bytes twice", "a path through Write hands the same bytes to the queue/socket twice")
	// any other use of p (e.g. writing a slice of it) is suspicious
	other := 0
	if refs := p.Referrers(); refs != nil {
		for _, r := range *refs {
			if !consumes(r) {
				if _, isDbg := r.(*ssa.DebugRef); !isDbg {
					other++
				}
			}
		}
	}
	c.Check(other == 0, rule, name+":argument used only whole", f.Pos(), "the bytes are passed on unchanged", "Write uses its argument other than handing it whole to enqueue/socket.Write")
	if g := fn(c, rule, "internal/network/listener", "Conn", "enqueue"); g != nil {
		ws := eng.Calls(g, false, idBufWrite)
		okE := len(ws) == 1
		if okE {
			a := eng.CallArgs(ws[0].Common())
			_, isW := eng.AddrOfField(a[0], "writer")
			okE = isW && a[1] == g.Params[1]
		}
		c.Check(okE, rule, fnName(g)+":appends to the queue", g.Pos(), "enqueue appends the bytes to writer", "enqueue does not append exactly its argument to the queue")
		if okE {
			always, w := eng.MustPass(g, nil, func(i ssa.Instruction) bool { return i == ws[0].(ssa.Instruction) })
			c.Check(always, rule, fnName(g)+":copies on every path", g.Pos(), "every enqueue copies the bytes into the queue", fmt.Sprintf("a path through enqueue does not copy the caller's bytes into the queue (e.g. it adopts the slice): the encoders hand out a pooled buffer that is reused as soon as Write returns, so queued packets are overwritten: %v", w))
		}
	}
	// the queue object is never replaced or re-pointed at caller memory
	for _, h := range c.P.ScopeFuncs() {
		if pkgPathOf(h) != M+"network/listener" {
			continue
		}
		eng.Instrs(h, func(in ssa.Instruction) {
			st, ok := in.(*ssa.Store)
			if !ok {
				return
			}
			fa, ok := st.Addr.(*ssa.FieldAddr)
			if !ok {
				return
			}
			owner, fl, base, ok := eng.FieldOf(fa)
			if !ok || fl != "writer" || !strings.HasSuffix(owner, "listener.Conn") {
				return
			}
			if _, fresh := base.(*ssa.Alloc); fresh {
				return
			}
			c.Fail(rule, fnName(h)+":replaces the write queue", st.Pos(), "Conn.writer is assigned as a whole ("+eng.Describe(st.Val)+"): a buffer built over caller memory (bytes.NewBuffer(p)) aliases the pooled packet buffers, and bytes queued meanwhile are lost")
		})
	}
}

func c10R3(c *core.Ctx) {
	rule := "C10.R3"
	c.Rule(rule, "every implementation of mqtt.Message: EncodeTo uses its io.Writer only as the receiver of Write, at most once per path, never in a loop, exactly once on every path that returns that call's result; pooled buffer: one Get, one deferred Put; Publish.EncodeTo copies only after `length > MaxMessageSize ⇒ return`", 14)
	n := c.P.Type("internal/network/mqtt", "Message")
	if n == nil {
		c.Undecided(rule, "anchor:mqtt.Message", token.NoPos, "anchor missing")
		return
	}
	impls := c.P.Implementers(n.Underlying().(*types.Interface))
	for _, t := range impls {
		f := c.P.MethodOf(t, "EncodeTo")
		if f == nil || f.Blocks == nil {
			continue
		}
		name := fnName(f)
		w := f.Params[1]
		var writes []ssa.Instruction
		otherUse := ""
		if refs := w.Referrers(); refs != nil {
			for _, r := range *refs {
				if _, ok := r.(*ssa.DebugRef); ok {
					continue
				}
				call, ok := r.(*ssa.Call)
				if ok && call.Call.IsInvoke() && call.Call.Value == w && call.Call.Method.Name() == "Write" {
					writes = append(writes, r)
					continue
				}
				otherUse = r.String()
			}
		}
		okW := otherUse == "" && len(writes) >= 1
		for _, x := range writes {
			if eng.InLoop(x) {
				okW = false
			}
			if again, _ := eng.Reach(f, x, nil, func(i ssa.Instruction) bool {
				for _, y := range writes {
					if i == y {
						return true
					}
				}
				return false
			}); again {
				okW = false
			}
		}
		msg := "the writer receives at most one Write per packet"
		bad := "EncodeTo does not hand the packet to the writer in exactly one Write call"
		if otherUse != "" {
			bad += " (the writer is also used in: " + otherUse + " — e.g. a vectored/streamed write splits the packet)"
		}
		// every value returned as the byte count is the write's own result (or 0 with an error)
		for _, rv := range eng.ResultValues(f, 0) {
			if k, isC := eng.ConstInt(rv); isC && k == 0 {
				continue
			}
			fromWrite := false
			for _, x := range writes {
				if isExtractOf(rv, x.(*ssa.Call), 0) {
					fromWrite = true
				}
			}
			if !fromWrite {
				okW = false
			}
		}
		c.Check(okW, rule, name+":single write", f.Pos(), msg, bad)
		// pool hygiene
		gets := eng.Calls(f, false, M+"network/mqtt.bufferPool.Get")
		if len(gets) > 0 {
			puts := 0
			eng.Instrs(f, func(in ssa.Instruction) {
				if d, ok := in.(*ssa.Defer); ok && eng.FuncID(eng.CalleeObj(&d.Call)) == M+"network/mqtt.bufferPool.Put" {
					if eng.CallArgs(&d.Call)[1] == gets[0].Value() {
						puts++
					}
				}
			})
			c.Check(len(gets) == 1 && puts == 1, rule, name+":pooled buffer returned", f.Pos(), "one buffers.Get paired with a deferred Put of the same buffer", fmt.Sprintf("pooled buffer not obtained once and returned by defer (Get=%d deferred Put=%d)", len(gets), puts))
		}
	}
	if len(impls) < 14 {
		c.Fail(rule, "implementations", token.NoPos, fmt.Sprintf("expected 14 implementations of mqtt.Message, found %d", len(impls)))
	}
	// Publish size guard
	if f := fn(c, rule, "internal/network/mqtt", "Publish", "EncodeTo"); f != nil {
		maxSize, _ := constOf(c, rule, "internal/network/mqtt", "MaxMessageSize")
		p := eng.LtPred("!(MaxMessageSize < length)", false, func(x, y ssa.Value) bool {
			k, ok := eng.ConstInt(x)
			return ok && k == maxSize && sumsLens(y, 0) >= 2
		})
		ok := false
		n := 0
		eng.Instrs(f, func(in ssa.Instruction) {
			if _, isCopy := eng.IsBuiltinCall(in, "copy"); isCopy {
				n++
				if g := eng.Guarded(in, p); g.Guarded && g.Edges > 0 {
					ok = true
				} else {
					ok = false
				}
			}
		})
		for _, call := range eng.Calls(f, false, M+"network/mqtt.writeString") {
			if g := eng.Guarded(call, p); !g.Guarded || g.Edges == 0 {
				ok = false
			}
		}
		c.Check(ok && n >= 1, rule, fnName(f)+":size refused before copy", f.Pos(), "nothing is copied into the fixed pooled buffer before the size check", "Publish.EncodeTo copies topic/payload into the 64 KiB pooled buffer without first refusing length > MaxMessageSize")
	}
}

func c10R5(c *core.Ctx, rule string) {
	c.Rule(rule, "websocketTransport.Write: NextWriter, the message Write and Close are all executed with the transport mutex held, once each, in that order; the bytes written are the argument", 1)
	f := fn(c, rule, "internal/network/websocket", "websocketTransport", "Write")
	if f == nil {
		return
	}
	la := lockAnalysis(c)
	var nw, wr, cl []ssa.Instruction
	eng.Instrs(f, func(in ssa.Instruction) {
		call, ok := in.(*ssa.Call)
		if !ok || !call.Call.IsInvoke() {
			return
		}
		switch call.Call.Method.Name() {
		case "NextWriter":
			nw = append(nw, in)
		case "Write":
			wr = append(wr, in)
		case "Close":
			cl = append(cl, in)
		}
	})
	ok := len(nw) == 1 && len(wr) == 1 && len(cl) == 1
	if ok {
		ok = la.Holds(nw[0], classWS, true) && la.Holds(wr[0], classWS, true) && la.Holds(cl[0], classWS, true)
		ok = ok && eng.Dominates(nw[0], wr[0]) && eng.Dominates(wr[0], cl[0])
		ok = ok && wr[0].(*ssa.Call).Call.Args[0] == f.Params[1]
		ok = ok && isExtractOf(wr[0].(*ssa.Call).Call.Value, nw[0].(*ssa.Call), 0)
	}
	c.Check(ok, rule, fnName(f)+":one message per call under the mutex", f.Pos(), "each Write is one binary message, serialised by the mutex", "websocket Write does not perform NextWriter → Write(b) → Close once each under the transport mutex")
}

func c10R6(c *core.Ctx) {
	rule := "C10.R6"
	c.Rule(rule, "synchronous delivery: pubsub.Service.Publish, broker.Conn.Send, every EncodeTo, listener.Conn.Write/enqueue/Flush and websocketTransport.Write contain no go statement, channel send or select", 7)
	type fref struct{ rel, recv, name string }
	list := []fref{
		{"internal/service/pubsub", "Service", "Publish"},
		{"internal/broker", "Conn", "Send"},
		{"internal/network/listener", "Conn", "Write"},
		{"internal/network/listener", "Conn", "enqueue"},
		{"internal/network/listener", "Conn", "Flush"},
		{"internal/network/websocket", "websocketTransport", "Write"},
		{"internal/network/mqtt", "Publish", "EncodeTo"},
	}
	for _, r := range list {
		f := fn(c, rule, r.rel, r.recv, r.name)
		if f == nil {
			continue
		}
		bad := ""
		for _, g := range eng.WithAnon(f) {
			eng.Instrs(g, func(in ssa.Instruction) {
				switch in.(type) {
				case *ssa.Go:
					bad = "go statement"
				case *ssa.Send:
					bad = "channel send"
				case *ssa.Select:
					bad = "select"
				}
			})
		}
		c.Check(bad == "", rule, fnName(f)+":synchronous", f.Pos(), "runs entirely on the caller's goroutine", "contains a "+bad+": delivery to a subscriber is no longer ordered by the publisher's program order")
	}
	// Publish sends to each subscriber in the lookup loop
	if f := fn(c, rule, "internal/service/pubsub", "Service", "Publish"); f != nil {
		sends := eng.Calls(f, false, idSubscriberSend)
		ok := len(sends) == 1 && eng.InLoop(sends[0])
		if ok {
			_, isCall := sends[0].(*ssa.Call)
			ok = isCall && eng.CallArgs(sends[0].Common())[1] == f.Params[1]
		}
		c.Check(ok, rule, fnName(f)+":one Send per subscriber", f.Pos(), "each matching subscriber gets exactly one synchronous Send of the message", "Publish does not call subscriber.Send(m) exactly once per subscriber in the lookup loop")
	}
	if f := fn(c, rule, "internal/broker", "Conn", "Send"); f != nil {
		enc := eng.Calls(f, false, M+"network/mqtt.Publish.EncodeTo")
		ok := len(enc) == 1 && !eng.InLoop(enc[0])
		if ok {
			_, isSock := eng.LoadOfField(eng.StripConv(eng.CallArgs(enc[0].Common())[1]), "socket")
			ok = isSock
		}
		c.Check(ok, rule, fnName(f)+":one packet per message", f.Pos(), "one PUBLISH packet is encoded to the connection's socket per message", "Conn.Send does not encode exactly one PUBLISH to c.socket")
	}
	_ = strings.TrimSpace
}
