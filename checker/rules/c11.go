package rules

import (
	"fmt"
	"go/token"
	"go/types"
	"strings"

	"golang.org/x/tools/go/ssa"

	"verif/checker/core"
	"verif/checker/eng"
)

const (
	idKeySetMaster      = M + "security.Key.SetMaster"
	idKeySetContract    = M + "security.Key.SetContract"
	idKeySetSignature   = M + "security.Key.SetSignature"
	idKeySetPermissions = M + "security.Key.SetPermissions"
	idKeySetPermission  = M + "security.Key.SetPermission"
	idKeySetExpires     = M + "security.Key.SetExpires"
	idKeySetTarget      = M + "security.Key.SetTarget"
	idKeyPermissions    = M + "security.Key.Permissions"
	idKeyMaster         = M + "security.Key.Master"
	idKeySignature      = M + "security.Key.Signature"
	idCreateKey         = M + "service/keygen.Service.CreateKey"
	idExtendKey         = M + "service/keygen.Service.ExtendKey"
)

func init() {
	register(&Prop{
		ID:  "C11",
		Run: runC11,
		Explanation: "Structural necessary conditions of 'derived keys never exceed their parent or the request': " +
			"(R1) CreateKey: EncryptKey is cut off by master key decrypts ∧ IsMaster ∧ ¬IsExpired ∧ contract found ∧ contract.Validate ∧ SetTarget ok; master id, contract and signature are copied from the master key's own getters; the target is the channel parameter, the expiry the expires parameter; the last permission write before encryption clears AllowMaster; " +
			"(R2) ExtendKey: everything is cut off by Authorize(AllowExtend); AllowExtend is cleared, permissions become Permissions() & access and no bit is set afterwards; expiry is the parameter; the target is built from the channel, the connection id and the suffix only; EncryptKey is cut off by SetTarget err == nil (a failed SetTarget leaves the parent's target in place); " +
			"(R3) bit subset: every access() helper can only OR the constants Read, Write, Store, Load, Presence, Extend, Execute — never AllowMaster; " +
			"(R4) sibling rule: every handler that authorises with AllowRead or AllowWrite tests HasPermission(AllowExtend) before any subscribe/publish/store/query effect; " +
			"(R5) keygen.OnRequest: the mint path only under IsMaster, the extend path only under HasPermission(AllowExtend), both under decrypts ∧ ¬IsExpired. " +
			"NOT decided: the runtime authority of the resulting key (target arithmetic, see C03).",
		Assumptions: []string{"security.Key setters write only their own field (checked for SetPermission/SetPermissions/Permissions by C11.R6)"},
	})
}

func runC11(c *core.Ctx) {
	c11R1(c)
	c11R2(c)
	c11R3(c)
	c11R4(c)
	c11R5(c)
	c11R6(c)
	saltRule(c, "C11.R7")
	jsonTargetRule(c, "C11.R8", "service/keygen")
	c03R8(c, "C11.R9")
	c11Form(c, "C11.R10")
}

// errNilPred: the error result (#idx) of call is nil.
func errNilPred(name string, call ssa.Value, idx int) eng.Pred {
	return eng.EqPred(name, true, func(x, y ssa.Value) bool {
		if !eng.IsNilConst(y) {
			return false
		}
		if idx < 0 {
			return x == call
		}
		return isExtractOf(x, call, idx)
	})
}

func c11R1(c *core.Ctx) {
	rule := "C11.R1"
	c.Rule(rule, "CreateKey: cipher.EncryptKey(key) only under DecryptKey(rawMasterKey) ok ∧ masterKey.IsMaster() ∧ ¬masterKey.IsExpired() ∧ loader.Get found ∧ contract.Validate(masterKey) ∧ SetTarget err==nil; SetMaster/SetContract/SetSignature(masterKey.getter()); SetTarget(channel param); SetExpires(expires param); SetPermissions(access param) followed by SetPermission(AllowMaster,false) with no later permission write", 12)
	f := fn(c, rule, "internal/service/keygen", "Service", "CreateKey")
	if f == nil {
		return
	}
	name := fnName(f)
	dec, _, why := resolveDecrypt(f)
	if dec == nil {
		c.Undecided(rule, name+":DecryptKey", f.Pos(), "cannot locate the master key decryption: "+why)
		return
	}
	mk := extractOf(dec, 0)
	isMK := func(v ssa.Value) bool { return mk != nil && eng.SameValue(v, mk) }
	encs := eng.Calls(f, false, idCipherEncrypt)
	gets := eng.Calls(f, false, idProviderGet)
	sts := eng.Calls(f, false, idKeySetTarget)
	if len(encs) != 1 || len(gets) != 1 || len(sts) != 1 {
		c.Fail(rule, name+":shape", f.Pos(), fmt.Sprintf("expected one EncryptKey, one loader.Get and one SetTarget, found %d/%d/%d", len(encs), len(gets), len(sts)))
		return
	}
	enc := encs[0]
	get := gets[0].(*ssa.Call)
	newKey := eng.CallArgs(enc.Common())[1]
	isNK := func(v ssa.Value) bool { return eng.SameValue(eng.StripConv(v), eng.StripConv(newKey)) }
	da := eng.CallArgs(&dec.Call)
	darg := da[len(da)-1]
	c.Check(darg == f.Params[1] || denotesParam(f, eng.StripConv(darg), f.Params[1], 0) || derivesFromParam(darg, f.Params[1]), rule, name+":decrypts the presented master key", dec.Pos(), "the key checked is the one presented", "the key decrypted is not the rawMasterKey parameter")
	preds := []eng.Pred{
		errNilPred("master key decrypts", dec, 1),
		eng.CallPred("masterKey.IsMaster()", idIsMaster, -1, true, func(a []ssa.Value) bool { return isMK(a[0]) }),
		eng.CallPred("!masterKey.IsExpired()", idIsExpired, -1, false, func(a []ssa.Value) bool { return isMK(a[0]) }),
		eng.ValuePred("contract found", extractOf(get, 1), true),
		eng.CallPred("contract.Validate(masterKey)", idContractValid, -1, true, func(a []ssa.Value) bool {
			return len(a) == 2 && eng.SameValue(a[0], extractOf(get, 0)) && isMK(a[1])
		}),
		errNilPred("SetTarget ok", sts[0].Value(), -1),
	}
	for _, p := range preds {
		g := eng.Guarded(enc, p)
		c.Count("guard_cuts", 1)
		c.Check(g.Guarded && g.Edges > 0, rule, name+":EncryptKey only if "+p.Name, enc.Pos(), "cut off by "+p.Name, "a key can be minted without "+p.Name)
	}
	ga := eng.CallArgs(&get.Call)
	c.Check(isCallOn(ga[1], idKeyContract, isMK), rule, name+":contract of the master key", get.Pos(), "the contract is looked up by the master key's contract id", "loader.Get is not called with masterKey.Contract()")
	// copies
	for _, cp := range []struct{ set, get, nm string }{{idKeySetMaster, idKeyMaster, "master id"}, {idKeySetContract, idKeyContract, "contract"}, {idKeySetSignature, idKeySignature, "signature"}} {
		calls := eng.Calls(f, false, cp.set)
		ok := len(calls) == 1
		if ok {
			a := eng.CallArgs(calls[0].Common())
			ok = isNK(a[0]) && isCallOn(a[1], cp.get, isMK) && eng.Dominates(calls[0], enc)
		}
		c.Check(ok, rule, name+":copies "+cp.nm, f.Pos(), "the new key keeps the master key's "+cp.nm, "the new key's "+cp.nm+" is not copied from the master key's own getter")
	}
	okT := isNK(eng.CallArgs(sts[0].Common())[0]) && eng.CallArgs(sts[0].Common())[1] == f.Params[2]
	c.Check(okT, rule, name+":target is the requested channel", sts[0].Pos(), "SetTarget(channel)", "SetTarget is not applied to the new key with the channel parameter")
	exps := eng.Calls(f, false, idKeySetExpires)
	okE := len(exps) == 1 && isNK(eng.CallArgs(exps[0].Common())[0]) && eng.CallArgs(exps[0].Common())[1] == f.Params[4] && eng.Dominates(exps[0], enc)
	c.Check(okE, rule, name+":expiry as requested", f.Pos(), "SetExpires(expires)", "SetExpires is not applied to the new key with the expires parameter")
	// permissions: SetPermissions(access) then SetPermission(AllowMaster,false), nothing after
	master := allowConst(c, "AllowMaster")
	var permWrites []ssa.CallInstruction
	eng.Instrs(f, func(in ssa.Instruction) {
		if eng.IsCallTo(in, idKeySetPermissions, idKeySetPermission) {
			permWrites = append(permWrites, in.(ssa.CallInstruction))
		}
	})
	okP := len(permWrites) == 2
	if okP {
		a0 := eng.CallArgs(permWrites[0].Common())
		a1 := eng.CallArgs(permWrites[1].Common())
		k, isC := eng.ConstInt(a1[1])
		b, isB := constBoolOf(a1[2%len(a1)])
		okP = eng.FuncID(eng.CalleeObj(permWrites[0].Common())) == idKeySetPermissions && a0[1] == f.Params[3] && isNK(a0[0]) &&
			eng.FuncID(eng.CalleeObj(permWrites[1].Common())) == idKeySetPermission && len(a1) == 3 && isC && k == master && isB && !b && isNK(a1[0]) &&
			eng.Dominates(permWrites[0], permWrites[1]) && eng.Dominates(permWrites[1], enc)
	}
	c.Check(okP, rule, name+":master bit cleared last", f.Pos(), "permissions = requested access with AllowMaster cleared afterwards", "the permission writes are not SetPermissions(access) followed by SetPermission(AllowMaster,false) before encryption (a minted key could carry the master permission)")
}

func derivesFromParam(v ssa.Value, p ssa.Value) bool {
	for d := 0; d < 5 && v != nil; d++ {
		if v == p {
			return true
		}
		switch x := v.(type) {
		case *ssa.Convert:
			v = x.X
		case *ssa.ChangeType:
			v = x.X
		case *ssa.Slice:
			v = x.X
		default:
			return false
		}
	}
	return false
}

func c11R2(c *core.Ctx) {
	rule := "C11.R2"
	c.Rule(rule, "ExtendKey: every key mutation and EncryptKey only under Authorize(AllowExtend).allowed; SetPermission(AllowExtend,false) then SetPermissions(Permissions() & access), no later permission write; SetExpires(expires param); SetTarget(Sprintf(\"%s%s/%s\", channel.Channel, connectionID, suffix)); EncryptKey only under SetTarget err == nil", 8)
	f := fn(c, rule, "internal/service/keygen", "Service", "ExtendKey")
	if f == nil {
		return
	}
	name := fnName(f)
	var site *authSite
	sites := authorizeSites(c)
	for i := range sites {
		if sites[i].fn == f {
			site = &sites[i]
		}
	}
	if site == nil || site.key == nil || site.allowed == nil {
		c.Fail(rule, name+":authorises", f.Pos(), "ExtendKey does not call Authorize or ignores its results")
		return
	}
	key := site.key
	isK := func(v ssa.Value) bool { return eng.SameValue(eng.StripConv(v), key) }
	allowed := eng.ValuePred("allowed", site.allowed, true)
	encs := eng.Calls(f, false, idCipherEncrypt)
	sts := eng.Calls(f, false, idKeySetTarget)
	if len(encs) != 1 || len(sts) != 1 {
		c.Fail(rule, name+":shape", f.Pos(), fmt.Sprintf("expected one EncryptKey and one SetTarget, found %d/%d", len(encs), len(sts)))
		return
	}
	enc := encs[0]
	c.Check(isK(eng.CallArgs(enc.Common())[1]), rule, name+":encrypts the authorised key", enc.Pos(), "the key encrypted is the one returned by Authorize (restricted in place)", "the key encrypted is not the authorised parent key")
	var muts []ssa.CallInstruction
	eng.Instrs(f, func(in ssa.Instruction) {
		if eng.IsCallTo(in, idKeySetPermissions, idKeySetPermission, idKeySetExpires, idKeySetTarget, idKeySetMaster, idKeySetContract, idKeySetSignature) {
			muts = append(muts, in.(ssa.CallInstruction))
		}
	})
	for i, m := range append(muts, enc) {
		g := eng.Guarded(m, allowed)
		c.Count("guard_cuts", 1)
		c.Check(g.Guarded && g.Edges > 0, rule, fmt.Sprintf("%s:%s#%d only if allowed", name, shortT(eng.FuncID(eng.CalleeObj(m.Common()))), i), m.Pos(), "cut off by Authorize(AllowExtend)", "the parent key is modified/encrypted without Authorize(AllowExtend) having succeeded")
	}
	g := eng.Guarded(enc, errNilPred("SetTarget ok", sts[0].Value(), -1))
	c.Check(g.Guarded && g.Edges > 0, rule, name+":EncryptKey only if SetTarget ok", enc.Pos(), "a key whose target could not be set is never handed out", "EncryptKey is reachable although SetTarget returned an error: the key keeps the parent's (wider) target")
	// permission writes
	ext := allowConst(c, "AllowExtend")
	var permWrites []ssa.CallInstruction
	for _, m := range muts {
		id := eng.FuncID(eng.CalleeObj(m.Common()))
		if id == idKeySetPermissions || id == idKeySetPermission {
			permWrites = append(permWrites, m)
		}
	}
	okP := len(permWrites) == 2
	if okP {
		a0 := eng.CallArgs(permWrites[0].Common())
		a1 := eng.CallArgs(permWrites[1].Common())
		okP = eng.FuncID(eng.CalleeObj(permWrites[0].Common())) == idKeySetPermission && len(a0) == 3 && isK(a0[0])
		if okP {
			k, isC := eng.ConstInt(a0[1])
			b, isB := constBoolOf(a0[2])
			okP = isC && k == ext && isB && !b
		}
		if okP {
			okP = eng.FuncID(eng.CalleeObj(permWrites[1].Common())) == idKeySetPermissions && isK(a1[0])
			bo, isB := a1[1].(*ssa.BinOp)
			okP = okP && isB && bo.Op == token.AND
			if okP {
				x, y := bo.X, bo.Y
				access := f.Params[4]
				okP = (isCallOn(x, idKeyPermissions, isK) && y == access) || (isCallOn(y, idKeyPermissions, isK) && x == access)
			}
		}
		okP = okP && eng.Dominates(permWrites[0], permWrites[1]) && eng.Dominates(permWrites[1], enc)
	}
	c.Check(okP, rule, name+":permissions only shrink", f.Pos(), "AllowExtend cleared, then permissions = Permissions() & access, nothing afterwards", "the permission writes are not SetPermission(AllowExtend,false) followed by SetPermissions(Permissions() & access) (a derived key could exceed its parent or the request)")
	exps := eng.Calls(f, false, idKeySetExpires)
	okE := len(exps) == 1 && isK(eng.CallArgs(exps[0].Common())[0]) && eng.CallArgs(exps[0].Common())[1] == f.Params[5]
	c.Check(okE, rule, name+":expiry as requested", f.Pos(), "SetExpires(expires)", "SetExpires is not applied with the expires parameter")
	// target composition
	okT := false
	ta := eng.CallArgs(sts[0].Common())
	if call, ok := ta[1].(*ssa.Call); ok && eng.FuncID(eng.CalleeObj(&call.Call)) == "fmt.Sprintf" {
		if k, ok := call.Call.Args[0].(*ssa.Const); ok && k.Value != nil && k.Value.ExactString() == `"%s%s/%s"` {
			// variadic slice elements
			var elems []ssa.Value
			if sl, ok := call.Call.Args[1].(*ssa.Slice); ok {
				if al, ok := sl.X.(*ssa.Alloc); ok {
					if refs := al.Referrers(); refs != nil {
						idx := map[int64]ssa.Value{}
						for _, r := range *refs {
							if ia, ok := r.(*ssa.IndexAddr); ok {
								i, _ := eng.ConstInt(ia.Index)
								if irefs := ia.Referrers(); irefs != nil {
									for _, ir := range *irefs {
										if st, ok := ir.(*ssa.Store); ok {
											idx[i] = eng.StripConv(st.Val)
										}
									}
								}
							}
						}
						for i := int64(0); i < 3; i++ {
							elems = append(elems, idx[i])
						}
					}
				}
			}
			if len(elems) == 3 && elems[0] != nil && elems[1] != nil && elems[2] != nil {
				_, isCh := eng.LoadOfField(elems[0], "Channel")
				isConn := elems[1] == f.Params[3]
				okT = isCh && isConn && isK(ta[0])
			}
		}
	}
	c.Check(okT, rule, name+":target is channel + connection id", sts[0].Pos(), "the extended key targets only <channel><connection id>/<suffix>", "SetTarget is not applied to Sprintf(\"%s%s/%s\", channel.Channel, connectionID, suffix)")
}

func c11R3(c *core.Ctx) {
	rule := "C11.R3"
	c.Rule(rule, "bit subset: every function named access in the keygen package returns a value that is 0 OR-ed only with constants from {AllowRead, AllowWrite, AllowStore, AllowLoad, AllowPresence, AllowExtend, AllowExecute}", 2)
	pk := c.P.SSAPkg("internal/service/keygen")
	if pk == nil {
		c.Undecided(rule, "anchor:keygen", token.NoPos, "package missing")
		return
	}
	allowedBits := int64(0)
	for _, n := range []string{"AllowRead", "AllowWrite", "AllowStore", "AllowLoad", "AllowPresence", "AllowExtend", "AllowExecute"} {
		allowedBits |= allowConst(c, n)
	}
	n := 0
	for _, f := range c.P.ScopeFuncs() {
		if f.Pkg != pk || f.Name() != "access" {
			continue
		}
		n++
		ok := true
		bad := ""
		// every value that flows into the result: consts and ORs of consts
		var visit func(v ssa.Value, d int)
		seen := map[ssa.Value]bool{}
		visit = func(v ssa.Value, d int) {
			if v == nil || seen[v] || d > 40 {
				return
			}
			seen[v] = true
			switch x := v.(type) {
			case *ssa.Const:
				k, isC := eng.ConstInt(x)
				if !isC || k&^allowedBits != 0 {
					ok = false
					bad = x.String()
				}
			case *ssa.Phi:
				for _, e := range x.Edges {
					visit(e, d+1)
				}
			case *ssa.BinOp:
				if x.Op != token.OR {
					ok = false
					bad = x.String()
					return
				}
				visit(x.X, d+1)
				visit(x.Y, d+1)
			case *ssa.Convert:
				visit(x.X, d+1)
			default:
				ok = false
				bad = v.String()
			}
		}
		for _, rv := range eng.ResultValues(f, 0) {
			visit(rv, 0)
		}
		c.Check(ok, rule, fnName(f)+":only non-master bits", f.Pos(), "the requested access can never contain AllowMaster", "access() can produce a bit outside {r,w,s,l,p,e,x} (e.g. AllowMaster) or is not a pure OR of constants: "+bad)
	}
	if n < 2 {
		c.Fail(rule, "access helpers", token.NoPos, fmt.Sprintf("expected the access() helpers of Request and keygenForm, found %d", n))
	}
}

func c11R4(c *core.Ctx) {
	rule := "C11.R4"
	c.Rule(rule, "sibling rule: in every function that calls Authorize with AllowRead or AllowWrite, each subscribe/unsubscribe/publish/store/query/send effect is cut off by HasPermission(AllowExtend)=false on the authorised key", 8)
	rd, wr := allowConst(c, "AllowRead"), allowConst(c, "AllowWrite")
	for _, s := range authorizeSites(c) {
		if !s.permOK || (s.perm != rd && s.perm != wr) {
			continue
		}
		fname := relFn(s.fn)
		pred := notExtendPred(c, s.key)
		n := 0
		for _, call := range eng.Calls(s.fn, false, effectIDs...) {
			n++
			g := eng.Guarded(call, pred)
			c.Count("guard_cuts", 1)
			eid := shortT(eng.FuncID(eng.CalleeObj(call.Common())))
			if g.Guarded && g.Edges > 0 {
				c.OK(rule, fname+":"+eid+" not with an extendable key", call.Pos(), "cut off by !HasPermission(AllowExtend)")
			} else {
				c.Fail(rule, fname+":"+eid+" not with an extendable key", call.Pos(), "a key carrying the extend permission can be used directly to "+eid+" (its siblings refuse with ErrUnauthorizedExt)", g.Witness...)
			}
		}
		if n == 0 {
			c.Fail(rule, fname+":no effect", s.call.Pos(), "no effect call found")
		}
	}
}

func c11R5(c *core.Ctx) {
	rule := "C11.R5"
	c.Rule(rule, "keygen.OnRequest: CreateKey only under parent key decrypts ∧ ¬IsExpired ∧ IsMaster; ExtendKey only under decrypts ∧ ¬IsExpired ∧ HasPermission(AllowExtend); both receive the request's own key/channel/access()/expires()", 6)
	f := fn(c, rule, "internal/service/keygen", "Service", "OnRequest")
	if f == nil {
		return
	}
	name := fnName(f)
	dec, _, why := resolveDecrypt(f)
	if dec == nil {
		c.Undecided(rule, name+":DecryptKey", f.Pos(), "cannot locate the parent key decryption: "+why)
		return
	}
	pk := extractOf(dec, 0)
	isPK := func(v ssa.Value) bool { return pk != nil && eng.SameValue(v, pk) }
	common := []eng.Pred{
		errNilPred("parent key decrypts", dec, 1),
		eng.CallPred("!parentKey.IsExpired()", idIsExpired, -1, false, func(a []ssa.Value) bool { return isPK(a[0]) }),
	}
	for _, k := range []struct {
		id   string
		pred eng.Pred
	}{
		{idCreateKey, eng.CallPred("parentKey.IsMaster()", idIsMaster, -1, true, func(a []ssa.Value) bool { return isPK(a[0]) })},
		{idExtendKey, hasPermPred(c, pk, "AllowExtend", true)},
	} {
		calls := eng.Calls(f, false, k.id)
		if len(calls) != 1 {
			c.Fail(rule, name+":"+shortT(k.id), f.Pos(), fmt.Sprintf("expected one %s call, found %d", shortT(k.id), len(calls)))
			continue
		}
		for _, p := range append(append([]eng.Pred{}, common...), k.pred) {
			g := eng.Guarded(calls[0], p)
			c.Count("guard_cuts", 1)
			c.Check(g.Guarded && g.Edges > 0, rule, name+":"+shortT(k.id)+" only if "+p.Name, calls[0].Pos(), "cut off by "+p.Name, shortT(k.id)+" is reachable without "+p.Name)
		}
	}
	_ = strings.TrimSpace
	_ = types.Typ
}

// c11R6: the permission accessors touch exactly byte 15.
func c11R6(c *core.Ctx) {
	rule := "C11.R6"
	c.Rule(rule, "Key.Permissions reads k[15], SetPermissions writes k[15]; SetPermission(flag,true) = Permissions()|flag, (flag,false) = Permissions()&^flag; HasPermission ≡ (p & flag) == flag; IsMaster ≡ Permissions() == AllowMaster", 4)
	if f := fn(c, rule, "internal/security", "Key", "Permissions"); f != nil {
		ok := false
		for _, rv := range eng.ResultValues(f, 0) {
			if u, isU := rv.(*ssa.UnOp); isU {
				if ia, isIA := u.X.(*ssa.IndexAddr); isIA && ia.X == f.Params[0] {
					if k, isC := eng.ConstInt(ia.Index); isC && k == 15 {
						ok = true
					}
				}
			}
		}
		c.Check(ok, rule, fnName(f)+":byte 15", f.Pos(), "permissions live in byte 15", "Permissions does not read k[15]")
	}
	if f := fn(c, rule, "internal/security", "Key", "SetPermissions"); f != nil {
		ok := false
		eng.Instrs(f, func(in ssa.Instruction) {
			if st, isSt := in.(*ssa.Store); isSt {
				if ia, isIA := st.Addr.(*ssa.IndexAddr); isIA && ia.X == f.Params[0] && st.Val == f.Params[1] {
					if k, isC := eng.ConstInt(ia.Index); isC && k == 15 {
						ok = true
					}
				}
			}
		})
		c.Check(ok, rule, fnName(f)+":byte 15", f.Pos(), "k[15] = value", "SetPermissions does not write its argument to k[15]")
	}
	if f := fn(c, rule, "internal/security", "Key", "SetPermission"); f != nil {
		calls := eng.Calls(f, false, idKeySetPermissions)
		okOr, okAndNot := false, false
		val := eng.ValuePred("value", f.Params[2], true)
		for _, cl := range calls {
			a := eng.CallArgs(cl.Common())
			bo, isB := a[1].(*ssa.BinOp)
			if !isB {
				continue
			}
			isPerm := func(v ssa.Value) bool { return isCallOn(v, idKeyPermissions, func(r ssa.Value) bool { return r == f.Params[0] }) }
			if bo.Op == token.OR && ((isPerm(bo.X) && bo.Y == f.Params[1]) || (isPerm(bo.Y) && bo.X == f.Params[1])) {
				if g := eng.Guarded(cl, val); g.Guarded && g.Edges > 0 {
					okOr = true
				}
			}
			if bo.Op == token.AND_NOT && isPerm(bo.X) && bo.Y == f.Params[1] {
				neg := eng.ValuePred("!value", f.Params[2], false)
				if g := eng.Guarded(cl, neg); g.Guarded && g.Edges > 0 {
					okAndNot = true
				}
			}
		}
		c.Check(okOr && okAndNot && len(calls) == 2, rule, fnName(f)+":set/clear one flag", f.Pos(), "true sets exactly the flag, false clears exactly the flag", "SetPermission is not `value ? p|flag : p&^flag`")
	}
	if f := fn(c, rule, "internal/security", "Key", "HasPermission"); f != nil {
		ok := false
		for _, rv := range eng.ResultValues(f, 0) {
			a := eng.Normalize(rv)
			if a.Op == token.EQL && !a.Neg {
				for _, pr := range [][2]ssa.Value{{a.X, a.Y}, {a.Y, a.X}} {
					if bo, isB := pr[0].(*ssa.BinOp); isB && bo.Op == token.AND && pr[1] == f.Params[1] && (bo.X == f.Params[1] || bo.Y == f.Params[1]) {
						ok = true
					}
				}
			}
		}
		c.Check(ok, rule, fnName(f)+":all bits of the flag", f.Pos(), "(p & flag) == flag", "HasPermission is not (Permissions() & flag) == flag")
	}
}

// c11Form: the permissions of a key minted through the HTTP form come from the posted form
// alone. keygenForm.parse assigns each of Sub/Pub/Store/Load/Presence/Extend from a value that
// is a constant or computed from the request (req.FormValue …), never from the form object's
// previous contents (the page handler pre-sets Sub: true for the GET view) nor from any other
// state: "a minted key never has a permission that was not requested".
func c11Form(c *core.Ctx, rule string) {
	c.Rule(rule, "keygenForm.parse: every permission flag (Sub, Pub, Store, Load, Presence, Extend) is assigned, on every path to return, a value that is a constant or derived from the request only — not from the form's previous state", 6)
	f := fn(c, rule, "internal/service/keygen", "keygenForm", "parse")
	if f == nil {
		return
	}
	var fromReq func(g *ssa.Function, v ssa.Value, d int) (bool, string)
	fromReq = func(g *ssa.Function, v ssa.Value, d int) (bool, string) {
		if d > 10 {
			return false, "too deep"
		}
		switch x := v.(type) {
		case *ssa.Const:
			return true, ""
		case *ssa.Extract:
			return fromReq(g, x.Tuple, d+1)
		case *ssa.Phi:
			for _, e := range x.Edges {
				if ok, why := fromReq(g, e, d+1); !ok {
					return false, why
				}
			}
			return true, ""
		case *ssa.BinOp:
			a, wa := fromReq(g, x.X, d+1)
			b, wb := fromReq(g, x.Y, d+1)
			if a && b {
				return true, ""
			}
			return false, wa + wb
		case *ssa.UnOp:
			if x.Op == token.MUL {
				return false, "read of " + eng.Describe(x) + " (state that predates the request)"
			}
			return fromReq(g, x.X, d+1)
		case *ssa.Convert:
			return fromReq(g, x.X, d+1)
		case *ssa.Parameter:
			if x.Type().String() == "string" {
				return true, "" // the name of the form field
			}
			return false, "parameter " + x.Name() + " of " + g.Name() + " (a value handed in by the caller, e.g. the field's previous content)"
		case *ssa.Call:
			id := eng.FuncID(eng.CalleeObj(&x.Call))
			if strings.HasPrefix(id, "net/http.Request.") || strings.HasPrefix(id, "strconv.") || strings.HasPrefix(id, "strings.") || strings.HasPrefix(id, "net/url.") {
				return true, ""
			}
			// closure or in-package helper: every result it can return must qualify
			var callee *ssa.Function
			if fv, _ := eng.FuncValue(x.Call.Value); fv != nil {
				callee = fv
			} else if sc := x.Call.StaticCallee(); sc != nil {
				callee = sc
			}
			if callee != nil && callee.Blocks != nil {
				// arguments handed in must qualify too (they may be returned)
				for _, a := range x.Call.Args {
					if _, isStr := a.Type().Underlying().(*types.Basic); isStr && a.Type().String() == "string" {
						continue
					}
					if ok, why := fromReq(g, a, d+1); !ok {
						return false, "argument of " + callee.Name() + ": " + why
					}
				}
				okAll := true
				why := ""
				eng.Instrs(callee, func(in ssa.Instruction) {
					if ret, isRet := in.(*ssa.Return); isRet {
						for _, r := range ret.Results {
							if ok, w := fromReq(callee, r, d+1); !ok && okAll {
								okAll, why = false, w
							}
						}
					}
				})
				return okAll, why
			}
			return false, "result of " + id
		}
		return false, eng.Describe(v)
	}
	seen := map[string]bool{}
	eng.Instrs(f, func(in ssa.Instruction) {
		st, ok := in.(*ssa.Store)
		if !ok {
			return
		}
		fa, ok := st.Addr.(*ssa.FieldAddr)
		if !ok {
			return
		}
		owner, fl, base, ok := eng.FieldOf(fa)
		if !ok || !strings.HasSuffix(owner, "keygenForm") || base != ssa.Value(f.Params[0]) {
			return
		}
		switch fl {
		case "Sub", "Pub", "Store", "Load", "Presence", "Extend":
		default:
			return
		}
		seen[fl] = true
		okV, why := fromReq(f, st.Val, 0)
		c.Check(okV, rule, fnName(f)+":"+fl+" from the request only", st.Pos(), "the flag is a constant or computed from the posted form", "the "+fl+" flag of the key-generation form can take a value that does not come from the request ("+why+"): a field the browser does not post (an unticked box) keeps what the form object held, e.g. the Sub: true the page handler pre-sets, and the minted key carries a permission nobody asked for")
	})
	for _, fl := range []string{"Sub", "Pub", "Store", "Load", "Presence", "Extend"} {
		if !seen[fl] {
			c.Fail(rule, fnName(f)+":"+fl+" assigned", f.Pos(), "parse no longer assigns the "+fl+" flag: it keeps its previous value")
		}
	}
}
