package rules

import (
	"fmt"
	"go/token"

	"golang.org/x/tools/go/ssa"

	"verif/checker/core"
	"verif/checker/eng"
)

func init() {
	register(&Prop{
		ID:  "C17",
		Run: runC17,
		Explanation: "Structural necessary conditions of 'transport adapters deliver the byte stream unchanged': " +
			"(R1) write side: the queue is lock-guarded, Flush writes and resets it in one critical section, Conn.Write consumes its argument exactly once and whole (shared with C10.R1/R2); " +
			"(R2) sniffer.Read: replay copies buffer[bufferRead:bufferSize], advances bufferRead by exactly the copy result and returns that count; a source read is passed the caller's buffer, is appended to the sniff buffer as p[:n] exactly when n>0 ∧ sniffing, and its (n, err) are returned; reset rewinds bufferRead to 0, snapshots bufferSize = buffer.Len() and sets the mode; " +
			"(R3) Listener.serve: every matcher is given startSniffing() of the connection, and on the matched path doneSniffing() precedes the hand-off to the matched listener (otherwise the bytes a matcher consumed are lost to the MQTT decoder); " +
			"(R4) websocketTransport.Read drops the current message reader exactly on io.EOF (never on a short read), takes the next reader only when none is current, skips non-data frames, and reads into the caller's buffer; Write is one message per call under the mutex (C10.R5). " +
			"NOT decided: index arithmetic for every chunking, bufio interplay.",
		Assumptions: []string{"bytes.Buffer and gorilla/websocket reader contracts"},
	})
}

func runC17(c *core.Ctx) {
	c.Rule("C17.R1", "write queue: guarded-by Conn.RWMutex; Flush writes writer.Bytes() and resets under one write-locked section; Conn.Write consumes its argument exactly once, whole", 7)
	lockRule(c, "C17.R1", []string{tLConn}, nil)
	c10Flush(c, "C17.R1")
	c10R2(c, "C17.R1b")
	c17R2(c)
	c17R3(c)
	c17R4(c)
	c10R5(c, "C17.R5")
}

func c17R2(c *core.Ctx) {
	rule := "C17.R2"
	c.Rule(rule, "sniffer.Read and reset: replay = copy(p, buffer.Bytes()[bufferRead:bufferSize]) under bufferSize>bufferRead, bufferRead += that count, return that count; source.Read(p) result appended as p[:n] exactly under n>0 ∧ sniffing and returned; reset: sniffing=arg, bufferRead=0, bufferSize=buffer.Len()", 6)
	f := fn(c, rule, "internal/network/listener", "sniffer", "Read")
	if f == nil {
		return
	}
	name := fnName(f)
	s, p := f.Params[0], f.Params[1]
	fld := func(v ssa.Value, name string) bool {
		b, ok := eng.LoadOfField(v, name)
		return ok && b == s
	}
	// replay
	var cp *ssa.Call
	eng.Instrs(f, func(in ssa.Instruction) {
		if _, ok := eng.IsBuiltinCall(in, "copy"); ok {
			cp = in.(*ssa.Call)
		}
	})
	okReplay := cp != nil
	if okReplay {
		a := cp.Call.Args
		sl, isSl := a[1].(*ssa.Slice)
		okReplay = a[0] == p && isSl && fld(sl.Low, "bufferRead") && fld(sl.High, "bufferSize")
		if okReplay {
			call, isCall := sl.X.(*ssa.Call)
			okReplay = isCall && eng.FuncID(eng.CalleeObj(&call.Call)) == idBufBytes
		}
		pending := eng.LtPred("bufferRead < bufferSize", true, func(x, y ssa.Value) bool { return fld(x, "bufferRead") && fld(y, "bufferSize") })
		g := eng.Guarded(cp, pending)
		okReplay = okReplay && g.Guarded && g.Edges > 0
		ok2, _ := eng.MustFollow(f, []eng.Pred{pending}, func(i ssa.Instruction) bool { return i == ssa.Instruction(cp) })
		okReplay = okReplay && ok2
	}
	c.Check(okReplay, rule, name+":replays the sniffed window", f.Pos(), "pending sniffed bytes are replayed from buffer[bufferRead:bufferSize] before the source is read", "the replay is not copy(p, buffer.Bytes()[bufferRead:bufferSize]) exactly when bufferSize > bufferRead")
	if cp != nil {
		adv := false
		eng.Instrs(f, func(in ssa.Instruction) {
			st, ok := in.(*ssa.Store)
			if !ok {
				return
			}
			if b, ok := eng.AddrOfField(st.Addr, "bufferRead"); ok && b == s {
				if bo, ok := st.Val.(*ssa.BinOp); ok && bo.Op == token.ADD {
					if (fld(bo.X, "bufferRead") && bo.Y == ssa.Value(cp)) || (fld(bo.Y, "bufferRead") && bo.X == ssa.Value(cp)) {
						adv = eng.Dominates(cp, st)
					}
				}
			}
		})
		retOK := false
		eng.Instrs(f, func(in ssa.Instruction) {
			if ret, ok := in.(*ssa.Return); ok && ret.Results[0] == ssa.Value(cp) {
				retOK = true
			}
		})
		c.Check(adv && retOK, rule, name+":advances by the bytes copied", cp.Pos(), "bufferRead advances by exactly the count returned", "bufferRead is not advanced by exactly the copy result that is returned (bytes would be replayed twice or skipped)")
	}
	// source read
	var rd *ssa.Call
	eng.Instrs(f, func(in ssa.Instruction) {
		if call, ok := in.(*ssa.Call); ok && call.Call.IsInvoke() && call.Call.Method.Name() == "Read" {
			if fld(call.Call.Value, "source") {
				rd = call
			}
		}
	})
	if rd == nil {
		c.Fail(rule, name+":source read", f.Pos(), "no source.Read call")
		return
	}
	n := extractOf(rd, 0)
	c.Check(rd.Call.Args[0] == p, rule, name+":reads into the caller's buffer", rd.Pos(), "source.Read(p)", "the source is not read into the caller's buffer")
	ws := eng.Calls(f, false, idBufWrite)
	okApp := len(ws) == 1
	if okApp {
		a := eng.CallArgs(ws[0].Common())
		sl, isSl := a[1].(*ssa.Slice)
		okApp = isSl && sl.X == p && sl.Low == nil && sl.High == n
		if b, ok := eng.AddrOfField(a[0], "buffer"); !ok || b != s {
			okApp = false
		}
		pos := eng.LtPred("n > 0", true, func(x, y ssa.Value) bool { k, ok := eng.ConstInt(x); return ok && k == 0 && y == n })
		sn := eng.Pred{Name: "sniffing", Match: func(a eng.Atom) (bool, bool) {
			if a.Op == token.ILLEGAL && fld(a.V, "sniffing") {
				return true, true
			}
			return false, false
		}}
		// only the sniffing test that follows the read counts
		snAfter := eng.Pred{Name: sn.Name, Match: func(a eng.Atom) (bool, bool) {
			w, ok := sn.Match(a)
			if !ok {
				return false, false
			}
			if in, isIn := a.V.(ssa.Instruction); isIn && !eng.Dominates(rd, in) {
				return false, false
			}
			return w, true
		}}
		g1, g2 := eng.Guarded(ws[0], pos), eng.Guarded(ws[0], snAfter)
		okApp = okApp && g1.Guarded && g1.Edges > 0 && g2.Guarded && g2.Edges > 0
		ok2, _ := eng.MustFollow(f, []eng.Pred{pos, snAfter}, func(i ssa.Instruction) bool { return i == ws[0].(ssa.Instruction) })
		okApp = okApp && ok2
	}
	c.Check(okApp, rule, name+":records what was sniffed", f.Pos(), "while sniffing, every non-empty source read is appended to the buffer as p[:n]", "bytes read from the source while sniffing are not appended as p[:n] exactly under n>0 ∧ sniffing (they would be lost to the real reader)")
	// returns n, err of the source read on the normal path
	retSrc := false
	eng.Instrs(f, func(in ssa.Instruction) {
		if ret, ok := in.(*ssa.Return); ok && ret.Results[0] == n && isExtractOf(ret.Results[1], rd, 1) {
			retSrc = true
		}
	})
	c.Check(retSrc, rule, name+":returns the source result", rd.Pos(), "(n, err) of the source read are returned unchanged", "the source read's (n, err) are not returned unchanged")
	if g := fn(c, rule, "internal/network/listener", "sniffer", "reset"); g != nil {
		got := map[string]ssa.Value{}
		eng.Instrs(g, func(in ssa.Instruction) {
			if st, ok := in.(*ssa.Store); ok {
				if fa, ok := st.Addr.(*ssa.FieldAddr); ok && fa.X == g.Params[0] {
					_, fl, _, _ := eng.FieldOf(fa)
					got[fl] = st.Val
				}
			}
		})
		k0, isC := eng.ConstInt(got["bufferRead"])
		okReset := got["sniffing"] == g.Params[1] && isC && k0 == 0 && isCallOn(got["bufferSize"], idBufLen, nil)
		c.Check(okReset, rule, fnName(g)+":rewinds", g.Pos(), "reset: sniffing=mode, bufferRead=0, bufferSize=buffer.Len()", "sniffer.reset does not rewind to 0 and snapshot the buffered length")
	}
}

func c17R3(c *core.Ctx) {
	rule := "C17.R3"
	c.Rule(rule, "Listener.serve: each matcher is called with muc.startSniffing(); on the matched path doneSniffing() on the same connection precedes the hand-off (select/send of the connection) and always happens; startSniffing/doneSniffing are reset(true)/reset(false)", 4)
	f := fn(c, rule, "internal/network/listener", "Listener", "serve")
	if f == nil {
		return
	}
	name := fnName(f)
	starts := eng.Calls(f, false, M+"network/listener.Conn.startSniffing")
	dones := eng.Calls(f, false, M+"network/listener.Conn.doneSniffing")
	// matcher call: dynamic call whose argument is the startSniffing result
	var matcher *ssa.Call
	eng.Instrs(f, func(in ssa.Instruction) {
		call, ok := in.(*ssa.Call)
		if !ok || call.Call.IsInvoke() || call.Call.StaticCallee() != nil {
			return
		}
		for _, s := range starts {
			if len(call.Call.Args) == 1 && eng.StripConv(call.Call.Args[0]) == s.Value() {
				matcher = call
			}
		}
	})
	c.Check(matcher != nil && len(starts) == 1 && eng.InLoop(starts[0]), rule, name+":matchers read through the sniffer", f.Pos(), "every matcher gets a freshly rewound sniffing reader", "matchers are not invoked on muc.startSniffing() (each matcher must start from the first byte)")
	if matcher == nil || len(dones) != 1 {
		c.Fail(rule, name+":doneSniffing", f.Pos(), fmt.Sprintf("expected one doneSniffing call, found %d", len(dones)))
		return
	}
	matched := eng.ValuePred("matched", matcher, true)
	g := eng.Guarded(dones[0], matched)
	ok2, w := eng.MustFollow(f, []eng.Pred{matched}, func(i ssa.Instruction) bool { return i == dones[0].(ssa.Instruction) })
	c.Check(g.Guarded && g.Edges > 0 && ok2, rule, name+":doneSniffing iff matched", dones[0].Pos(), "the connection is rewound to replay mode exactly when a matcher accepted it", fmt.Sprintf("doneSniffing is not called exactly on the matched path: %v", w))
	// before hand-off
	var handoff []ssa.Instruction
	eng.Instrs(f, func(in ssa.Instruction) {
		switch x := in.(type) {
		case *ssa.Select:
			for _, st := range x.States {
				if st.Dir == 1 { // types.SendOnly
					handoff = append(handoff, in)
				}
			}
		case *ssa.Send:
			handoff = append(handoff, in)
		}
	})
	okOrder := len(handoff) >= 1
	for _, h := range handoff {
		if !eng.Dominates(dones[0], h) {
			okOrder = false
		}
	}
	c.Check(okOrder, rule, name+":rewind before hand-off", dones[0].Pos(), "the matched listener receives a connection that replays the sniffed bytes first", "the connection is handed to the matched listener before doneSniffing() (or no hand-off found): the bytes consumed by the matchers are lost")
	for _, pr := range []struct {
		m    string
		mode bool
	}{{"startSniffing", true}, {"doneSniffing", false}} {
		g := fn(c, rule, "internal/network/listener", "Conn", pr.m)
		if g == nil {
			continue
		}
		rs := eng.Calls(g, false, M+"network/listener.sniffer.reset")
		ok := len(rs) == 1
		if ok {
			b, isC := constBoolOf(eng.CallArgs(rs[0].Common())[1])
			ok = isC && b == pr.mode
		}
		c.Check(ok, rule, fnName(g)+":reset mode", g.Pos(), fmt.Sprintf("%s = reader.reset(%v)", pr.m, pr.mode), fmt.Sprintf("%s does not call reader.reset(%v)", pr.m, pr.mode))
	}
}

func c17R4(c *core.Ctx) {
	rule := "C17.R4"
	c.Rule(rule, "websocketTransport.Read: c.reader = nil only under err == io.EOF; NextReader only under c.reader == nil; c.reader = r only for Binary/Text frames; the data read is reader.Read(b) into the caller's buffer and its n is returned; io.EOF is turned into nil", 4)
	f := fn(c, rule, "internal/network/websocket", "websocketTransport", "Read")
	if f == nil {
		return
	}
	name := fnName(f)
	recv, b := f.Params[0], f.Params[1]
	var rd *ssa.Call
	eng.Instrs(f, func(in ssa.Instruction) {
		if call, ok := in.(*ssa.Call); ok && call.Call.IsInvoke() && call.Call.Method.Name() == "Read" {
			if base, ok := eng.LoadOfField(call.Call.Value, "reader"); ok && base == recv {
				rd = call
			}
		}
	})
	if rd == nil {
		c.Fail(rule, name+":message read", f.Pos(), "no read from the current message reader")
		return
	}
	okRead := rd.Call.Args[0] == b
	for _, rv := range eng.ResultValues(f, 0) {
		if k, isC := eng.ConstInt(rv); isC && k == 0 {
			continue
		}
		if !isExtractOf(rv, rd, 0) {
			okRead = false
		}
	}
	c.Check(okRead, rule, name+":reads into the caller's buffer", rd.Pos(), "n bytes of the current message land in b and n is returned", "the message reader is not read into the caller's buffer with its own count returned")
	isEOF := eng.EqPred("err == io.EOF", true, func(x, y ssa.Value) bool {
		if !isExtractOf(x, rd, 1) {
			return false
		}
		u, ok := y.(*ssa.UnOp)
		if !ok {
			return false
		}
		g, ok := u.X.(*ssa.Global)
		return ok && g.Name() == "EOF" && g.Pkg.Pkg.Path() == "io"
	})
	nNil, nSet := 0, 0
	eng.Instrs(f, func(in ssa.Instruction) {
		st, ok := in.(*ssa.Store)
		if !ok {
			return
		}
		if base, ok := eng.AddrOfField(st.Addr, "reader"); !ok || base != recv {
			return
		}
		if eng.IsNilConst(st.Val) {
			nNil++
			g := eng.Guarded(st, isEOF)
			c.Check(g.Guarded && g.Edges > 0, rule, name+":reader dropped only at end of message", st.Pos(), "the message reader is dropped exactly when it reported io.EOF", "the current message reader can be dropped before io.EOF (e.g. on a short read): the unread rest of the message is skipped")
			ok2, w := eng.MustFollow(f, []eng.Pred{isEOF}, func(i ssa.Instruction) bool { return i == ssa.Instruction(st) })
			c.Check(ok2, rule, name+":reader dropped at end of message", st.Pos(), "after io.EOF the next call starts a new message", fmt.Sprintf("io.EOF does not clear the reader: %v", w))
			return
		}
		nSet++
		// only data frames
		// the stored reader: NextReader's result, possibly through a phi whose other edges are
		// the nil of an error path
		var cands []ssa.Value
		if phi, isPhi := st.Val.(*ssa.Phi); isPhi {
			for _, e := range phi.Edges {
				if !eng.IsNilConst(e) {
					cands = append(cands, e)
				}
			}
		} else {
			cands = append(cands, st.Val)
		}
		okFrame := len(cands) > 0
		for _, cv := range cands {
			nr, isEx := cv.(*ssa.Extract)
			if !isEx || nr.Index != 1 {
				okFrame = false
				continue
			}
			op := extractOf(nr.Tuple, 0)
			bin := eng.EqPred("opCode is Binary or Text", true, func(x, y ssa.Value) bool {
				k, isC := eng.ConstInt(y)
				return x == op && isC && (k == 1 || k == 2)
			})
			g := eng.Guarded(st, bin)
			okFrame = okFrame && g.Guarded && g.Edges > 0
		}
		c.Check(okFrame, rule, name+":only data frames become the reader", st.Pos(), "control frames are skipped", "a non-data frame can become the current reader")
	})
	if nNil != 1 || nSet != 1 {
		c.Fail(rule, name+":reader assignments", f.Pos(), fmt.Sprintf("expected one `c.reader = nil` and one `c.reader = r`, found %d/%d", nNil, nSet))
	}
	// NextReader only when no reader
	for _, call := range func() []ssa.Instruction {
		var out []ssa.Instruction
		eng.Instrs(f, func(in ssa.Instruction) {
			if cl, ok := in.(*ssa.Call); ok && cl.Call.IsInvoke() && cl.Call.Method.Name() == "NextReader" {
				out = append(out, in)
			}
		})
		return out
	}() {
		none := eng.EqPred("c.reader == nil", true, func(x, y ssa.Value) bool {
			base, ok := eng.LoadOfField(x, "reader")
			return ok && base == recv && eng.IsNilConst(y)
		})
		g := eng.Guarded(call, none)
		c.Check(g.Guarded && g.Edges > 0, rule, name+":next message only when the current one is finished", call.Pos(), "NextReader is called only when there is no current reader", "NextReader can be called while a message is still being read (gorilla discards the rest of it)")
	}
	// EOF -> nil error
	okErr := false
	for _, rv := range eng.ResultValues(f, 1) {
		if eng.IsNilConst(rv) {
			okErr = true
		}
	}
	c.Check(okErr, rule, name+":EOF hidden", f.Pos(), "the end of one websocket message is not an error of the stream", "io.EOF of a message is not converted to a nil error")
}
