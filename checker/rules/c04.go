package rules

import (
	"fmt"
	"go/token"
	"go/types"
	"sort"
	"strings"

	"golang.org/x/tools/go/ssa"

	"verif/checker/core"
	"verif/checker/eng"
)

const (
	idValAddTime    = M + "event/crdt.Value.AddTime"
	idValDelTime    = M + "event/crdt.Value.DelTime"
	idValSetAddTime = M + "event/crdt.Value.setAddTime"
	idValSetDelTime = M + "event/crdt.Value.setDelTime"
	idValIsZero     = M + "event/crdt.Value.IsZero"
	idValSetValue   = M + "event/crdt.Value.setValue"
	idDurableStore  = M + "event/crdt.Durable.store"
	idMapAdd        = M + "event/crdt.Map.Add"
	idMapDel        = M + "event/crdt.Map.Del"
	idMapHas        = M + "event/crdt.Map.Has"
)

func init() {
	register(&Prop{
		ID:  "C04",
		Run: runC04,
		Explanation: "Structural necessary conditions of 'replicated state converges': the code touches timestamps only through comparisons and copies, so the shape of those comparisons is the merge function. " +
			"(R1) LWW kernel of every crdt.Map implementation's Merge: the local add (del) time is overwritten only with the remote add (del) time, only under local<remote (strict), and always then; " +
			"(R2) Add/Del write a time only under stored<now where now and the written value are results of the clock crdt.Now, and always then; the entry is stored back; " +
			"(R3) value predicates as comparison normal forms: IsAdded ≡ AddTime≠0 ∧ ¬(AddTime<DelTime) (add bias on ties), IsRemoved ≡ AddTime<DelTime, IsZero ≡ AddTime=0 ∧ DelTime=0; accessor offsets AddTime [0:8], DelTime [8:16], Value [16:]; " +
			"(R4) sibling agreement of the volatile and the durable kernels (same obligations for both); " +
			"(R5) wire agreement: both EncodeTo emit uvarint n then n × (string, string) and both DecodeTo consume the same; State.Encode/DecodeState marshal/unmarshal map[uint8]{Volatile|Durable} through snappy symmetrically; " +
			"(R6) Volatile.data is only touched under the owning object's lock; Merge holds both objects' locks. " +
			"NOT decided: commutativity/associativity/idempotence as algebra over histories, payload convergence on timestamp ties, buntdb semantics.",
		Assumptions: []string{"Value accessors are pure; kelindar/binary WriteString/ReadSlice use the same length-prefixed layout (library contract)"},
	})
}

func runC04(c *core.Ctx) {
	c04Kernels(c, "C04.R1", "C13.R1", false)
	c04AddDel(c)
	c04Preds(c)
	c04Wire(c)
	c.Rule("C04.R6", "guarded-by: Volatile.data by the owning Volatile.lock (instance-sensitive); Merge holds the locks of both sets", 8)
	lockRule(c, "C04.R6", []string{tVolatile}, nil)
	// the durable backend answers Has/Get through a read cache: it must be coherent with the
	// store after every write (Add, Del and Merge), otherwise two replicas holding the same
	// entries answer differently (shared with C14.R2)
	c14R2as(c, "C04.R7")
	c04R8(c, "C04.R8")
	c04Range(c, "C04.R9")
}

// mergeKernels returns the functions containing the LWW kernels: for each production
// implementation of crdt.Map, Merge itself and the closures nested in it.
func mergeKernels(c *core.Ctx, rule string) []*ssa.Function {
	n := c.P.Type("internal/event/crdt", "Map")
	if n == nil {
		c.Undecided(rule, "anchor:crdt.Map", token.NoPos, "anchor missing: interface crdt.Map")
		return nil
	}
	var out []*ssa.Function
	for _, t := range c.P.Implementers(n.Underlying().(*types.Interface)) {
		if f := c.P.MethodOf(t, "Merge"); f != nil && f.Blocks != nil {
			for _, g := range eng.WithAnon(f) {
				if len(eng.Calls(g, false, idValSetAddTime, idValSetDelTime)) > 0 {
					out = append(out, g)
				}
			}
		}
	}
	return out
}

// c04Kernels checks the merge kernel. With deltaOnly it emits the delta obligations (C13.R1),
// otherwise the LWW obligations (C04.R1).
func c04Kernels(c *core.Ctx, rule, deltaRule string, deltaOnly bool) {
	if !deltaOnly {
		c.Rule(rule, "LWW kernel (each crdt.Map implementation's Merge): local.setXTime(v) only with v = remote.XTime(), cut off by local.XTime() < remote.XTime() (strict), and executed on every path where that holds; X ∈ {Add, Del}; the merged entry is written back when the delta entry is kept", 12)
	} else {
		c.Rule(deltaRule, "delta kernel: remote.setXTime(0) exactly on the ¬(local.XTime() < remote.XTime()) branch; the remote key is deleted exactly when remote.IsZero(), otherwise the remote entry is kept in the delta", 12)
	}
	ks := mergeKernels(c, rule)
	if len(ks) < 2 && !deltaOnly {
		c.Fail(rule, "kernels", token.NoPos, fmt.Sprintf("expected a merge kernel in both crdt.Map implementations, found %d", len(ks)))
	}
	for _, f := range ks {
		name := fnName(f)
		c.Count("functions_analysed", 1)
		type kind struct{ get, set, nm string }
		for _, k := range []kind{{idValAddTime, idValSetAddTime, "Add"}, {idValDelTime, idValSetDelTime, "Del"}} {
			sets := eng.Calls(f, false, k.set)
			var adopt, zero []ssa.CallInstruction
			for _, s := range sets {
				a := eng.CallArgs(s.Common())
				if v, ok := eng.ConstInt(a[1]); ok && v == 0 {
					zero = append(zero, s)
				} else {
					adopt = append(adopt, s)
				}
			}
			if len(adopt) < 1 || len(zero) < 1 {
				r := rule
				if deltaOnly {
					r = deltaRule
				}
				c.Fail(r, name+":"+k.nm+" kernel shape", f.Pos(), fmt.Sprintf("expected at least one adopting set%sTime(remote time) and one set%sTime(0), found %d/%d", k.nm, k.nm, len(adopt), len(zero)))
				continue
			}
			local := eng.CallArgs(adopt[0].Common())[0]
			remote := eng.CallArgs(zero[0].Common())[0]
			isAny := func(set []ssa.CallInstruction) func(ssa.Instruction) bool {
				return func(i ssa.Instruction) bool {
					for _, x := range set {
						if i == x.(ssa.Instruction) {
							return true
						}
					}
					return false
				}
			}
			// strict comparison local < remote
			lt := func(want bool) eng.Pred {
				return eng.LtPred(fmt.Sprintf("local.%sTime() < remote.%sTime() is %v", k.nm, k.nm, want), want, func(x, y ssa.Value) bool {
					return isCallOn(x, k.get, func(r ssa.Value) bool { return eng.SameValue(r, local) }) &&
						isCallOn(y, k.get, func(r ssa.Value) bool { return eng.SameValue(r, remote) })
				})
			}
			if !deltaOnly {
				for i, ad := range adopt {
					la := eng.CallArgs(ad.Common())
					sfx := ""
					if i > 0 {
						sfx = fmt.Sprintf("#%d", i)
					}
					valOK := eng.SameValue(la[0], local) && isCallOn(la[1], k.get, func(r ssa.Value) bool { return eng.SameValue(r, remote) }) && !eng.SameValue(local, remote)
					c.Check(valOK, rule, name+":"+k.nm+" adopts remote time"+sfx, ad.Pos(), "the local time is overwritten with the remote time", "the local "+k.nm+" time is overwritten with something other than the remote "+k.nm+" time: "+eng.Describe(la[1]))
					g := eng.Guarded(ad, lt(true))
					c.Count("guard_cuts", 1)
					if g.Guarded && g.Edges > 0 {
						c.OK(rule, name+":"+k.nm+" only if local<remote"+sfx, ad.Pos(), "cut off by the strict comparison local<remote")
					} else {
						c.Fail(rule, name+":"+k.nm+" only if local<remote"+sfx, ad.Pos(), "the local "+k.nm+" time can be overwritten without local<remote (strict) — merge is no longer the pointwise maximum", g.Witness...)
					}
				}
				ok, w := eng.MustFollow(f, []eng.Pred{lt(true)}, isAny(adopt))
				c.Check(ok, rule, name+":"+k.nm+" if local<remote", adopt[0].Pos(), "whenever local<remote the remote time is adopted", fmt.Sprintf("local<remote but the remote time is not adopted: %v", w))
			} else {
				for i, z := range zero {
					sfx := ""
					if i > 0 {
						sfx = fmt.Sprintf("#%d", i)
					}
					c.Check(eng.SameValue(remote, eng.CallArgs(z.Common())[0]) && !eng.SameValue(local, remote), deltaRule, name+":"+k.nm+" zero targets remote"+sfx, z.Pos(), "the zeroed entry is the remote (delta) one", "set"+k.nm+"Time(0) is applied to the local entry")
					g := eng.Guarded(z, lt(false))
					c.Count("guard_cuts", 1)
					if g.Guarded && g.Edges > 0 {
						c.OK(deltaRule, name+":"+k.nm+" zeroed only if not new"+sfx, z.Pos(), "cut off by ¬(local<remote)")
					} else {
						c.Fail(deltaRule, name+":"+k.nm+" zeroed only if not new"+sfx, z.Pos(), "a remote "+k.nm+" time that is new (local<remote) can be zeroed out of the delta", g.Witness...)
					}
				}
				ok, w := eng.MustFollow(f, []eng.Pred{lt(false)}, isAny(zero))
				c.Check(ok, deltaRule, name+":"+k.nm+" zeroed if not new", zero[0].Pos(), "whenever the remote time is not new it is removed from the delta", fmt.Sprintf("remote time not new but kept in the delta: %v", w))
			}
		}
		// IsZero / delete / write-back
		zs := eng.Calls(f, false, idValIsZero)
		var remote ssa.Value
		if zc := eng.Calls(f, false, idValSetAddTime); len(zc) > 0 {
			for _, z := range zc {
				if v, ok := eng.ConstInt(eng.CallArgs(z.Common())[1]); ok && v == 0 {
					remote = eng.CallArgs(z.Common())[0]
				}
			}
		}
		if len(zs) != 1 || remote == nil {
			r := rule
			if deltaOnly {
				r = deltaRule
			}
			c.Fail(r, name+":IsZero", f.Pos(), fmt.Sprintf("expected one IsZero test of the remote entry, found %d", len(zs)))
			if remote == nil || deltaOnly {
				continue
			}
		}
		isZero := func(want bool) eng.Pred {
			return eng.CallPred(fmt.Sprintf("remote.IsZero()=%v", want), idValIsZero, -1, want, func(a []ssa.Value) bool { return eng.SameValue(a[0], remote) })
		}
		var dels, keeps, writeBacks, aliased []ssa.Instruction
		eng.Instrs(f, func(in ssa.Instruction) {
			if args, ok := eng.IsBuiltinCall(in, "delete"); ok {
				if _, ok := eng.LoadOfField(args[0], "data"); ok {
					dels = append(dels, in)
				}
			}
			if mu, ok := in.(*ssa.MapUpdate); ok {
				if base, ok := eng.LoadOfField(mu.Map, "data"); ok {
					_, localMap := base.(*ssa.Parameter) // the receiver's own map
					if fv, isFV := base.(*ssa.FreeVar); isFV {
						localMap = fv.Name() == "s"
					}
					switch {
					case eng.SameValue(mu.Value, remote) && !localMap:
						keeps = append(keeps, in)
					case eng.SameValue(mu.Value, remote) && localMap:
						aliased = append(aliased, in)
					default:
						writeBacks = append(writeBacks, in)
					}
				}
			}
			if eng.IsCallTo(in, idDurableStore) {
				writeBacks = append(writeBacks, in)
			}
		})
		if deltaOnly {
			if len(dels) != 1 {
				c.Fail(deltaRule, name+":delete from delta", f.Pos(), fmt.Sprintf("expected one delete of the remote key, found %d", len(dels)))
			} else {
				g := eng.Guarded(dels[0], isZero(true))
				ok, w := eng.MustFollow(f, []eng.Pred{isZero(true)}, func(i ssa.Instruction) bool { return i == dels[0] })
				c.Check(g.Guarded && g.Edges > 0 && ok, deltaRule, name+":deleted iff IsZero", dels[0].Pos(), "the key leaves the delta exactly when nothing in it was new", fmt.Sprintf("delete of the remote key is not equivalent to remote.IsZero(): guarded=%v follow=%v %v", g.Guarded, ok, w))
			}
			if len(keeps) != 1 {
				c.Fail(deltaRule, name+":kept in delta", f.Pos(), fmt.Sprintf("expected one write-back of the remote entry into the delta, found %d", len(keeps)))
			} else {
				g := eng.Guarded(keeps[0], isZero(false))
				ok, w := eng.MustFollow(f, []eng.Pred{isZero(false)}, func(i ssa.Instruction) bool { return i == keeps[0] })
				c.Check(g.Guarded && g.Edges > 0 && ok, deltaRule, name+":kept iff not IsZero", keeps[0].Pos(), "an entry with something new stays in the delta", fmt.Sprintf("keeping the remote entry is not equivalent to !remote.IsZero(): %v", w))
			}
		} else {
			for _, a := range aliased {
				c.Fail(rule, name+":local entry aliases the delta", a.Pos(), "the remote Value (a byte slice) is stored into the local set as is: the delta and the local state now share memory, and zeroing the delta later wipes the local times")
			}
			if len(aliased) == 0 {
				c.OK(rule, name+":local entry does not alias the delta", f.Pos(), "the local set never stores the remote slice itself")
			}
			if len(writeBacks) != 1 {
				c.Fail(rule, name+":write-back", f.Pos(), fmt.Sprintf("expected one write-back of the merged local entry, found %d", len(writeBacks)))
			} else {
				ok, w := eng.MustFollow(f, []eng.Pred{isZero(false)}, func(i ssa.Instruction) bool { return i == writeBacks[0] })
				c.Check(ok, rule, name+":merged entry written back", writeBacks[0].Pos(), "whenever something was new the merged entry is stored", fmt.Sprintf("something was new but the merged local entry is not stored: %v", w))
			}
		}
	}
}

func c04AddDel(c *core.Ctx) {
	rule := "C04.R2"
	c.Rule(rule, "Add/Del of every crdt.Map implementation: setXTime(v) only under stored.XTime() < now, with now and v results of the clock crdt.Now; executed whenever that holds; the entry is then stored", 12)
	n := c.P.Type("internal/event/crdt", "Map")
	if n == nil {
		c.Undecided(rule, "anchor:crdt.Map", token.NoPos, "anchor missing")
		return
	}
	isClock := func(v ssa.Value) bool {
		call, ok := v.(*ssa.Call)
		if !ok {
			return false
		}
		u, ok := call.Call.Value.(*ssa.UnOp)
		if !ok {
			return false
		}
		g, ok := u.X.(*ssa.Global)
		return ok && g.Name() == "Now" && g.Pkg.Pkg.Path() == M+"event/crdt"
	}
	for _, t := range c.P.Implementers(n.Underlying().(*types.Interface)) {
		for _, m := range []struct{ name, get, set string }{{"Add", idValAddTime, idValSetAddTime}, {"Del", idValDelTime, idValSetDelTime}} {
			top := c.P.MethodOf(t, m.name)
			if top == nil {
				continue
			}
			found := false
			for _, f := range eng.WithAnon(top) {
				sets := eng.Calls(f, false, m.set)
				if len(sets) == 0 {
					continue
				}
				found = true
				name := fnName(f)
				if len(sets) != 1 {
					c.Fail(rule, name+":single time write", f.Pos(), fmt.Sprintf("expected one %s call, found %d", shortT(m.set), len(sets)))
					continue
				}
				a := eng.CallArgs(sets[0].Common())
				entry := a[0]
				c.Check(isClock(a[1]), rule, name+":writes clock value", sets[0].Pos(), "the time written is a reading of crdt.Now", "the time written is not a reading of the clock crdt.Now: "+eng.Describe(a[1]))
				pred := eng.LtPred("stored."+m.name+"Time() < now", true, func(x, y ssa.Value) bool {
					return isCallOn(x, m.get, func(r ssa.Value) bool { return eng.SameValue(r, entry) }) && isClock(y)
				})
				g := eng.Guarded(sets[0], pred)
				c.Count("guard_cuts", 1)
				if g.Guarded && g.Edges > 0 {
					c.OK(rule, name+":only if stored<now", sets[0].Pos(), "cut off by stored<now (strict, clock value)")
				} else {
					c.Fail(rule, name+":only if stored<now", sets[0].Pos(), "the time is written without the stored<now test against the clock", g.Witness...)
				}
				// written back: map update or store call follows
				ok, w := eng.MustFollow(f, []eng.Pred{pred}, func(i ssa.Instruction) bool {
					if eng.IsCallTo(i, idDurableStore) {
						return true
					}
					if mu, ok := i.(*ssa.MapUpdate); ok {
						_, isData := eng.LoadOfField(mu.Map, "data")
						return isData
					}
					return false
				})
				c.Check(ok, rule, name+":stored back", sets[0].Pos(), "the updated entry is stored whenever the time advanced", fmt.Sprintf("time advanced but the entry is not stored: %v", w))
				// the operation always gets as far as the comparison: no path returns before
				// `stored < now` is evaluated (an early return for "already added/removed" entries
				// drops an update whose stamp is newer than what is stored)
				isCmp := func(i ssa.Instruction) bool {
					bo, ok := i.(*ssa.BinOp)
					if !ok {
						return false
					}
					at := eng.Normalize(bo)
					_, match := pred.Match(at)
					return match
				}
				early, wp := eng.Reach(f, nil, isCmp, eng.IsReturn)
				c.Check(!early, rule, name+":always compares", f.Pos(), "every path evaluates stored<now before returning", fmt.Sprintf("%s can return without comparing the stored time with the clock (e.g. an early return for an entry that is already %s): an update that is newer than what is stored is dropped and replicas that received the same updates diverge: %v", m.name, map[string]string{"Add": "added", "Del": "removed"}[m.name], wp))
				ok3, w3 := eng.MustFollow(f, []eng.Pred{pred}, func(i ssa.Instruction) bool { return i == sets[0].(ssa.Instruction) })
				c.Check(ok3, rule, name+":time written whenever stored<now", sets[0].Pos(), "the stamp advances whenever the clock is ahead of it", fmt.Sprintf("stored<now holds but the time is not written on some path: %v", w3))
				if m.name == "Del" {
					// Del must not touch the add time, Add must not touch the del time
					c.Check(len(eng.Calls(f, false, idValSetAddTime)) == 0, rule, name+":Del leaves add time", f.Pos(), "Del does not modify the add time", "Del modifies the add time")
				} else {
					c.Check(len(eng.Calls(f, false, idValSetDelTime)) == 0, rule, name+":Add leaves del time", f.Pos(), "Add does not modify the remove time", "Add modifies the remove time")
				}
			}
			if !found {
				c.Fail(rule, fnName(top)+":no time write", top.Pos(), "no "+shortT(m.set)+" call found")
			}
		}
	}
}

// atomText renders a comparison atom over the accessors of receiver recv.
func atomText(a eng.Atom, recv ssa.Value) string {
	term := func(v ssa.Value) string {
		if k, ok := eng.ConstInt(v); ok {
			return fmt.Sprintf("%d", k)
		}
		if call, ok := eng.StripConv(v).(*ssa.Call); ok {
			if obj := eng.CalleeObj(&call.Call); obj != nil {
				args := eng.CallArgs(&call.Call)
				if len(args) >= 1 && eng.SameValue(args[0], recv) {
					return obj.Name()
				}
			}
		}
		return "?" + eng.Describe(v)
	}
	s := ""
	switch a.Op {
	case token.EQL:
		x, y := term(a.X), term(a.Y)
		if x > y {
			x, y = y, x
		}
		s = x + "==" + y
	case token.LSS:
		s = term(a.X) + "<" + term(a.Y)
	default:
		s = term(a.V)
	}
	if a.Neg {
		return "!(" + s + ")"
	}
	return s
}

func c04Preds(c *core.Ctx) {
	rule := "C04.R3"
	c.Rule(rule, "comparison normal forms: IsAdded ≡ !(0==AddTime) ∧ !(AddTime<DelTime); IsRemoved ≡ AddTime<DelTime; IsZero ≡ 0==AddTime ∧ 0==DelTime; accessor byte ranges AddTime [0:8], DelTime [8:16], Value [16:], setters likewise", 8)
	want := map[string][]string{
		"IsAdded":   {"!(0==AddTime)", "!(AddTime<DelTime)"},
		"IsRemoved": {"AddTime<DelTime"},
		"IsZero":    {"0==AddTime", "0==DelTime"},
	}
	for _, name := range []string{"IsAdded", "IsRemoved", "IsZero"} {
		f := fn(c, rule, "internal/event/crdt", "Value", name)
		if f == nil {
			continue
		}
		atoms, ok := eng.ConjunctAtoms(f, 0)
		if !ok {
			c.Undecided(rule, fnName(f)+":shape", f.Pos(), "predicate is not a pure conjunction of comparisons")
			continue
		}
		var got []string
		for _, a := range atoms {
			got = append(got, atomText(a, f.Params[0]))
		}
		sort.Strings(got)
		w := append([]string{}, want[name]...)
		sort.Strings(w)
		c.Check(strings.Join(got, " ∧ ") == strings.Join(w, " ∧ "), rule, fnName(f)+":normal form", f.Pos(), name+" ≡ "+strings.Join(w, " ∧ "), fmt.Sprintf("%s is %s, expected %s", name, strings.Join(got, " ∧ "), strings.Join(w, " ∧ ")))
	}
	// accessor byte ranges
	ranges := map[string][2]int64{"AddTime": {0, 8}, "setAddTime": {0, 8}, "DelTime": {8, 16}, "setDelTime": {8, 16}, "Value": {16, -1}}
	for name, r := range ranges {
		f := fn(c, rule, "internal/event/crdt", "Value", name)
		if f == nil {
			continue
		}
		okR := false
		n := 0
		eng.Instrs(f, func(in ssa.Instruction) {
			sl, ok := in.(*ssa.Slice)
			if !ok || !eng.SameValue(sl.X, f.Params[0]) {
				return
			}
			n++
			lo, hi := int64(0), int64(-1)
			if sl.Low != nil {
				lo, _ = eng.ConstInt(sl.Low)
			}
			if sl.High != nil {
				hi, _ = eng.ConstInt(sl.High)
			}
			if lo == r[0] && hi == r[1] {
				okR = true
			}
		})
		c.Check(okR && n == 1, rule, fnName(f)+":byte range", f.Pos(), fmt.Sprintf("%s uses bytes [%d:%d]", name, r[0], r[1]), fmt.Sprintf("%s does not use exactly bytes [%d:%d] of the value", name, r[0], r[1]))
	}
}

// codecOps extracts the ordered primitive operations on the encoder/decoder parameter of f:
// method names on parameter index pi, with "(" ")" marking loop bodies.
func codecOps(f *ssa.Function, pi int) []string {
	// SSA block order follows source order for structured code; loops are detected per block.
	var ops []string
	p := f.Params[pi]
	for _, fn := range eng.WithAnon(f) {
		for _, b := range fn.Blocks {
			for _, in := range b.Instrs {
				call, ok := in.(ssa.CallInstruction)
				if !ok {
					continue
				}
				args := eng.CallArgs(call.Common())
				if len(args) == 0 {
					continue
				}
				isP := denotesParam(fn, args[0], p, 0)
				if !isP {
					continue
				}
				obj := eng.CalleeObj(call.Common())
				if obj == nil {
					continue
				}
				name := obj.Name()
				if eng.InLoop(in) {
					name = "loop:" + name
				}
				ops = append(ops, name)
			}
		}
	}
	return ops
}

// denotesParam: v (in function fn, possibly a closure nested in the function owning p)
// denotes the parameter p: p itself, a load of the local p was spilled to, or the same
// through a captured variable.
func denotesParam(fn *ssa.Function, v ssa.Value, p ssa.Value, depth int) bool {
	if v == p {
		return true
	}
	if depth > 4 || v == nil {
		return false
	}
	switch x := v.(type) {
	case *ssa.UnOp:
		if x.Op != token.MUL {
			return false
		}
		switch a := x.X.(type) {
		case *ssa.Alloc:
			return allocHolds(a, p)
		case *ssa.FreeVar:
			// a variable captured by reference, possibly through several nested closures
			g, cur := fn, ssa.Value(a)
			for d := 0; d < 4 && g != nil; d++ {
				fv, isFV := cur.(*ssa.FreeVar)
				if !isFV {
					break
				}
				idx := -1
				for i, x := range g.FreeVars {
					if x == fv {
						idx = i
					}
				}
				if idx < 0 {
					return false
				}
				cur = closureBinding(g, idx)
				g = g.Parent()
			}
			if al, ok := cur.(*ssa.Alloc); ok {
				return allocHolds(al, p)
			}
		}
	case *ssa.FreeVar:
		for i, fv := range fn.FreeVars {
			if fv == x {
				return denotesParam(fn.Parent(), closureBinding(fn, i), p, depth+1)
			}
		}
	}
	return false
}

func allocHolds(a *ssa.Alloc, p ssa.Value) bool {
	refs := a.Referrers()
	if refs == nil {
		return false
	}
	n := 0
	for _, r := range *refs {
		if st, ok := r.(*ssa.Store); ok && st.Addr == a {
			n++
			if st.Val != p {
				return false
			}
		}
	}
	return n > 0
}

func closureBinding(fn *ssa.Function, i int) ssa.Value {
	p := fn.Parent()
	if p == nil {
		return nil
	}
	var out ssa.Value
	eng.Instrs(p, func(in ssa.Instruction) {
		if mc, ok := in.(*ssa.MakeClosure); ok && mc.Fn == fn && i < len(mc.Bindings) {
			out = mc.Bindings[i]
		}
	})
	return out
}

func c04Wire(c *core.Ctx) {
	rule := "C04.R5"
	c.Rule(rule, "wire agreement: codecVolatile.EncodeTo and durableCodec.EncodeTo emit [WriteUvarint, loop(WriteString, WriteString)]; both DecodeTo consume [ReadUvarint, loop(ReadSlice, ReadSlice)]; State.Encode marshals map[uint8]Volatile|Durable + snappy.Encode, DecodeState snappy.Decode + unmarshal map[uint8]Volatile", 6)
	norm := func(ops []string) string {
		var out []string
		for _, o := range ops {
			o = strings.Replace(o, "WriteString", "bytes", 1)
			o = strings.Replace(o, "ReadSlice", "bytes", 1)
			o = strings.Replace(o, "ReadString", "bytes", 1)
			o = strings.Replace(o, "WriteUvarint", "uvarint", 1)
			o = strings.Replace(o, "ReadUvarint", "uvarint", 1)
			out = append(out, o)
		}
		return strings.Join(out, ",")
	}
	want := "uvarint,loop:bytes,loop:bytes"
	for _, t := range []string{"codecVolatile", "durableCodec"} {
		for _, m := range []string{"EncodeTo", "DecodeTo"} {
			f := fn(c, rule, "internal/event/crdt", t, m)
			if f == nil {
				continue
			}
			got := norm(codecOps(f, 1))
			c.Check(got == want, rule, fnName(f)+":layout", f.Pos(), "layout is uvarint count followed by count × (bytes key, bytes value)", fmt.Sprintf("layout is [%s], expected [%s]", got, want))
		}
	}
	// State.Encode / DecodeState
	enc := fn(c, rule, "internal/event", "State", "Encode")
	dec := fn(c, rule, "internal/event", "", "DecodeState")
	if enc == nil || dec == nil {
		return
	}
	typeOfArg := func(f *ssa.Function, id string, ai int) []string {
		var out []string
		for _, call := range eng.Calls(f, false, id) {
			a := eng.CallArgs(call.Common())[ai]
			a = eng.StripConv(a)
			t := a.Type()
			if p, ok := t.(*types.Pointer); ok {
				t = p.Elem()
			}
			out = append(out, strings.ReplaceAll(t.String(), M, ""))
		}
		sort.Strings(out)
		return out
	}
	m := typeOfArg(enc, "github.com/kelindar/binary.Marshal", 0)
	u := typeOfArg(dec, "github.com/kelindar/binary.Unmarshal", 1)
	okM := len(m) == 2 && m[0] == "map[uint8]event/crdt.Durable" && m[1] == "map[uint8]event/crdt.Volatile"
	okU := len(u) == 1 && u[0] == "map[uint8]event/crdt.Volatile"
	c.Check(okM && okU, rule, "State.Encode/DecodeState:container types", enc.Pos(), "both sides use map[uint8]<set> with identical set wire layout", fmt.Sprintf("Encode marshals %v, DecodeState unmarshals %v", m, u))
	// every path of Encode passes snappy.Encode applied to a Marshal result, and every Marshal
	// result is compressed; DecodeState decompresses before it unmarshals
	isSnappy := func(i ssa.Instruction) bool { return eng.IsCallTo(i, "github.com/golang/snappy.Encode") }
	allPaths, _ := eng.MustPass(enc, nil, isSnappy)
	marshalled := map[ssa.Value]bool{}
	for _, call := range eng.Calls(enc, false, "github.com/kelindar/binary.Marshal") {
		marshalled[extractOf(call.Value(), 0)] = false
	}
	okSrc := true
	ne := 0
	for _, call := range eng.Calls(enc, false, "github.com/golang/snappy.Encode") {
		ne++
		var visit func(v ssa.Value, d int)
		visit = func(v ssa.Value, d int) {
			if phi, ok := v.(*ssa.Phi); ok && d < 4 {
				for _, e := range phi.Edges {
					visit(e, d+1)
				}
				return
			}
			if c, isC := v.(*ssa.Const); isC && c.Value == nil && d > 0 {
				return // the zero value of the variable before assignment
			}
			if _, ok := marshalled[v]; ok {
				marshalled[v] = true
			} else {
				okSrc = false
			}
		}
		visit(eng.CallArgs(call.Common())[1], 0)
	}
	for _, used := range marshalled {
		okSrc = okSrc && used
	}
	decs := eng.Calls(dec, false, "github.com/golang/snappy.Decode")
	uns := eng.Calls(dec, false, "github.com/kelindar/binary.Unmarshal")
	okDec := len(decs) == 1 && len(uns) == 1 && eng.Dominates(decs[0].(ssa.Instruction), uns[0].(ssa.Instruction)) && eng.StripConv(eng.CallArgs(uns[0].Common())[0]) == extractOf(decs[0].Value(), 0)
	c.Check(allPaths && okSrc && ne > 0 && okDec, rule, "State.Encode/DecodeState:compression", enc.Pos(), "every encoded state is snappy-compressed and DecodeState decompresses first", fmt.Sprintf("Encode: every path through snappy.Encode=%v, snappy.Encode applied exactly to the Marshal results=%v (%d calls); DecodeState unmarshals the snappy.Decode result=%v", allPaths, okSrc, ne, okDec))
}

// c04R8: replicated event keys are written and read at the same offsets, and events are
// routed to the subset of their own type.
func c04R8(c *core.Ctx, rule string) {
	c.Rule(rule, "event key layout agreement: Subscription.Key/Connection.Key write Peer at [0:8] and Conn at [8:16] (Subscription: ssid word i at [16+4i:20+4i]) and decodeSubscription/decodeConnection read the same ranges; State.Add/Del/Has address subsets[ev.unitType()] with ev.Key(); the three unitType() constants are distinct", 5)
	type rng struct{ lo, hi int64 }
	collect := func(f *ssa.Function, callee string, argIdx int) map[string]bool {
		out := map[string]bool{}
		for _, call := range eng.Calls(f, false, callee) {
			a := eng.CallArgs(call.Common())
			sl, ok := eng.StripConv(a[argIdx]).(*ssa.Slice)
			if !ok {
				continue
			}
			if b, _, ok := sliceBounds(f, sl); ok {
				out[b] = true
			}
		}
		return out
	}
	str := func(m map[string]bool) string {
		var ks []string
		for k := range m {
			ks = append(ks, k)
		}
		sort.Strings(ks)
		return strings.Join(ks, " ")
	}
	for _, k := range []struct{ typ, dec, want string }{
		{"Subscription", "decodeSubscription", "0:8 4i+16:4i+20 8:16"},
		{"Connection", "decodeConnection", "0:8 8:16"},
	} {
		w := c.P.Func("internal/event", k.typ, "Key")
		r := c.P.Func("internal/event", "", k.dec)
		if w == nil || r == nil {
			c.Undecided(rule, "anchor:"+k.typ, token.NoPos, "anchor missing: "+k.typ+".Key / "+k.dec)
			continue
		}
		ws := collect(w, "encoding/binary.bigEndian.PutUint64", 1)
		for s := range collect(w, idBEPutUint32, 1) {
			ws[s] = true
		}
		rs := collect(r, "encoding/binary.bigEndian.Uint64", 1)
		for s := range collect(r, idBEUint32, 1) {
			rs[s] = true
		}
		c.Check(str(ws) == k.want && str(rs) == k.want, rule, k.typ+":key layout", w.Pos(), "writer and reader use ["+k.want+"]", fmt.Sprintf("%s.Key writes [%s], %s reads [%s], expected [%s]", k.typ, str(ws), k.dec, str(rs), k.want))
	}
	for _, m := range []struct{ name, op string }{{"Add", idMapAdd}, {"Del", idMapDel}, {"Has", idMapHas}} {
		f := fn(c, rule, "internal/event", "State", m.name)
		if f == nil {
			continue
		}
		calls := eng.Calls(f, false, m.op)
		ok := len(calls) == 1
		if ok {
			a := eng.CallArgs(calls[0].Common())
			// receiver = st.subsets[ev.unitType()], key = ev.Key()
			lk, isLk := eng.StripConv(a[0]).(*ssa.Lookup)
			ok = isLk
			if ok {
				_, isSub := eng.LoadOfField(lk.X, "subsets")
				ut, isCall := lk.Index.(*ssa.Call)
				ok = isSub && isCall && ut.Call.IsInvoke() && ut.Call.Method.Name() == "unitType" && ut.Call.Value == f.Params[1]
			}
			kc, isKC := a[1].(*ssa.Call)
			ok = ok && isKC && kc.Call.IsInvoke() && kc.Call.Method.Name() == "Key" && kc.Call.Value == f.Params[1]
		}
		c.Check(ok, rule, fnName(f)+":routes by unit type", f.Pos(), "subsets[ev.unitType()]."+m.name+"(ev.Key(), …)", "State."+m.name+" does not address subsets[ev.unitType()] with ev.Key()")
	}
}

// c04Range: enumeration of a replicated set is a full scan filtered by prefix. Both
// implementations of crdt.Map.Range visit every stored entry (Durable: tx.Ascend over the
// whole keyspace — a range-bounded iteration needs an upper bound computed from the prefix,
// which wraps for prefixes ending in 0xff and then visits nothing) and call f exactly for the
// entries whose key has the prefix and that are added (or all, with tombstones).
// SubscriptionsOf/ConnectionsOf (what onPeerOffline walks) are built on it.
func c04Range(c *core.Ctx, rule string) {
	c.Rule(rule, "crdt.Map.Range (both implementations): the iteration covers the whole set (Durable: one tx.Ascend(\"\", …), no bounded buntdb iteration); f(k, v) is called only under bytes.HasPrefix(k, prefix) and always when the prefix matches and the value IsAdded", 4)
	n := c.P.Type("internal/event/crdt", "Map")
	if n == nil {
		c.Undecided(rule, "anchor:crdt.Map", token.NoPos, "anchor missing")
		return
	}
	bounded := []string{"AscendRange", "AscendGreaterOrEqual", "AscendLessThan", "AscendEqual", "Descend", "DescendRange", "DescendGreaterThan", "DescendLessOrEqual", "DescendEqual", "AscendKeys", "DescendKeys"}
	for _, t := range c.P.Implementers(n.Underlying().(*types.Interface)) {
		top := c.P.MethodOf(t, "Range")
		if top == nil || top.Blocks == nil {
			continue
		}
		name := fnName(top)
		prefixP, fP := ssa.Value(top.Params[1]), ssa.Value(top.Params[3])
		var site ssa.CallInstruction
		var host *ssa.Function
		nIter, badIter := 0, ""
		for _, g := range eng.WithAnon(top) {
			eng.Instrs(g, func(in ssa.Instruction) {
				ci, ok := in.(ssa.CallInstruction)
				if !ok {
					return
				}
				cc := ci.Common()
				if id := eng.FuncID(eng.CalleeObj(cc)); strings.HasPrefix(id, "github.com/tidwall/buntdb.Tx.") {
					m := id[strings.LastIndex(id, ".")+1:]
					if m == "Ascend" {
						nIter++
						if k, ok := eng.CallArgs(cc)[1].(*ssa.Const); !ok || k.Value == nil || k.Value.ExactString() != `""` {
							badIter = "tx.Ascend over an index other than the whole keyspace"
						}
					}
					for _, b := range bounded {
						if m == b {
							badIter = "bounded buntdb iteration Tx." + m
						}
					}
				}
				if cc.StaticCallee() == nil && !cc.IsInvoke() {
					if _, isB := cc.Value.(*ssa.Builtin); !isB && denotesParam(g, cc.Value, fP, 0) {
						site, host = ci, g
					}
				}
			})
		}
		if strings.Contains(name, "Durable") {
			c.Check(nIter == 1 && badIter == "", rule, name+":scans the whole set", top.Pos(), "one tx.Ascend(\"\", …) over all keys", "the durable set is not enumerated by one full tx.Ascend(\"\", …) ("+badIter+"): entries can be skipped (a computed upper bound wraps for prefixes ending in 0xff), so SubscriptionsOf/ConnectionsOf miss a lost broker's entries")
		} else {
			rng := 0
			eng.Instrs(top, func(in ssa.Instruction) {
				if r, ok := in.(*ssa.Range); ok {
					if _, isData := eng.LoadOfField(r.X, "data"); isData {
						rng++
					}
				}
			})
			c.Check(rng == 1, rule, name+":scans the whole set", top.Pos(), "one range over the data map", "the volatile set is not enumerated by one range over its data map")
		}
		if site == nil {
			c.Fail(rule, name+":calls f", top.Pos(), "Range never calls its callback")
			continue
		}
		hasPrefix := eng.CallPred("bytes.HasPrefix(key, prefix)", "bytes.HasPrefix", -1, true, func(a []ssa.Value) bool {
			return len(a) == 2 && denotesParam(host, a[1], prefixP, 0)
		})
		isAdded := eng.CallPred("value.IsAdded()", idValIsAdded, -1, true, nil)
		g := eng.Guarded(site, hasPrefix)
		c.Count("guard_cuts", 1)
		c.Check(g.Guarded && g.Edges > 0, rule, name+":f only for keys with the prefix", site.Pos(), "cut off by bytes.HasPrefix(key, prefix)", "f is called for keys that do not have the prefix")
		ok, w := eng.MustFollow(host, []eng.Pred{hasPrefix, isAdded}, func(i ssa.Instruction) bool { return i == site.(ssa.Instruction) })
		c.Check(ok && eng.HasLicensingEdge(host, isAdded), rule, name+":f for every added entry with the prefix", site.Pos(), "every added entry whose key has the prefix is reported", fmt.Sprintf("an added entry whose key has the prefix is not reported on some path: %v", w))
	}
}
