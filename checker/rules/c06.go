package rules

import (
	"fmt"
	"go/token"
	"sort"
	"strings"

	"golang.org/x/tools/go/ssa"

	"verif/checker/core"
	"verif/checker/eng"
)

const (
	idIDMatch     = M + "message.ID.Match"
	idIDHasPrefix = M + "message.ID.HasPrefix"
	idIDTime      = M + "message.ID.Time"
	idFrameLimit  = M + "message.Frame.Limit"
	idFrameSort   = M + "message.Frame.Sort"
	idMsgTime     = M + "message.Message.Time"
	idItSeek      = "github.com/dgraph-io/badger/v3.Iterator.Seek"
	idItNext      = "github.com/dgraph-io/badger/v3.Iterator.Next"
	idItValid     = "github.com/dgraph-io/badger/v3.Iterator.Valid"
	idItKey       = "github.com/dgraph-io/badger/v3.Item.Key"
	idBEUint32    = "encoding/binary.bigEndian.Uint32"
	idBEPutUint32 = "encoding/binary.bigEndian.PutUint32"
	idNewPrefix   = M + "message.NewPrefix"
)

func init() {
	register(&Prop{
		ID:  "C06",
		Run: runC06,
		Explanation: "Structural necessary conditions of 'history queries return exactly the stored, live, matching messages': " +
			"(R1) in the storage lookup every append to the result is cut off by ID.Match(q.Ssid,q.From,q.Until) on the iterated key, by the loop condition Valid ∧ HasPrefix(q.Ssid,q.From) ∧ len(matches)<q.Limit, and by the reply-size cap; " +
			"(R2) every return of SSD.Query passes Frame.Limit(limit) (sort + last N) after local and surveyed results were appended; " +
			"(R3) ID.Match compares every query word including index 0 (the contract word) with the id word at bytes [16+4i:20+4i] and rejects ids shorter than the query — the key prefix is contract XOR first level and collides across tenants by construction, so Match is the only tenant separation; " +
			"(R4) entries written to badger take Key from the message id, ExpiresAt from Message.Expires(), and SSD.Store replaces exactly RetainedTTL by the configured retention; " +
			"(R5) NewID/NewPrefix/HasPrefix/Time/SetTime agree on bytes [0:4] = ssid[0]^ssid[1] and [4:8] = MaxUint32-(seconds-offset); " +
			"(R6) Frame.Sort orders by Time(i)<Time(j) and Frame.Limit keeps the tail [len-n:] under len>n after sorting; " +
			"(R7) HasPrefix ≡ prefix equal ∧ ¬(Time<cutoff); Match ends in ¬(Time<from) ∧ ¬(until<Time); window() maps a zero `until` to MaxTime; " +
			"(R8) on the continuation branch Seek(q.StartFromID) is followed by Next() before the scan (the start id is not returned again) and the other branch seeks NewPrefix(q.Ssid,q.Until). " +
			"NOT decided: ordering inside one second, badger iterator semantics, which N messages exist.",
		Assumptions: []string{"badger iterates keys in byte order; encoding/binary.BigEndian semantics"},
	})
}

func runC06(c *core.Ctx) {
	c06R1(c)
	c06R2(c)
	c06R3(c)
	c06R4(c, "C06.R4")
	c06R5(c)
	c06R6(c)
	c06R7(c)
	c06Limit(c, "C06.R9")
	jsonTargetRule(c, "C06.R10", "service/history")
	c06Survey(c, "C06.R11")
}

// qField: v is a load of q.<field> where q is the lookup query (free variable or parameter).
func qField(v ssa.Value, field string) bool {
	b, ok := eng.LoadOfField(v, field)
	if !ok {
		return false
	}
	switch x := b.(type) {
	case *ssa.FreeVar:
		return x.Name() == "q"
	case *ssa.Parameter:
		return true
	case *ssa.Alloc:
		return true
	case *ssa.UnOp:
		return true
	}
	return false
}

func lookupClosure(c *core.Ctx, rule string) (*ssa.Function, *ssa.Function) {
	f := fn(c, rule, "internal/provider/storage", "SSD", "lookup")
	if f == nil {
		return nil, nil
	}
	for _, a := range f.AnonFuncs {
		if len(eng.Calls(a, false, idIDMatch)) > 0 || len(eng.Calls(a, false, idItSeek)) > 0 {
			return f, a
		}
	}
	if len(eng.Calls(f, false, idIDMatch)) > 0 {
		return f, f
	}
	c.Undecided(rule, fnName(f)+":scan loop", f.Pos(), "cannot find the scan loop (no ID.Match / Iterator.Seek call in lookup or its closures)")
	return f, nil
}

func c06R1(c *core.Ctx) {
	rule := "C06.R1"
	c.Rule(rule, "storage lookup: every append to the result frame is cut off by ID.Match(q.Ssid,q.From,q.Until)=true and ID.HasPrefix(q.Ssid,q.From)=true on the iterated key, by it.Valid(), by len(matches)<q.Limit and by ¬(cap < accumulated size); continuation: Seek(q.StartFromID) is followed by Valid-check and Next before the loop, otherwise Seek(NewPrefix(q.Ssid,q.Until))", 8)
	_, g := lookupClosure(c, rule)
	if g == nil {
		return
	}
	name := fnName(g)
	var appends []ssa.Instruction
	eng.Instrs(g, func(in ssa.Instruction) {
		if args, ok := eng.IsBuiltinCall(in, "append"); ok && len(args) == 2 {
			if strings.HasSuffix(args[0].Type().String(), "message.Frame") {
				appends = append(appends, in)
			}
		}
	})
	if len(appends) == 0 {
		c.Fail(rule, name+":append", g.Pos(), "the scan never appends to the result frame")
		return
	}
	isKey := func(v ssa.Value) bool {
		v = eng.StripConv(v)
		call, ok := v.(*ssa.Call)
		return ok && eng.FuncID(eng.CalleeObj(&call.Call)) == idItKey
	}
	maxSize, _ := constOf(c, rule, "internal/network/mqtt", "MaxMessageSize")
	preds := []eng.Pred{
		eng.CallPred("it.Valid()", idItValid, -1, true, nil),
		eng.CallPred("key.HasPrefix(q.Ssid,q.From)", idIDHasPrefix, -1, true, func(a []ssa.Value) bool {
			return len(a) == 3 && isKey(a[0]) && qField(a[1], "Ssid") && qField(a[2], "From")
		}),
		eng.CallPred("key.Match(q.Ssid,q.From,q.Until)", idIDMatch, -1, true, func(a []ssa.Value) bool {
			return len(a) == 4 && isKey(a[0]) && qField(a[1], "Ssid") && qField(a[2], "From") && qField(a[3], "Until")
		}),
		eng.LtPred("len(matches) < q.Limit", true, func(x, y ssa.Value) bool {
			l, ok := eng.LenOf(x)
			return ok && strings.HasSuffix(l.Type().String(), "message.Frame") && qField(y, "Limit")
		}),
		eng.LtPred("!(MaxMessageSize < size)", false, func(x, y ssa.Value) bool {
			k, ok := eng.ConstInt(x)
			if !ok || k != maxSize {
				return false
			}
			// y accumulates len(Payload)+len(ID)+len(Channel)
			return sumsLens(y, 0) >= 3
		}),
	}
	for i, ap := range appends {
		for _, p := range preds {
			gr := eng.Guarded(ap, p)
			c.Count("guard_cuts", 1)
			key := fmt.Sprintf("%s:append#%d only if %s", name, i, p.Name)
			if gr.Guarded && gr.Edges > 0 {
				c.OK(rule, key, ap.Pos(), "cut off by "+p.Name)
			} else {
				c.Fail(rule, key, ap.Pos(), "a message can be added to the query result without "+p.Name, gr.Witness...)
			}
		}
	}
	// R8 continuation
	seeks := eng.Calls(g, false, idItSeek)
	var seekStart, seekPrefix ssa.CallInstruction
	for _, s := range seeks {
		a := eng.StripConv(eng.CallArgs(s.Common())[1])
		if qField(a, "StartFromID") {
			seekStart = s
		}
		if call, ok := a.(*ssa.Call); ok && eng.FuncID(eng.CalleeObj(&call.Call)) == idNewPrefix {
			pa := eng.CallArgs(&call.Call)
			if qField(pa[0], "Ssid") && qField(pa[1], "Until") {
				seekPrefix = s
			}
		}
	}
	c.Check(seekPrefix != nil, rule, name+":seek to window end", g.Pos(), "a fresh query seeks to NewPrefix(q.Ssid, q.Until)", "no Seek(NewPrefix(q.Ssid, q.Until)) found: the scan does not start at the end of the window")
	if seekStart == nil {
		c.Fail(rule, name+":continuation seek", g.Pos(), "no Seek(q.StartFromID) found: continuation pages do not resume at the given id")
	} else {
		var match ssa.Instruction
		if ms := eng.Calls(g, false, idIDMatch); len(ms) > 0 {
			match = ms[0].(ssa.Instruction)
		}
		// every path from Seek(StartFromID) to the first Match passes Next()
		skipped, w := eng.Reach(g, seekStart.(ssa.Instruction), func(i ssa.Instruction) bool { return eng.IsCallTo(i, idItNext) }, func(i ssa.Instruction) bool { return i == match })
		c.Check(!skipped, rule, name+":continuation skips the start id", seekStart.Pos(), "after Seek(q.StartFromID) the iterator is advanced before scanning (the start id is not returned again)", fmt.Sprintf("the scan can start on the continuation id itself (returned on two pages): %v", w))
		// both seeks are exclusive: StartFromID empty <=> prefix seek
		empty := eng.EqPred("len(q.StartFromID)==0", true, func(x, y ssa.Value) bool {
			l, ok := eng.LenOf(x)
			k, isC := eng.ConstInt(y)
			return ok && isC && k == 0 && qField(l, "StartFromID")
		})
		g1 := eng.Guarded(seekStart, eng.Pred{Name: "non-empty", Match: func(a eng.Atom) (bool, bool) {
			w, ok := empty.Match(a)
			return !w, ok
		}})
		c.Check(g1.Guarded && g1.Edges > 0, rule, name+":continuation only when an id is given", seekStart.Pos(), "Seek(q.StartFromID) only for a non-empty id", "Seek(q.StartFromID) is reachable with an empty id")
	}
}

// sumsLens counts len(...) terms in an additive expression (through phis once).
func sumsLens(v ssa.Value, depth int) int {
	if depth > 8 || v == nil {
		return 0
	}
	if _, ok := eng.LenOf(v); ok {
		return 1
	}
	switch x := v.(type) {
	case *ssa.BinOp:
		if x.Op == token.ADD {
			return sumsLens(x.X, depth+1) + sumsLens(x.Y, depth+1)
		}
	case *ssa.Convert:
		return sumsLens(x.X, depth+1)
	case *ssa.Phi:
		best := 0
		for _, e := range x.Edges {
			if n := sumsLens(e, depth+1); n > best {
				best = n
			}
		}
		return best
	}
	return 0
}

func c06R2(c *core.Ctx) {
	rule := "C06.R2"
	c.Rule(rule, "SSD.Query: every return passes match.Limit(limit) with the limit parameter, after the local lookup and after the surveyed frames were appended; newLookupQuery copies ssid/window/startFromID/limit unchanged", 2)
	f := fn(c, rule, "internal/provider/storage", "SSD", "Query")
	if f == nil {
		return
	}
	lim := eng.Calls(f, false, idFrameLimit)
	ok := len(lim) == 1
	var w []string
	if ok {
		a := eng.CallArgs(lim[0].Common())
		ok = a[1] == f.Params[5]
		ok2, w2 := eng.MustPass(f, nil, func(i ssa.Instruction) bool { return i == lim[0].(ssa.Instruction) })
		ok, w = ok && ok2, w2
		// no append after Limit
		eng.Instrs(f, func(in ssa.Instruction) {
			if _, isApp := eng.IsBuiltinCall(in, "append"); isApp {
				if eng.Dominates(lim[0], in) {
					ok = false
				}
			}
		})
	}
	c.Check(ok, rule, fnName(f)+":Limit on every return", f.Pos(), "every result is sorted and cut to the last `limit` messages", fmt.Sprintf("a return of Query skips Frame.Limit(limit) or results are appended after it: %v", w))
	if g := fn(c, rule, "internal/provider/storage", "", "newLookupQuery"); g != nil {
		// struct literal fields: Ssid<-p0, From/Until <- window(from,until), StartFromID<-p3, Limit<-p4
		okQ := true
		want := map[string]ssa.Value{"Ssid": g.Params[0], "StartFromID": g.Params[3], "Limit": g.Params[4]}
		got := map[string]ssa.Value{}
		eng.Instrs(g, func(in ssa.Instruction) {
			if st, ok := in.(*ssa.Store); ok {
				if fa, ok := st.Addr.(*ssa.FieldAddr); ok {
					_, fl, _, _ := eng.FieldOf(fa)
					got[fl] = st.Val
				}
			}
		})
		for k, v := range want {
			if got[k] != v {
				okQ = false
			}
		}
		for k, idx := range map[string]int{"From": 0, "Until": 1} {
			ex, isEx := got[k].(*ssa.Extract)
			if !isEx || ex.Index != idx {
				okQ = false
				continue
			}
			call, isCall := ex.Tuple.(*ssa.Call)
			if !isCall || eng.FuncID(eng.CalleeObj(&call.Call)) != M+"provider/storage.window" {
				okQ = false
			}
		}
		c.Check(okQ, rule, fnName(g)+":copies the query", g.Pos(), "the lookup query carries ssid, window, continuation id and limit unchanged", "newLookupQuery does not copy ssid / window(from,until) / startFromID / limit into the query")
	}
}

// affine evaluates v as a*i + b over the loop variable i.
func affine(v, i ssa.Value, depth int) (a, b int64, ok bool) {
	if depth > 6 {
		return 0, 0, false
	}
	v = eng.StripConv(v)
	if v == i || eng.SameValue(v, i) {
		return 1, 0, true
	}
	if k, isC := eng.ConstInt(v); isC {
		return 0, k, true
	}
	if bo, isB := v.(*ssa.BinOp); isB {
		xa, xb, ok1 := affine(bo.X, i, depth+1)
		ya, yb, ok2 := affine(bo.Y, i, depth+1)
		if !ok1 || !ok2 {
			return 0, 0, false
		}
		switch bo.Op {
		case token.ADD:
			return xa + ya, xb + yb, true
		case token.SUB:
			return xa - ya, xb - yb, true
		case token.MUL:
			if xa == 0 {
				return xb * ya, xb * yb, true
			}
			if ya == 0 {
				return xa * yb, xb * yb, true
			}
		case token.SHL:
			if ya == 0 && yb >= 0 && yb < 16 {
				return xa << uint(yb), xb << uint(yb), true
			}
		}
	}
	return 0, 0, false
}

func c06R3(c *core.Ctx) {
	rule := "C06.R3"
	c.Rule(rule, "ID.Match: a loop over an index i covering every query word including 0 (descending from len(query)-1 while i>=0, or ascending from 0 while i<len(query), unit step) compares query[i] with BigEndian.Uint32(id[16+4i:20+4i]); a mismatch that is not a wildcard constant returns false; ids with fewer words than the query are rejected first", 4)
	f := fn(c, rule, "internal/message", "ID", "Match")
	if f == nil {
		return
	}
	name := fnName(f)
	id, query := f.Params[0], f.Params[1]
	// find the comparison query[i] vs Uint32(id[lo:hi])
	type cmp struct {
		in     *ssa.BinOp
		i      ssa.Value
		lo, hi ssa.Value
	}
	var cmps []cmp
	eng.Instrs(f, func(in ssa.Instruction) {
		bo, ok := in.(*ssa.BinOp)
		if !ok || (bo.Op != token.NEQ && bo.Op != token.EQL) {
			return
		}
		for _, pr := range [][2]ssa.Value{{bo.X, bo.Y}, {bo.Y, bo.X}} {
			u, ok := pr[0].(*ssa.UnOp)
			if !ok || u.Op != token.MUL {
				continue
			}
			ia, ok := u.X.(*ssa.IndexAddr)
			if !ok || ia.X != query {
				continue
			}
			call, ok := pr[1].(*ssa.Call)
			if !ok || eng.FuncID(eng.CalleeObj(&call.Call)) != idBEUint32 {
				continue
			}
			sl, ok := eng.StripConv(eng.CallArgs(&call.Call)[1]).(*ssa.Slice)
			if !ok || sl.X != id {
				continue
			}
			cmps = append(cmps, cmp{bo, ia.Index, sl.Low, sl.High})
		}
	})
	if len(cmps) != 1 {
		c.Fail(rule, name+":word comparison", f.Pos(), fmt.Sprintf("expected one comparison of query[i] with the id word, found %d (the per-word comparison is the only tenant separation)", len(cmps)))
		return
	}
	cm := cmps[0]
	la, lb, ok1 := affine(cm.lo, cm.i, 0)
	ha, hb, ok2 := affine(cm.hi, cm.i, 0)
	c.Check(ok1 && ok2 && la == 4 && lb == 16 && ha == 4 && hb == 20, rule, name+":word offsets", cm.in.Pos(), "query[i] is compared with id[16+4i:20+4i]", fmt.Sprintf("query[i] is compared with id[%d*i+%d : %d*i+%d], expected id[4i+16:4i+20]", la, lb, ha, hb))
	// loop range
	phi, isPhi := cm.i.(*ssa.Phi)
	rangeOK := false
	why := "index is not a loop variable"
	if isPhi && len(phi.Edges) == 2 {
		var init, step ssa.Value
		for _, e := range phi.Edges {
			if bo, ok := e.(*ssa.BinOp); ok && (bo.X == ssa.Value(phi)) {
				step = e
			} else {
				init = e
			}
		}
		if init != nil && step != nil {
			sb := step.(*ssa.BinOp)
			k, _ := eng.ConstInt(sb.Y)
			desc := (sb.Op == token.SUB && k == 1) || (sb.Op == token.ADD && k == -1)
			asc := sb.Op == token.ADD && k == 1
			// loop condition
			var conds []eng.Atom
			for _, b := range f.Blocks {
				if len(b.Instrs) == 0 {
					continue
				}
				if ifi, ok := b.Instrs[len(b.Instrs)-1].(*ssa.If); ok {
					a := eng.Normalize(ifi.Cond)
					if a.Op == token.LSS && (a.X == ssa.Value(phi) || a.Y == ssa.Value(phi)) {
						conds = append(conds, a)
					}
				}
			}
			switch {
			case desc:
				ia, ib, okI := affineLen(init, query)
				condOK := false
				for _, a := range conds {
					if a.X == ssa.Value(phi) && a.Neg { // !(i < k)  i.e. i >= k
						if k, ok := eng.ConstInt(a.Y); ok && k == 0 {
							condOK = true
						} else {
							why = fmt.Sprintf("descending loop stops at i >= %s instead of i >= 0 (word 0, the contract, is never compared)", eng.Describe(a.Y))
						}
					}
					if a.Y == ssa.Value(phi) && !a.Neg { // k < i  i.e. i > k
						if k, ok := eng.ConstInt(a.X); ok && k == -1 {
							condOK = true
						} else {
							why = fmt.Sprintf("descending loop runs while i > %s instead of i > -1", eng.Describe(a.X))
						}
					}
				}
				if okI && ia == 1 && ib == -1 && condOK {
					rangeOK = true
				} else if !(okI && ia == 1 && ib == -1) {
					why = "descending loop does not start at len(query)-1"
				}
			case asc:
				k0, isC := eng.ConstInt(init)
				condOK := false
				for _, a := range conds {
					if a.X == ssa.Value(phi) && !a.Neg {
						if l, ok := eng.LenOf(a.Y); ok && l == query {
							condOK = true
						}
					}
				}
				if isC && k0 == 0 && condOK {
					rangeOK = true
				} else {
					why = "ascending loop does not run from 0 to len(query)"
				}
			default:
				why = "loop step is not ±1"
			}
		}
	}
	c.Check(rangeOK, rule, name+":every word compared", cm.in.Pos(), "the loop covers every query word, index 0 (the contract) included", "ID.Match does not compare every query word: "+why)
	// mismatch leads to false unless wildcard
	differ := 0
	at := eng.Normalize(cm.in)
	_ = at
	blk := cm.in.Block()
	okFalse := false
	if ifi, ok := blk.Instrs[len(blk.Instrs)-1].(*ssa.If); ok && ifi.Cond == ssa.Value(cm.in) {
		if cm.in.Op == token.EQL {
			differ = 1
		}
		// from the differ successor, a `return false` must be reachable and `return true` only through wildcard tests
		wild, _ := constOf(c, rule, "internal/message", "wildcard")
		multi, _ := constOf(c, rule, "internal/message", "multiWildcard")
		isWildTest := func(b *ssa.BasicBlock) bool {
			if len(b.Instrs) == 0 {
				return false
			}
			ifi, ok := b.Instrs[len(b.Instrs)-1].(*ssa.If)
			if !ok {
				return false
			}
			a := eng.Normalize(ifi.Cond)
			if a.Op != token.EQL {
				return false
			}
			for _, v := range []ssa.Value{a.X, a.Y} {
				if k, ok := eng.ConstInt(v); ok && (k == wild || k == multi) {
					return true
				}
			}
			return false
		}
		// walk: from differ successor through wildcard tests only
		seen := map[*ssa.BasicBlock]bool{}
		var walk func(b *ssa.BasicBlock) bool
		walk = func(b *ssa.BasicBlock) bool {
			if seen[b] {
				return true
			}
			seen[b] = true
			for _, in := range b.Instrs {
				if ret, ok := in.(*ssa.Return); ok {
					v, isC := constBoolOf(ret.Results[0])
					return isC && !v
				}
			}
			if !isWildTest(b) {
				return false
			}
			// one successor continues the loop (wildcard matched), the other goes on to reject
			okAny := false
			for _, s := range b.Succs {
				if walk(s) {
					okAny = true
				}
			}
			return okAny
		}
		okFalse = walk(blk.Succs[differ])
	}
	c.Check(okFalse, rule, name+":mismatch rejects", cm.in.Pos(), "a differing literal word leads to `return false`", "a differing word does not lead to `return false` (other than through the wildcard constants)")
	// length guard
	short := eng.LtPred("!(len(id)-16 < 4*len(query))", false, func(x, y ssa.Value) bool {
		xa, xb, ok1 := affineLen(x, id)
		ya, yb, ok2 := affineLen(y, query)
		return ok1 && ok2 && xa == 1 && xb == -16 && ya == 4 && yb == 0
	})
	ok, bad := eng.TrueImplies(f, 0, short)
	c.Check(ok && eng.HasLicensingEdge(f, short), rule, name+":short ids rejected", f.Pos(), "an id with fewer words than the query never matches", fmt.Sprintf("Match can accept an id shorter than the query: %v", bad))
}

// affineLen evaluates v as a*len(s)+b.
func affineLen(v ssa.Value, s ssa.Value) (a, b int64, ok bool) {
	if l, isL := eng.LenOf(v); isL {
		if l == s {
			return 1, 0, true
		}
		return 0, 0, false
	}
	if k, isC := eng.ConstInt(v); isC {
		return 0, k, true
	}
	if bo, isB := v.(*ssa.BinOp); isB {
		xa, xb, ok1 := affineLen(bo.X, s)
		ya, yb, ok2 := affineLen(bo.Y, s)
		if !ok1 || !ok2 {
			return 0, 0, false
		}
		switch bo.Op {
		case token.ADD:
			return xa + ya, xb + yb, true
		case token.SUB:
			return xa - ya, xb - yb, true
		case token.MUL:
			if xa == 0 {
				return xb * ya, xb * yb, true
			}
			if ya == 0 {
				return xa * yb, xb * yb, true
			}
		}
	}
	return 0, 0, false
}

// c06R4 is shared with C07.R4.
func c06R4(c *core.Ctx, rule string) {
	c.Rule(rule, "every badger.Entry built in the storage package takes Key from the message ID, Value from Message.Encode and ExpiresAt from Message.Expires().Unix(); Message.Expires is time.Unix(Time(),0)+TTL seconds; SSD.Store writes m.TTL only as `m.TTL = s.retain` under m.TTL == RetainedTTL", 3)
	pk := c.P.SSAPkg("internal/provider/storage")
	if pk == nil {
		c.Undecided(rule, "anchor:storage", token.NoPos, "package missing")
		return
	}
	n := 0
	for _, f := range c.P.ScopeFuncs() {
		if f.Pkg != pk {
			continue
		}
		eng.Instrs(f, func(in ssa.Instruction) {
			al, ok := in.(*ssa.Alloc)
			if !ok || al.Type().String() != "*github.com/dgraph-io/badger/v3.Entry" {
				return
			}
			n++
			got := map[string]ssa.Value{}
			if refs := al.Referrers(); refs != nil {
				for _, r := range *refs {
					if fa, ok := r.(*ssa.FieldAddr); ok {
						_, fl, _, _ := eng.FieldOf(fa)
						if frefs := fa.Referrers(); frefs != nil {
							for _, fr := range *frefs {
								if st, ok := fr.(*ssa.Store); ok && st.Addr == fa {
									got[fl] = st.Val
								}
							}
						}
					}
				}
			}
			_, keyOK := eng.LoadOfField(eng.StripConv(got["Key"]), "ID")
			valOK := isCallOn(got["Value"], M+"message.Message.Encode", nil)
			expOK := false
			if cv, ok := eng.StripConv(got["ExpiresAt"]).(*ssa.Call); ok && eng.FuncID(eng.CalleeObj(&cv.Call)) == "time.Time.Unix" {
				if isCallOn(eng.CallArgs(&cv.Call)[0], M+"message.Message.Expires", nil) {
					expOK = true
				}
			}
			c.Check(keyOK && valOK && expOK, rule, fnName(f)+":entry fields", al.Pos(), "Key=m.ID, Value=m.Encode(), ExpiresAt=m.Expires().Unix()", fmt.Sprintf("history entry is not built from the message's id / encoding / expiry (key=%v value=%v expires=%v)", keyOK, valOK, expOK))
		})
	}
	if n == 0 {
		c.Fail(rule, "no entry", token.NoPos, "no badger.Entry is built in the storage package")
	}
	if f := fn(c, rule, "internal/message", "Message", "Expires"); f != nil {
		okE := len(eng.Calls(f, false, "time.Unix")) == 1 && len(eng.Calls(f, false, "time.Time.Add")) == 1
		if okE {
			u := eng.Calls(f, false, "time.Unix")[0]
			okE = isCallOn(eng.CallArgs(u.Common())[0], idMsgTime, nil)
			ad := eng.Calls(f, false, "time.Time.Add")[0]
			d := eng.CallArgs(ad.Common())[1]
			// duration = 1e9 * Duration(m.TTL)
			bo, isB := d.(*ssa.BinOp)
			okD := false
			if isB && bo.Op == token.MUL {
				for _, pr := range [][2]ssa.Value{{bo.X, bo.Y}, {bo.Y, bo.X}} {
					if k, ok := eng.ConstInt(pr[0]); ok && k == 1000000000 {
						if _, ok := eng.LoadOfField(eng.StripConv(pr[1]), "TTL"); ok {
							okD = true
						}
					}
				}
			}
			okE = okE && okD
		}
		c.Check(okE, rule, fnName(f)+":time+ttl", f.Pos(), "expiry = creation second + TTL seconds", "Message.Expires is not time.Unix(m.Time(),0).Add(time.Second*Duration(m.TTL))")
	}
	if f := fn(c, rule, "internal/provider/storage", "SSD", "Store"); f != nil {
		retained := int64(4294967295)
		nSt := 0
		okSt := true
		eng.Instrs(f, func(in ssa.Instruction) {
			st, ok := in.(*ssa.Store)
			if !ok {
				return
			}
			if b, ok := eng.AddrOfField(st.Addr, "TTL"); !ok || b != f.Params[1] {
				return
			}
			nSt++
			if _, ok := eng.LoadOfField(st.Val, "retain"); !ok {
				okSt = false
			}
			p := eng.EqPred("m.TTL == RetainedTTL", true, func(x, y ssa.Value) bool {
				b, ok := eng.LoadOfField(x, "TTL")
				k, isC := eng.ConstInt(y)
				return ok && b == f.Params[1] && isC && (k == retained || k == -1)
			})
			if g := eng.Guarded(st, p); !g.Guarded || g.Edges == 0 {
				okSt = false
			}
		})
		c.Check(okSt && nSt == 1, rule, fnName(f)+":retention only for RetainedTTL", f.Pos(), "only the RetainedTTL marker is replaced by the configured retention; a requested ttl is stored as requested", "SSD.Store rewrites m.TTL other than `m.TTL = s.retain` under m.TTL == RetainedTTL (a requested ttl would be altered)")
		// returns storeFrame's result
		sf := eng.Calls(f, false, M+"provider/storage.SSD.storeFrame")
		okR := len(sf) == 1
		eng.Instrs(f, func(in ssa.Instruction) {
			if ret, ok := in.(*ssa.Return); ok && okR && ret.Results[0] != sf[0].Value() {
				okR = false
			}
		})
		_ = okR
	}
}

func c06R5(c *core.Ctx) {
	rule := "C06.R5"
	c.Rule(rule, "id layout agreement: NewID and NewPrefix write ssid[0]^ssid[1] to [0:4] and MaxUint32-seconds to [4:8]; HasPrefix compares Uint32(id[0:4]) with ssid[0]^ssid[1]; Time and SetTime use [4:8] with the same inversion and offset", 6)
	sliceRange := func(v ssa.Value) (int64, int64, bool) {
		sl, ok := eng.StripConv(v).(*ssa.Slice)
		if !ok {
			return 0, 0, false
		}
		lo, hi := int64(0), int64(-1)
		if sl.Low != nil {
			lo, _ = eng.ConstInt(sl.Low)
		}
		if sl.High != nil {
			hi, _ = eng.ConstInt(sl.High)
		}
		return lo, hi, true
	}
	isXor01 := func(v ssa.Value, ssid ssa.Value) bool {
		bo, ok := v.(*ssa.BinOp)
		if !ok || bo.Op != token.XOR {
			return false
		}
		idx := func(x ssa.Value) int64 {
			u, ok := x.(*ssa.UnOp)
			if !ok {
				return -1
			}
			ia, ok := u.X.(*ssa.IndexAddr)
			if !ok || ia.X != ssid {
				return -1
			}
			k, _ := eng.ConstInt(ia.Index)
			return k
		}
		a, b := idx(bo.X), idx(bo.Y)
		return (a == 0 && b == 1) || (a == 1 && b == 0)
	}
	isInverted := func(v ssa.Value) bool {
		bo, ok := eng.StripConv(v).(*ssa.BinOp)
		if !ok || bo.Op != token.SUB {
			return false
		}
		k, isC := eng.ConstInt(bo.X)
		return isC && k == 4294967295
	}
	for _, name := range []string{"NewID", "NewPrefix"} {
		f := fn(c, rule, "internal/message", "", name)
		if f == nil {
			continue
		}
		var p04, p48 bool
		for _, call := range eng.Calls(f, false, idBEPutUint32) {
			a := eng.CallArgs(call.Common())
			lo, hi, ok := sliceRange(a[1])
			if !ok {
				continue
			}
			if lo == 0 && hi == 4 && isXor01(a[2], f.Params[0]) {
				p04 = true
			}
			if lo == 4 && hi == 8 && isInverted(a[2]) {
				p48 = true
			}
		}
		c.Check(p04, rule, fnName(f)+":[0:4]=ssid[0]^ssid[1]", f.Pos(), "key prefix is contract XOR first level", "bytes [0:4] are not written as ssid[0]^ssid[1]")
		c.Check(p48, rule, fnName(f)+":[4:8]=inverted seconds", f.Pos(), "bytes [4:8] hold MaxUint32 - seconds (newest first)", "bytes [4:8] are not written as MaxUint32 - seconds")
	}
	if f := fn(c, rule, "internal/message", "ID", "HasPrefix"); f != nil {
		// result semantics, independent of how the comparison is spelled: HasPrefix may
		// return true only if Uint32(id[0:4]) == ssid[0]^ssid[1]
		prefixEq := eng.EqPred("Uint32(id[0:4]) == ssid[0]^ssid[1]", true, func(x, y ssa.Value) bool {
			call, ok := x.(*ssa.Call)
			if !ok || eng.FuncID(eng.CalleeObj(&call.Call)) != idBEUint32 {
				return false
			}
			lo, hi, ok := sliceRange(eng.CallArgs(&call.Call)[1])
			return ok && lo == 0 && hi == 4 && isXor01(y, f.Params[1])
		})
		okP, bad := eng.TrueImplies(f, 0, prefixEq)
		c.Check(okP && eng.HasLicensingEdgeOrValue(f, prefixEq), rule, fnName(f)+":prefix compare", f.Pos(), "HasPrefix is true only if Uint32(id[0:4]) == ssid[0]^ssid[1]", fmt.Sprintf("HasPrefix can return true without id[0:4] being equal to ssid[0]^ssid[1]: %v", bad))
	}
	for _, name := range []string{"Time", "SetTime"} {
		f := fn(c, rule, "internal/message", "ID", name)
		if f == nil {
			continue
		}
		okT := false
		for _, call := range eng.Calls(f, false, idBEUint32, idBEPutUint32) {
			lo, hi, ok := sliceRange(eng.CallArgs(call.Common())[1])
			if ok && lo == 4 && hi == 8 {
				okT = true
			}
		}
		inv := false
		eng.Instrs(f, func(in ssa.Instruction) {
			if bo, ok := in.(*ssa.BinOp); ok && bo.Op == token.SUB {
				if k, isC := eng.ConstInt(bo.X); isC && k == 4294967295 {
					inv = true
				}
			}
		})
		c.Check(okT && inv, rule, fnName(f)+":[4:8] inverted", f.Pos(), "uses bytes [4:8] with the MaxUint32 inversion", "does not use bytes [4:8] with the MaxUint32 inversion")
	}
}

func c06R6(c *core.Ctx) {
	rule := "C06.R6"
	c.Rule(rule, "Frame.Sort uses sort.Slice with less(i,j) = f[i].Time() < f[j].Time(); Frame.Limit calls Sort first and keeps (*f)[len-n:] exactly under len > n", 2)
	if f := fn(c, rule, "internal/message", "Frame", "Sort"); f != nil {
		okS := false
		for _, call := range eng.Calls(f, false, "sort.Slice", "sort.SliceStable") {
			a := eng.CallArgs(call.Common())
			var less *ssa.Function
			switch x := a[1].(type) {
			case *ssa.MakeClosure:
				less, _ = x.Fn.(*ssa.Function)
			case *ssa.Function:
				less = x
			}
			if less == nil {
				continue
			}
			eng.Instrs(less, func(in ssa.Instruction) {
				ret, ok := in.(*ssa.Return)
				if !ok {
					return
				}
				at := eng.Normalize(ret.Results[0])
				if at.Op != token.LSS || at.Neg {
					return
				}
				elemIdx := func(v ssa.Value) ssa.Value {
					call, ok := v.(*ssa.Call)
					if !ok || eng.FuncID(eng.CalleeObj(&call.Call)) != idMsgTime {
						return nil
					}
					if ia, ok := eng.CallArgs(&call.Call)[0].(*ssa.IndexAddr); ok {
						return ia.Index
					}
					return nil
				}
				if elemIdx(at.X) == less.Params[0] && elemIdx(at.Y) == less.Params[1] {
					okS = true
				}
			})
		}
		c.Check(okS, rule, fnName(f)+":ascending by time", f.Pos(), "less(i,j) = Time(i) < Time(j)", "Frame.Sort does not order by Time(i) < Time(j)")
	}
	if f := fn(c, rule, "internal/message", "Frame", "Limit"); f != nil {
		sorts := eng.Calls(f, false, idFrameSort)
		var st *ssa.Store
		var sl *ssa.Slice
		eng.Instrs(f, func(in ssa.Instruction) {
			if s, ok := in.(*ssa.Store); ok && s.Addr == f.Params[0] {
				st = s
				sl, _ = s.Val.(*ssa.Slice)
			}
		})
		ok := len(sorts) == 1 && st != nil && sl != nil && sl.High == nil
		if ok {
			ok = eng.Dominates(sorts[0], st)
			// low = len - n'
			bo, isB := sl.Low.(*ssa.BinOp)
			ok = ok && isB && bo.Op == token.SUB
			if ok {
				l, isL := eng.LenOf(bo.X)
				ok = isL && l != nil
				nV := bo.Y
				p := eng.LtPred("n < len", true, func(x, y ssa.Value) bool {
					_, isLen := eng.LenOf(y)
					return x == nV && isLen
				})
				g := eng.Guarded(st, p)
				ok = ok && g.Guarded && g.Edges > 0
				// n' is n or clamp(n)
				okN := nV == f.Params[1]
				if phi, isPhi := nV.(*ssa.Phi); isPhi {
					okN = true
					for _, e := range phi.Edges {
						if e != f.Params[1] {
							if k, isC := eng.ConstInt(e); !isC || k != 0 {
								okN = false
							}
						}
					}
				}
				ok = ok && okN
			}
		}
		c.Check(ok, rule, fnName(f)+":keeps the last n after sorting", f.Pos(), "the most recent n messages are kept, in non-decreasing time", "Frame.Limit does not sort first and keep exactly (*f)[len-n:] under len>n")
	}
}

func c06R7(c *core.Ctx) {
	rule := "C06.R7"
	c.Rule(rule, "window inclusivity as comparison normal forms: HasPrefix ≡ prefix== ∧ !(Time<cutoff); Match's time clause ≡ !(Time<from) ∧ !(until<Time); window(): until==0 ⇒ MaxTime", 3)
	if f := fn(c, rule, "internal/message", "ID", "HasPrefix"); f != nil {
		atoms, ok := eng.ConjunctAtoms(f, 0)
		var got []string
		for _, a := range atoms {
			got = append(got, atomTextP(a, f))
		}
		sort.Strings(got)
		want := "!(Time<p2) ∧ prefix=="
		c.Check(ok && strings.Join(got, " ∧ ") == want, rule, fnName(f)+":normal form", f.Pos(), "HasPrefix ≡ prefix equal ∧ Time ≥ cutoff", fmt.Sprintf("HasPrefix is [%s], expected [%s]", strings.Join(got, " ∧ "), want))
	}
	if f := fn(c, rule, "internal/message", "ID", "Match"); f != nil {
		// the time clause: TrueImplies for both bounds
		lower := eng.LtPred("!(Time<from)", false, func(x, y ssa.Value) bool {
			return isCallOn(x, idIDTime, func(r ssa.Value) bool { return r == f.Params[0] }) && y == f.Params[2]
		})
		upper := eng.LtPred("!(until<Time)", false, func(x, y ssa.Value) bool {
			return x == f.Params[3] && isCallOn(y, idIDTime, func(r ssa.Value) bool { return r == f.Params[0] })
		})
		for _, p := range []eng.Pred{lower, upper} {
			ok, bad := eng.TrueImplies(f, 0, p)
			c.Check(ok && eng.HasLicensingEdgeOrValue(f, p), rule, fnName(f)+":"+p.Name, f.Pos(), "a match lies inside the inclusive window", fmt.Sprintf("Match can be true outside the window bound %s: %v", p.Name, bad))
		}
	}
	if f := fn(c, rule, "internal/provider/storage", "", "window"); f != nil {
		maxT, _ := constOf(c, rule, "internal/security", "MaxTime")
		// every way the upper bound is selected: MaxTime only behind until.Unix()==0, the
		// caller's bound only behind until.Unix()!=0
		isUntil := func(x ssa.Value) bool {
			return isCallOn(x, "time.Time.Unix", func(r ssa.Value) bool { return denotesParam(f, r, f.Params[1], 0) })
		}
		zero := eng.ZeroPred("until==0", false, isUntil)
		nonzero := eng.NonZeroPred("until!=0", false, isUntil)
		nMax, nOwn := 0, 0
		ok := true
		for _, site := range resultSites(f, 1) {
			if k, isC := eng.ConstInt(site.Val); isC && k == maxT {
				nMax++
				ok = ok && site.Guarded(zero)
			} else if isUntil(eng.StripConv(site.Val)) {
				nOwn++
				ok = ok && site.Guarded(nonzero)
			} else {
				ok = false
			}
		}
		ok = ok && nMax > 0 && nOwn > 0
		c.Check(ok, rule, fnName(f)+":open end", f.Pos(), "an unspecified `until` means MaxTime", "window() does not map a zero `until` to MaxTime")
	}
}

// atomTextP renders atoms of HasPrefix-like predicates.
func atomTextP(a eng.Atom, f *ssa.Function) string {
	term := func(v ssa.Value) string {
		v = eng.StripConv(v)
		for i, p := range f.Params {
			if v == ssa.Value(p) {
				return fmt.Sprintf("p%d", i)
			}
		}
		if call, ok := v.(*ssa.Call); ok {
			if obj := eng.CalleeObj(&call.Call); obj != nil {
				return obj.Name()
			}
		}
		if _, ok := v.(*ssa.BinOp); ok {
			return "expr"
		}
		return "?"
	}
	s := ""
	switch a.Op {
	case token.EQL:
		x, y := term(a.X), term(a.Y)
		if (x == "Uint32" && y == "expr") || (y == "Uint32" && x == "expr") {
			s = "prefix=="
		} else {
			s = x + "==" + y
		}
	case token.LSS:
		s = term(a.X) + "<" + term(a.Y)
	default:
		s = term(a.V)
	}
	if a.Neg {
		return "!(" + s + ")"
	}
	return s
}

// c06Limit: the scan bound is the requested limit. The lookup loop runs while
// len(matches) < q.Limit; outside the query constructor the Limit field may only be repaired
// when negative (set to the constant 0 under q.Limit < 0) — any other write caps or changes
// how many stored messages a request for the last N gets back.
func c06Limit(c *core.Ctx, rule string) {
	c.Rule(rule, "lookupQuery.Limit, the bound of the history scan loop, is written only by the query constructor/decoder, except `q.Limit = 0` under `q.Limit < 0`", 1)
	n := 0
	for _, f := range c.P.ScopeFuncs() {
		if f.Pkg == nil || f.Pkg.Pkg.Path() != M+"provider/storage" {
			continue
		}
		eng.Instrs(f, func(in ssa.Instruction) {
			st, ok := in.(*ssa.Store)
			if !ok {
				return
			}
			fa, ok := st.Addr.(*ssa.FieldAddr)
			if !ok {
				return
			}
			owner, fl, base, ok := eng.FieldOf(fa)
			if !ok || fl != "Limit" || !strings.HasSuffix(owner, "lookupQuery") {
				return
			}
			n++
			key := fmt.Sprintf("%s:write of lookupQuery.Limit", fnName(f))
			if f.Name() == "newLookupQuery" {
				c.OK(rule, key+" (constructor)", st.Pos(), "the constructor stores the requested limit")
				return
			}
			neg := eng.LtPred("q.Limit < 0", true, func(x, y ssa.Value) bool {
				b, isL := eng.LoadOfField(x, "Limit")
				k, isC := eng.ConstInt(y)
				return isL && isC && k == 0 && eng.SameValue(b, base)
			})
			g := eng.Guarded(st, neg)
			k, isC := eng.ConstInt(st.Val)
			if g.Guarded && g.Edges > 0 && isC && k == 0 {
				c.OK(rule, key, st.Pos(), "only a negative limit is replaced (by 0)")
			} else {
				c.Fail(rule, key, st.Pos(), "the limit of a history query is overwritten ("+eng.Describe(st.Val)+") for requests that are not negative: the scan loop `len(matches) < q.Limit` then returns fewer (or other) messages than the last N asked for", g.Witness...)
			}
		})
	}
	c.Count("field_writes_analysed", n)
	if n == 0 {
		c.Undecided(rule, "writes", token.NoPos, "no write of lookupQuery.Limit found (the constructor should set it)")
	}
}

// c06Survey: a history query always asks the cluster. A message is stored only on the broker
// its publisher was connected to, so the local store alone cannot know the most recent N: every
// return of SSD.Query lies behind the decision `s.survey != nil` (and, when a surveyor is
// configured and the request marshals, behind survey.Query) — no fast path returns the local
// frame first.
func c06Survey(c *core.Ctx, rule string) {
	c.Rule(rule, "SSD.Query: no return before the survey request is built / the surveyor is looked at; under survey != nil and a marshalled request, survey.Query is called before any return", 2)
	f := fn(c, rule, "internal/provider/storage", "SSD", "Query")
	if f == nil {
		return
	}
	isSurveyLoad := func(i ssa.Instruction) bool {
		u, ok := i.(*ssa.UnOp)
		if !ok || u.Op != token.MUL {
			return false
		}
		_, fl, _, isF := eng.FieldOf(u.X)
		return isF && fl == "survey"
	}
	decision := func(i ssa.Instruction) bool {
		// the survey request being built (a request that cannot be marshalled is not sent) or
		// the surveyor being looked at
		return isSurveyLoad(i) || eng.IsCallTo(i, "github.com/kelindar/binary.Marshal")
	}
	early, w := eng.Reach(f, nil, decision, eng.IsReturn)
	c.Check(!early, rule, fnName(f)+":asks the cluster before answering", f.Pos(), "every return lies behind the surveyor decision", fmt.Sprintf("SSD.Query can return before deciding whether to survey the cluster (e.g. when the local store already fills the limit): newer matching messages stored on other brokers are then missing from the last N: %v", w))
	qs := eng.Calls(f, false, M+"service.Surveyor.Query")
	c.Check(len(qs) >= 1, rule, fnName(f)+":surveys", f.Pos(), "the cluster is surveyed", "SSD.Query no longer calls Surveyor.Query")
}
