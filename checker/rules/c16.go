package rules

import (
	"fmt"
	"go/token"
	"sort"
	"strings"

	"golang.org/x/tools/go/ssa"

	"verif/checker/core"
	"verif/checker/eng"
)

const (
	pkgMQTT        = M + "network/mqtt"
	idWriteString  = pkgMQTT + ".writeString"
	idWriteUint16  = pkgMQTT + ".writeUint16"
	idWriteUint8   = pkgMQTT + ".writeUint8"
	idWriteHeader  = pkgMQTT + ".writeHeader"
	idReadString   = pkgMQTT + ".readString"
	idReadUint16   = pkgMQTT + ".readUint16"
	idEncodeLength = pkgMQTT + ".encodeLength"
)

// MQTT 3.1.1 tables, transcribed from the OASIS standard (§2.2.1 control packet types,
// §2.2.2 flags, §3.x variable header and payload layouts) — NOT from the code under analysis.
var (
	mqttTypeCode = map[string]int64{
		"Connect": 1, "Connack": 2, "Publish": 3, "Puback": 4, "Pubrec": 5, "Pubrel": 6, "Pubcomp": 7,
		"Subscribe": 8, "Suback": 9, "Unsubscribe": 10, "Unsuback": 11, "Pingreq": 12, "Pingresp": 13, "Disconnect": 14,
	}
	// field layouts: kind:Field ; "loop:" = repeated until the end of the packet
	mqttLayout = map[string][]string{
		"Connect":     {"str:ProtoName", "u8:Version", "u8:<flags>", "u16:KeepAlive", "str:ClientID", "str:WillTopic", "str:WillMessage", "str:Username", "str:Password"},
		"Connack":     {"u8:<ackflags>", "u8:ReturnCode"},
		"Publish":     {"str:Topic", "u16:MessageID", "raw:Payload"},
		"Puback":      {"u16:MessageID"},
		"Pubrec":      {"u16:MessageID"},
		"Pubrel":      {"u16:MessageID"},
		"Pubcomp":     {"u16:MessageID"},
		"Subscribe":   {"u16:MessageID", "loop:str:Topic", "loop:u8:Qos"},
		"Suback":      {"u16:MessageID", "loop:u8:Qos"},
		"Unsubscribe": {"u16:MessageID", "loop:str:Topic"},
		"Unsuback":    {"u16:MessageID"},
	}
	// optional fields and the flag that governs their presence (§3.1.3, §3.3.2.2)
	mqttGuards = map[string]map[string]string{
		"Connect": {"WillTopic": "WillFlag", "WillMessage": "WillFlag", "Username": "UsernameFlag", "Password": "PasswordFlag"},
		"Publish": {"MessageID": "QOS"},
	}
	// CONNECT flags byte (§3.1.2.3), bit 7 .. bit 0
	mqttConnectFlags = []string{"UsernameFlag.0", "PasswordFlag.0", "WillRetainFlag.0", "WillQOS.1", "WillQOS.0", "WillFlag.0", "CleanSeshFlag.0", "0"}
	// fixed header first byte (§2.2), bit 7 .. bit 0
	mqttFixedHeader = []string{"type.3", "type.2", "type.1", "type.0", "DUP.0", "QOS.1", "QOS.0", "Retain.0"}
)

func init() {
	register(&Prop{
		ID:  "C16",
		Run: runC16,
		Explanation: "Table agreement between the MQTT codec and MQTT 3.1.1 (tables transcribed in the checker from the standard, independent of the code): " +
			"(R1) for each of the 11 body-carrying packet types the ordered field list (u8/u16/length-prefixed string/raw rest, repetition, presence flag) extracted from EncodeTo equals the one extracted from the decoder and equals the standard's; every encoder passes its own type code to writeHeader, Type() returns it, DecodePacket dispatches that code to the decoder producing that struct, and the three empty packets encode as {type<<4, 0}; " +
			"(R2) bit provenance: a known-bits evaluation of the CONNECT flags byte and of the fixed-header first byte shows that the decoder reads each field from exactly the bit positions the standard prescribes and the encoder writes each field to exactly those positions (QoS fields are 2 bits wide by the property's precondition QoS 0–2); " +
			"(R3) the size check in DecodePacket precedes the body allocation (C09.R1); " +
			"(R4) remaining length: writeHeader obtains the length bytes from encodeLength on every path; encodeLength and the decoder's length loop are checked against the two reference loops of §2.2.3 (digit = x mod 128, x = x div 128, continuation bit 0x80 set iff x > 0, loop while x > 0; value += (digit and 127) * multiplier, multiplier *= 128, loop while digit and 128). " +
			"NOT decided: the byte values produced at the 1/2/3-byte boundaries as such, header placement arithmetic, payload bytes.",
		Assumptions: []string{"writeString/readString are the length-prefixed UTF-8 string codec of §1.5.3 (checked: u16 length + bytes)"},
	})
}

func runC16(c *core.Ctx) {
	c16R1(c)
	c16R2(c)
	c16R4(c)
	c16R5(c)
}

// originOf names where a value comes from: a struct field, a constant or an expression.
func originOf(v ssa.Value, depth int) string {
	if v == nil || depth > 6 {
		return "<expr>"
	}
	v = eng.StripConv(v)
	if k, ok := eng.ConstInt(v); ok {
		return fmt.Sprintf("const:%d", k)
	}
	if _, fl, _, ok := eng.FieldOf(v); ok {
		return fl
	}
	switch x := v.(type) {
	case *ssa.UnOp:
		if x.Op == token.MUL {
			if _, fl, _, ok := eng.FieldOf(x.X); ok {
				return fl
			}
			// range element: t := s.Subscriptions[i]; t.Topic
			if ia, ok := x.X.(*ssa.IndexAddr); ok {
				return originOf(ia.X, depth+1) + "[]"
			}
		}
	case *ssa.Field:
		_, fl, _, _ := eng.FieldOf(x)
		return fl
	case *ssa.Slice:
		return originOf(x.X, depth+1)
	}
	return "<expr>"
}

type codecOp struct {
	pos  token.Pos
	text string
	in   ssa.Instruction
}

// encoderLayout extracts the ordered body layout of an EncodeTo method.
func encoderLayout(f *ssa.Function) []codecOp {
	var ops []codecOp
	eng.Instrs(f, func(in ssa.Instruction) {
		call, ok := in.(*ssa.Call)
		if !ok {
			return
		}
		id := eng.FuncID(eng.CalleeObj(&call.Call))
		kind := ""
		var val ssa.Value
		switch id {
		case idWriteString:
			kind, val = "str", call.Call.Args[1]
		case idWriteUint16:
			kind, val = "u16", call.Call.Args[1]
		case idWriteUint8:
			kind, val = "u8", call.Call.Args[1]
		default:
			if b, isB := call.Call.Value.(*ssa.Builtin); isB && b.Name() == "copy" {
				kind, val = "raw", call.Call.Args[1]
			}
		}
		if kind == "" {
			return
		}
		o := originOf(val, 0)
		if i := strings.LastIndex(o, "."); i >= 0 {
			o = o[i+1:]
		}
		pre := ""
		if eng.InLoop(in) {
			pre = "loop:"
		}
		ops = append(ops, codecOp{in.Pos(), pre + kind + ":" + o, in})
	})
	sort.Slice(ops, func(i, j int) bool { return ops[i].pos < ops[j].pos })
	return ops
}

// fieldReceiving finds the struct field a decoded value is stored to.
func fieldReceiving(v ssa.Value, depth int) string {
	if v == nil || depth > 4 {
		return ""
	}
	refs := v.Referrers()
	if refs == nil {
		return ""
	}
	for _, r := range *refs {
		switch x := r.(type) {
		case *ssa.Store:
			if x.Val == v {
				if _, fl, _, ok := eng.FieldOf(x.Addr); ok {
					return fl
				}
				// element of a varargs array handed to append(...)
				if ia, ok := x.Addr.(*ssa.IndexAddr); ok {
					if al, ok := ia.X.(*ssa.Alloc); ok {
						if f := fieldReceiving(al, depth+1); f != "" {
							return f
						}
					}
				}
				// stored into a local that is then copied into a field
				if al, ok := x.Addr.(*ssa.Alloc); ok {
					if arefs := al.Referrers(); arefs != nil {
						for _, ar := range *arefs {
							if u, ok := ar.(*ssa.UnOp); ok && u.Op == token.MUL {
								if f := fieldReceiving(u, depth+1); f != "" {
									return f
								}
							}
						}
					}
				}
			}
		case *ssa.Convert:
			if f := fieldReceiving(x, depth+1); f != "" {
				return f
			}
		case *ssa.ChangeType:
			if f := fieldReceiving(x, depth+1); f != "" {
				return f
			}
		case *ssa.Extract:
			if x.Index == 0 {
				if f := fieldReceiving(x, depth+1); f != "" {
					return f
				}
			}
		case *ssa.Phi:
			if f := fieldReceiving(x, depth+1); f != "" {
				return f
			}
		case *ssa.Call:
			// append(qoses, qos)
			if b, isB := x.Call.Value.(*ssa.Builtin); isB && b.Name() == "append" {
				if f := fieldReceiving(x, depth+1); f != "" {
					return f
				}
			}
		case *ssa.Slice:
			if f := fieldReceiving(x, depth+1); f != "" {
				return f
			}
		case *ssa.IndexAddr:
			// varargs array for append
			if irefs := x.Referrers(); irefs != nil && x.X != v {
				_ = irefs
			}
		}
	}
	return ""
}

// decoderLayout extracts the ordered body layout of a decodeX function.
func decoderLayout(f *ssa.Function) []codecOp {
	var ops []codecOp
	data := f.Params[0]
	eng.Instrs(f, func(in ssa.Instruction) {
		pre := ""
		if eng.InLoop(in) {
			pre = "loop:"
		}
		switch x := in.(type) {
		case *ssa.Call:
			id := eng.FuncID(eng.CalleeObj(&x.Call))
			switch id {
			case idReadString:
				fld := fieldReceiving(x, 0)
				ops = append(ops, codecOp{in.Pos(), pre + "str:" + fld, in})
			case idReadUint16:
				fld := fieldReceiving(x, 0)
				ops = append(ops, codecOp{in.Pos(), pre + "u16:" + fld, in})
			}
		case *ssa.UnOp:
			if x.Op != token.MUL {
				return
			}
			if ia, ok := x.X.(*ssa.IndexAddr); ok && ia.X == data {
				fld := fieldReceiving(x, 0)
				if fld == "" {
					fld = "<flags>"
				}
				ops = append(ops, codecOp{in.Pos(), pre + "u8:" + fld, in})
			}
		case *ssa.Slice:
			if x.X == data && x.High == nil {
				fld := fieldReceiving(x, 0)
				if fld != "" {
					ops = append(ops, codecOp{in.Pos(), pre + "raw:" + fld, in})
				}
			}
		}
	})
	sort.Slice(ops, func(i, j int) bool { return ops[i].pos < ops[j].pos })
	return ops
}

func layoutStrings(ops []codecOp) []string {
	var out []string
	for _, o := range ops {
		out = append(out, o.text)
	}
	return out
}

func c16R1(c *core.Ctx) {
	rule := "C16.R1"
	c.Rule(rule, "per packet type: field layout(EncodeTo) = field layout(decoder) = MQTT 3.1.1 table; optional fields are written/read exactly under their flag; type codes: writeHeader argument = Type() = standard code = DecodePacket dispatch; empty packets encode as {code<<4, 0}", 40)
	types := make([]string, 0, len(mqttTypeCode))
	for t := range mqttTypeCode {
		types = append(types, t)
	}
	sort.Strings(types)
	for _, t := range types {
		code := mqttTypeCode[t]
		enc := c.P.Func("internal/network/mqtt", t, "EncodeTo")
		if enc == nil || enc.Blocks == nil {
			c.Undecided(rule, t+":EncodeTo", token.NoPos, "anchor missing: mqtt."+t+".EncodeTo")
			continue
		}
		c.Count("functions_analysed", 1)
		// type code
		tf := c.P.Func("internal/network/mqtt", t, "Type")
		okType := false
		if tf != nil {
			for _, rv := range eng.ResultValues(tf, 0) {
				if k, ok := eng.ConstInt(rv); ok && k == code {
					okType = true
				}
			}
		}
		c.Check(okType, rule, t+":Type() code", enc.Pos(), fmt.Sprintf("Type() = %d as in MQTT 3.1.1 §2.2.1", code), fmt.Sprintf("%s.Type() does not return the standard's packet type %d", t, code))
		want, hasBody := mqttLayout[t]
		if !hasBody {
			// empty packet: w.Write([]byte{code<<4, 0})
			okEmpty := false
			var b0, b1 int64 = -1, -1
			eng.Instrs(enc, func(in ssa.Instruction) {
				if st, ok := in.(*ssa.Store); ok {
					if ia, ok := st.Addr.(*ssa.IndexAddr); ok {
						i, _ := eng.ConstInt(ia.Index)
						v, isC := eng.ConstInt(st.Val)
						if isC && i == 0 {
							b0 = v
						}
						if isC && i == 1 {
							b1 = v
						}
					}
				}
			})
			okEmpty = b0 == code<<4 && b1 == 0
			c.Check(okEmpty, rule, t+":empty packet bytes", enc.Pos(), fmt.Sprintf("encodes as {0x%02x, 0x00}", code<<4), fmt.Sprintf("%s encodes as {0x%02x, 0x%02x}, the standard requires {0x%02x, 0x00}", t, b0, b1, code<<4))
			continue
		}
		whs := eng.Calls(enc, false, idWriteHeader)
		okWH := len(whs) == 1
		if okWH {
			k, isC := eng.ConstInt(eng.CallArgs(whs[0].Common())[1])
			okWH = isC && k == code
		}
		c.Check(okWH, rule, t+":header type code", enc.Pos(), fmt.Sprintf("writeHeader is given type %d", code), fmt.Sprintf("%s.EncodeTo does not pass the standard type code %d to writeHeader", t, code))
		eops := encoderLayout(enc)
		got := layoutStrings(eops)
		// normalise: Connack's leading constant 0 byte, Connect's computed flags byte
		norm := func(s []string) string {
			var out []string
			for _, x := range s {
				x = strings.Replace(x, "u8:const:0", "u8:<ackflags>", 1)
				x = strings.Replace(x, "u8:<expr>", "u8:<flags>", 1)
				x = strings.Replace(x, "[]", "", -1)
				out = append(out, x)
			}
			return strings.Join(out, ", ")
		}
		c.Check(norm(got) == strings.Join(want, ", "), rule, t+":encoder layout", enc.Pos(), "EncodeTo writes ["+strings.Join(want, ", ")+"]", fmt.Sprintf("%s.EncodeTo writes [%s], MQTT 3.1.1 prescribes [%s]", t, norm(got), strings.Join(want, ", ")))
		dec := c.P.Func("internal/network/mqtt", "", "decode"+t)
		if dec == nil || dec.Blocks == nil {
			c.Undecided(rule, t+":decoder", token.NoPos, "anchor missing: mqtt.decode"+t)
			continue
		}
		c.Count("functions_analysed", 1)
		dops := decoderLayout(dec)
		dgot := layoutStrings(dops)
		dwant := append([]string{}, want...)
		if t == "Connack" {
			dwant = []string{"u8:ReturnCode"} // the acknowledge-flags byte is skipped, not stored
		}
		c.Check(strings.Join(dgot, ", ") == strings.Join(dwant, ", "), rule, t+":decoder layout", dec.Pos(), "decoder reads ["+strings.Join(dwant, ", ")+"]", fmt.Sprintf("decode%s reads [%s], MQTT 3.1.1 prescribes [%s]", t, strings.Join(dgot, ", "), strings.Join(dwant, ", ")))
		if t == "Connack" {
			// ReturnCode is byte 1
			okIdx := false
			for _, o := range dops {
				if u, ok := o.in.(*ssa.UnOp); ok {
					if ia, ok := u.X.(*ssa.IndexAddr); ok {
						if k, isC := eng.ConstInt(ia.Index); isC && k == 1 {
							okIdx = true
						}
					}
				}
			}
			c.Check(okIdx, rule, t+":return code at byte 1", dec.Pos(), "the return code is the second byte", "decodeConnack does not read the return code from byte 1")
		}
		// optional fields under their flags, on both sides
		for fld, flag := range mqttGuards[t] {
			for side, ops := range map[string][]codecOp{"encoder": eops, "decoder": dops} {
				fn := enc
				if side == "decoder" {
					fn = dec
				}
				for _, o := range ops {
					if !strings.HasSuffix(o.text, ":"+fld) {
						continue
					}
					pred := eng.Pred{Name: flag, Match: func(a eng.Atom) (bool, bool) {
						if a.Op == token.ILLEGAL {
							if _, fl, _, ok := eng.FieldOf(eng.StripConv(a.V)); ok && fl == flag {
								return true, true
							}
						}
						if a.Op == token.LSS { // 0 < QOS
							if k, ok := eng.ConstInt(a.X); ok && k == 0 {
								if _, fl, _, ok := eng.FieldOf(eng.StripConv(a.Y)); ok && fl == flag {
									return true, true
								}
							}
						}
						return false, false
					}}
					g := eng.Guarded(o.in, pred)
					ok2, _ := eng.MustFollow(fn, []eng.Pred{pred}, func(i ssa.Instruction) bool {
						if i == o.in {
							return true
						}
						// a return that reports an error is not a completed encode/decode
						return isErrorReturn(i)
					})
					c.Check(g.Guarded && g.Edges > 0 && ok2, rule, fmt.Sprintf("%s:%s %s iff %s", t, side, fld, flag), o.in.Pos(), fld+" is present exactly when "+flag+" is set", fmt.Sprintf("the %s handles %s not exactly under %s (MQTT 3.1.1: the field is present iff the flag is set)", side, fld, flag))
				}
			}
		}
	}
	// DecodePacket dispatch
	dp := fn(c, rule, "internal/network/mqtt", "", "DecodePacket")
	if dp != nil {
		for _, t := range types {
			code := mqttTypeCode[t]
			callee := pkgMQTT + ".decode" + t
			calls := eng.Calls(dp, false, callee)
			if _, hasBody := mqttLayout[t]; !hasBody {
				continue
			}
			if len(calls) != 1 {
				c.Fail(rule, t+":dispatch", dp.Pos(), fmt.Sprintf("DecodePacket does not call decode%s exactly once", t))
				continue
			}
			pred := eng.EqPred(fmt.Sprintf("messageType == %d", code), true, func(x, y ssa.Value) bool {
				k, ok := eng.ConstInt(y)
				return ok && k == code
			})
			g := eng.Guarded(calls[0], pred)
			c.Check(g.Guarded && g.Edges > 0, rule, t+":dispatch", calls[0].Pos(), fmt.Sprintf("type %d is decoded by decode%s", code, t), fmt.Sprintf("decode%s is not dispatched exactly under messageType == %d", t, code))
			// the decoder builds that struct
			if d := c.P.Func("internal/network/mqtt", "", "decode"+t); d != nil {
				okT := false
				eng.Instrs(d, func(in ssa.Instruction) {
					if al, ok := in.(*ssa.Alloc); ok && al.Heap && strings.HasSuffix(al.Type().String(), "mqtt."+t) {
						okT = true
					}
				})
				c.Check(okT, rule, t+":decoder result type", d.Pos(), "decode"+t+" builds a *"+t, "decode"+t+" does not build a *"+t)
			}
		}
	}
	// writeString / readString are the §1.5.3 string codec
	if ws := fn(c, rule, "internal/network/mqtt", "", "writeString"); ws != nil {
		u16 := eng.Calls(ws, false, idWriteUint16)
		ok := len(u16) == 1
		if ok {
			l, isL := eng.LenOf(eng.StripConv(eng.CallArgs(u16[0].Common())[1]))
			ok = isL && l == ws.Params[1]
		}
		c.Check(ok, rule, "writeString:u16 length prefix", ws.Pos(), "strings are written as big-endian u16 length + bytes", "writeString does not write len(v) as a u16 prefix")
	}
	if rs := fn(c, rule, "internal/network/mqtt", "", "readString"); rs != nil {
		u16 := eng.Calls(rs, false, idReadUint16)
		c.Check(len(u16) == 1, rule, "readString:u16 length prefix", rs.Pos(), "strings are read as u16 length + bytes", "readString does not read a u16 length prefix")
	}
	for _, nm := range []string{"writeUint16", "readUint16"} {
		if f := fn(c, rule, "internal/network/mqtt", "", nm); f != nil {
			// big endian: byte 0 is the high byte
			ev := &eng.BitEval{}
			ok := false
			if nm == "writeUint16" {
				eng.Instrs(f, func(in ssa.Instruction) {
					if st, isSt := in.(*ssa.Store); isSt {
						if ia, isIA := st.Addr.(*ssa.IndexAddr); isIA {
							if i, _ := eng.ConstInt(ia.Index); i == 0 {
								ev.Source = func(v ssa.Value) (string, int, bool) {
									if v == f.Params[1] {
										return "v", 16, true
									}
									return "", 0, false
								}
								b := ev.Bits(st.Val)
								ok = len(b) == 8 && b[0] == (eng.Bit{Kind: 2, Src: "v", Idx: 8}) && b[7] == (eng.Bit{Kind: 2, Src: "v", Idx: 15})
							}
						}
					}
				})
			} else {
				ev.Source = func(v ssa.Value) (string, int, bool) {
					if u, isU := v.(*ssa.UnOp); isU && u.Op == token.MUL {
						if ia, isIA := u.X.(*ssa.IndexAddr); isIA && ia.X == f.Params[0] {
							// index: *startsAt or *startsAt+1
							if _, isB := ia.Index.(*ssa.BinOp); isB {
								return "b1", 8, true
							}
							return "b0", 8, true
						}
					}
					return "", 0, false
				}
				for _, rv := range eng.ResultValues(f, 0) {
					b := ev.Bits(rv)
					ok = len(b) == 16 && b[0] == (eng.Bit{Kind: 2, Src: "b1", Idx: 0}) && b[8] == (eng.Bit{Kind: 2, Src: "b0", Idx: 0}) && b[15] == (eng.Bit{Kind: 2, Src: "b0", Idx: 7})
				}
			}
			c.Check(ok, rule, nm+":big endian", f.Pos(), "most significant byte first (§1.5.2)", nm+" is not big-endian")
		}
	}
}

func c16R2(c *core.Ctx) {
	rule := "C16.R2"
	c.Rule(rule, "bit tables: decodeConnect reads each CONNECT flag from, and Connect.EncodeTo writes each to, the bit positions of §3.1.2.3 (7 user, 6 password, 5 will-retain, 4–3 will-QoS, 2 will, 1 clean session); decodeHeader reads type/DUP/QoS/RETAIN from bits 7–4/3/2–1/0 and writeHeader writes them there", 12)
	b2i := func(f *ssa.Function) bool { return eng.IsBoolToInt(f) }
	// ---- decodeConnect
	if f := fn(c, rule, "internal/network/mqtt", "", "decodeConnect"); f != nil {
		// the flags byte: the u8 read that is not stored to a field
		var flags ssa.Value
		for _, o := range decoderLayout(f) {
			if o.text == "u8:<flags>" {
				flags = o.in.(ssa.Value)
			}
		}
		if flags == nil {
			c.Fail(rule, "decodeConnect:flags byte", f.Pos(), "cannot find the flags byte read")
		} else {
			ev := &eng.BitEval{BoolToInt: b2i, Source: func(v ssa.Value) (string, int, bool) {
				if v == flags {
					return "flags", 8, true
				}
				return "", 0, false
			}}
			want := map[string]string{"UsernameFlag": "flags.7", "PasswordFlag": "flags.6", "WillRetainFlag": "flags.5", "WillQOS": "flags.4 flags.3", "WillFlag": "flags.2", "CleanSeshFlag": "flags.1"}
			got := map[string]string{}
			eng.Instrs(f, func(in ssa.Instruction) {
				st, ok := in.(*ssa.Store)
				if !ok {
					return
				}
				_, fl, _, okF := eng.FieldOf(st.Addr)
				if !okF {
					return
				}
				if _, w := want[fl]; !w {
					return
				}
				b := ev.Bits(st.Val)
				// strip leading zeros
				hi := len(b)
				for hi > 1 && b[hi-1].Kind == 0 {
					hi--
				}
				got[fl] = eng.BitsString(b[:hi])
			})
			for fl, w := range want {
				c.Check(got[fl] == w, rule, "decodeConnect:"+fl+" bits", f.Pos(), fl+" = "+w, fmt.Sprintf("decodeConnect computes %s from bits [%s] of the flags byte (value bit order MSB first); MQTT 3.1.1 §3.1.2.3 places it at [%s]", fl, got[fl], w))
			}
		}
	}
	// ---- Connect.EncodeTo flags byte
	if f := c.P.Func("internal/network/mqtt", "Connect", "EncodeTo"); f != nil && f.Blocks != nil {
		var flagVal ssa.Value
		for _, o := range encoderLayout(f) {
			if strings.HasSuffix(o.text, "u8:<expr>") {
				flagVal = o.in.(*ssa.Call).Call.Args[1]
			}
		}
		if flagVal == nil {
			c.Fail(rule, "Connect.EncodeTo:flags byte", f.Pos(), "cannot find the flags byte write")
		} else {
			ev := &eng.BitEval{BoolToInt: b2i, Source: func(v ssa.Value) (string, int, bool) {
				if _, fl, _, ok := eng.FieldOf(v); ok {
					if _, isLoad := v.(*ssa.UnOp); isLoad {
						w := 1
						if fl == "WillQOS" {
							w = 2
						}
						return fl, w, true
					}
				}
				return "", 0, false
			}}
			got := eng.BitsString(ev.Bits(flagVal))
			want := strings.Join(mqttConnectFlags, " ")
			c.Check(got == want, rule, "Connect.EncodeTo:flags byte", f.Pos(), "flags byte = ["+want+"]", fmt.Sprintf("Connect.EncodeTo builds the flags byte as [%s] (bit 7 first); MQTT 3.1.1 §3.1.2.3 prescribes [%s]", got, want))
		}
	}
	// ---- decodeHeader
	if f := fn(c, rule, "internal/network/mqtt", "", "decodeHeader"); f != nil {
		var first ssa.Value
		eng.Instrs(f, func(in ssa.Instruction) {
			if call, ok := in.(*ssa.Call); ok && call.Call.IsInvoke() && call.Call.Method.Name() == "ReadByte" && first == nil {
				first = extractOf(call, 0)
			}
		})
		if first == nil {
			c.Fail(rule, "decodeHeader:first byte", f.Pos(), "cannot find the first byte read")
		} else {
			ev := &eng.BitEval{BoolToInt: b2i, Source: func(v ssa.Value) (string, int, bool) {
				if v == first {
					return "b", 8, true
				}
				return "", 0, false
			}}
			want := map[string]string{"DUP": "b.3", "QOS": "b.2 b.1", "Retain": "b.0"}
			got := map[string]string{}
			eng.Instrs(f, func(in ssa.Instruction) {
				st, ok := in.(*ssa.Store)
				if !ok {
					return
				}
				_, fl, _, okF := eng.FieldOf(st.Addr)
				if !okF {
					return
				}
				if _, w := want[fl]; !w {
					return
				}
				b := ev.Bits(st.Val)
				hi := len(b)
				for hi > 1 && b[hi-1].Kind == 0 {
					hi--
				}
				got[fl] = eng.BitsString(b[:hi])
			})
			for fl, w := range want {
				c.Check(got[fl] == w, rule, "decodeHeader:"+fl+" bits", f.Pos(), fl+" = "+w, fmt.Sprintf("decodeHeader computes %s from bits [%s] of the first byte; MQTT 3.1.1 §2.2.2 places it at [%s]", fl, got[fl], w))
			}
			// message type
			okT := false
			for _, rv := range eng.ResultValues(f, 2) {
				b := ev.Bits(rv)
				hi := len(b)
				for hi > 1 && b[hi-1].Kind == 0 {
					hi--
				}
				if eng.BitsString(b[:hi]) == "b.7 b.6 b.5 b.4" {
					okT = true
				}
			}
			c.Check(okT, rule, "decodeHeader:type bits", f.Pos(), "packet type = bits 7–4", "decodeHeader does not take the packet type from bits 7–4 of the first byte")
		}
	}
	// ---- writeHeader
	if f := fn(c, rule, "internal/network/mqtt", "", "writeHeader"); f != nil {
		ev := &eng.BitEval{BoolToInt: b2i, Source: func(v ssa.Value) (string, int, bool) {
			if v == f.Params[1] {
				return "type", 4, true
			}
			if _, fl, _, ok := eng.FieldOf(v); ok {
				if _, isLoad := v.(*ssa.UnOp); isLoad {
					w := 1
					if fl == "QOS" {
						w = 2
					}
					return fl, w, true
				}
			}
			return "", 0, false
		}}
		// the value stored as the first header byte: a store to buf[...] of a phi / or-chain
		full, bare := false, false
		eng.Instrs(f, func(in ssa.Instruction) {
			st, ok := in.(*ssa.Store)
			if !ok {
				return
			}
			ia, ok := st.Addr.(*ssa.IndexAddr)
			if !ok || ia.X != f.Params[0] {
				return
			}
			var cases [][]eng.Bit
			if phi, isPhi := eng.StripConv(st.Val).(*ssa.Phi); isPhi {
				cases = ev.PhiCases(phi)
			} else {
				cases = [][]eng.Bit{ev.Bits(eng.StripConv(st.Val))}
			}
			for _, bits := range cases {
				s := eng.BitsString(bits)
				if s == strings.Join(mqttFixedHeader, " ") {
					full = true
				}
				if s == "type.3 type.2 type.1 type.0 0 0 0 0" {
					bare = true
				}
			}
		})
		c.Check(full, rule, "writeHeader:first byte with flags", f.Pos(), "first byte = ["+strings.Join(mqttFixedHeader, " ")+"]", "writeHeader does not build the first byte as [type.3..0 DUP QoS.1 QoS.0 RETAIN] when a header is given")
		c.Check(bare, rule, "writeHeader:first byte without flags", f.Pos(), "first byte = type<<4 when no header flags are given", "writeHeader does not build the first byte as type<<4 when h is nil")
	}
}

func c16R4(c *core.Ctx) {
	rule := "C16.R4"
	c.Rule(rule, "remaining length (§2.2.3): writeHeader calls encodeLength(uint32(length)) on every path and stores only bytes of its bit field as length bytes; encodeLength: digit = x mod 128, x = x div 128, digit |= 0x80 iff x > 0, loop while x > 0; decodeHeader: value += (digit & 127) * multiplier, multiplier *= 128, loop while (digit & 128) != 0", 9)
	if f := fn(c, rule, "internal/network/mqtt", "", "writeHeader"); f != nil {
		els := eng.Calls(f, false, idEncodeLength)
		ok := len(els) == 1
		if ok {
			ok2, w := eng.MustPass(f, nil, func(i ssa.Instruction) bool { return i == els[0].(ssa.Instruction) })
			arg := eng.StripConv(eng.CallArgs(els[0].Common())[0])
			c.Check(ok2 && arg == f.Params[3], rule, "writeHeader:length through encodeLength", els[0].Pos(), "every length is encoded by encodeLength", fmt.Sprintf("a path of writeHeader bypasses encodeLength(length) (a hand-rolled fast path mis-encodes a boundary value): %v", w))
			// every non-first byte stored derives from the bit field
			bf := extractOf(els[0].Value(), 1)
			okStores := true
			n := 0
			eng.Instrs(f, func(in ssa.Instruction) {
				st, isSt := in.(*ssa.Store)
				if !isSt {
					return
				}
				ia, isIA := st.Addr.(*ssa.IndexAddr)
				if !isIA || ia.X != f.Params[0] {
					return
				}
				n++
				v := eng.StripConv(st.Val)
				if bo, isB := v.(*ssa.BinOp); isB && bo.Op == token.SHR && bo.X == bf {
					return
				}
				if _, isPhi := v.(*ssa.Phi); isPhi {
					return // the first byte
				}
				if bo, isB := v.(*ssa.BinOp); isB && bo.Op == token.OR {
					return // first byte or-chain
				}
				okStores = false
			})
			c.Check(okStores && n == 2, rule, "writeHeader:length bytes from the bit field", f.Pos(), "the header holds the first byte and bytes of encodeLength's bit field only", "writeHeader stores a header byte that is neither the first byte nor a byte of encodeLength's result")
		} else {
			c.Fail(rule, "writeHeader:length through encodeLength", f.Pos(), fmt.Sprintf("expected one encodeLength call, found %d", len(els)))
		}
	}
	hasBin := func(f *ssa.Function, op token.Token, k int64) *ssa.BinOp {
		var out *ssa.BinOp
		eng.Instrs(f, func(in ssa.Instruction) {
			if bo, ok := in.(*ssa.BinOp); ok && bo.Op == op {
				if kv, isC := eng.ConstInt(bo.Y); isC && kv == k {
					out = bo
				}
			}
		})
		return out
	}
	if f := fn(c, rule, "internal/network/mqtt", "", "encodeLength"); f != nil {
		mod := hasBin(f, token.REM, 128)
		if mod == nil {
			mod = hasBin(f, token.AND, 127)
		}
		div := hasBin(f, token.QUO, 128)
		if div == nil {
			div = hasBin(f, token.SHR, 7)
		}
		cont := hasBin(f, token.OR, 128)
		c.Check(mod != nil, rule, "encodeLength:digit = x mod 128", f.Pos(), "low seven bits per digit", "encodeLength does not take x mod 128 as the digit")
		c.Check(div != nil, rule, "encodeLength:x = x div 128", f.Pos(), "seven bits consumed per digit", "encodeLength does not divide by 128 per digit")
		okCont := false
		if cont != nil && div != nil {
			more := eng.LtPred("0 < x div 128", true, func(x, y ssa.Value) bool {
				k, ok := eng.ConstInt(x)
				return ok && k == 0 && y == ssa.Value(div)
			})
			g := eng.Guarded(cont, more)
			ok2, _ := eng.MustFollow(f, []eng.Pred{more}, func(i ssa.Instruction) bool { return i == ssa.Instruction(cont) })
			okCont = g.Guarded && g.Edges > 0 && ok2
		}
		c.Check(okCont, rule, "encodeLength:continuation bit iff more digits", f.Pos(), "0x80 is set exactly when x div 128 > 0", "encodeLength does not set the continuation bit 0x80 exactly when further digits follow")
		// loop while x > 0 : the loop condition tests the phi of x against 0
		okLoop := false
		for _, b := range f.Blocks {
			if len(b.Instrs) == 0 {
				continue
			}
			if ifi, ok := b.Instrs[len(b.Instrs)-1].(*ssa.If); ok {
				a := eng.Normalize(ifi.Cond)
				if a.Op == token.LSS && !a.Neg {
					if k, isC := eng.ConstInt(a.X); isC && k == 0 {
						if phi, isPhi := a.Y.(*ssa.Phi); isPhi {
							for _, e := range phi.Edges {
								if div != nil && e == ssa.Value(div) {
									okLoop = true
								}
							}
						}
					}
				}
			}
		}
		c.Check(okLoop, rule, "encodeLength:loop while x > 0", f.Pos(), "digits are produced until the quotient is zero", "encodeLength's loop is not `while x > 0` over the divided value")
		// zero length encodes as one zero byte
		okZero := false
		eng.Instrs(f, func(in ssa.Instruction) {
			if ret, ok := in.(*ssa.Return); ok && len(ret.Results) == 2 {
				n, c1 := eng.ConstInt(ret.Results[0])
				v, c2 := eng.ConstInt(ret.Results[1])
				if c1 && c2 && n == 1 && v == 0 {
					okZero = true
				}
			}
		})
		c.Check(okZero, rule, "encodeLength:zero", f.Pos(), "length 0 is one zero byte", "encodeLength(0) is not (1 byte, 0)")
	}
	if f := fn(c, rule, "internal/network/mqtt", "", "decodeHeader"); f != nil {
		low := hasBin(f, token.AND, 127)
		mul := hasBin(f, token.MUL, 128)
		if mul == nil {
			mul = hasBin(f, token.SHL, 7)
		}
		cont := hasBin(f, token.AND, 128)
		okAcc := false
		if low != nil {
			// value += uint32(low) * multiplier
			eng.Instrs(f, func(in ssa.Instruction) {
				if bo, ok := in.(*ssa.BinOp); ok && bo.Op == token.MUL {
					if eng.StripConv(bo.X) == ssa.Value(low) || eng.StripConv(bo.Y) == ssa.Value(low) {
						if refs := bo.Referrers(); refs != nil {
							for _, r := range *refs {
								if add, ok := r.(*ssa.BinOp); ok && add.Op == token.ADD {
									okAcc = true
								}
							}
						}
					}
				}
			})
		}
		c.Check(okAcc, rule, "decodeHeader:value += (digit & 127) * multiplier", f.Pos(), "each digit contributes its low seven bits times the multiplier", "decodeHeader does not accumulate (digit & 127) * multiplier")
		okMul := false
		if mul != nil {
			if phi, ok := mul.X.(*ssa.Phi); ok {
				for _, e := range phi.Edges {
					if k, isC := eng.ConstInt(e); isC && k == 1 {
						okMul = true
					}
				}
			}
		}
		c.Check(okMul, rule, "decodeHeader:multiplier *= 128 from 1", f.Pos(), "the multiplier starts at 1 and grows by 128 per digit", "decodeHeader's multiplier is not 1, 128, 128², …")
		// another digit is read exactly when bit 7 of the digit just accumulated is set: from the
		// accumulation, the next ReadByte lies behind (digit&128)!=0 and the successful return
		// behind (digit&128)==0, however the loop is spelled
		okCont := false
		_ = cont
		var acc ssa.Instruction
		if low != nil {
			eng.Instrs(f, func(in ssa.Instruction) {
				if bo, ok := in.(*ssa.BinOp); ok && bo.Op == token.MUL && (eng.StripConv(bo.X) == ssa.Value(low) || eng.StripConv(bo.Y) == ssa.Value(low)) {
					acc = bo
				}
			})
		}
		if acc != nil {
			digit := eng.StripConv(low.X)
			isCont := func(x ssa.Value) bool {
				bo, ok := eng.StripConv(x).(*ssa.BinOp)
				if !ok || bo.Op != token.AND {
					return false
				}
				if k, isC := eng.ConstInt(bo.Y); !isC || k != 128 {
					return false
				}
				o := eng.StripConv(bo.X)
				if o == digit {
					return true
				}
				if phi, isPhi := o.(*ssa.Phi); isPhi {
					for _, e := range phi.Edges {
						if eng.StripConv(e) == digit {
							return true
						}
					}
				}
				if phi, isPhi := digit.(*ssa.Phi); isPhi { // digit itself is the loop-carried value
					return o == ssa.Value(phi)
				}
				return false
			}
			more := eng.NonZeroPred("(digit&128)!=0", true, isCont)
			last := eng.ZeroPred("(digit&128)==0", true, isCont)
			g1 := eng.GuardedBetween(acc, func(i ssa.Instruction) bool { return isCallNamed(i, "ReadByte") }, more)
			g2 := eng.GuardedBetween(acc, func(i ssa.Instruction) bool {
				ret, ok := i.(*ssa.Return)
				return ok && len(ret.Results) == 4 && eng.IsNilConst(ret.Results[3])
			}, last)
			okCont = g1.Guarded && g1.Edges > 0 && g2.Guarded && g2.Edges > 0 && eng.InLoop(acc)
		}
		c.Check(okCont, rule, "decodeHeader:loop while continuation bit", f.Pos(), "digits are read while bit 7 is set", "decodeHeader's length loop is not `while (digit & 128) != 0`")
	}
}

// isErrorReturn: the instruction is a return whose error result is a sentinel error
// (package-level variable), a freshly created error, or the error of a failed read — as
// opposed to nil or the pass-through result of the final Write.
func isErrorReturn(i ssa.Instruction) bool {
	ret, ok := i.(*ssa.Return)
	if !ok || len(ret.Results) != 2 {
		return false
	}
	ev := ret.Results[1]
	if u, isU := ev.(*ssa.UnOp); isU && u.Op == token.MUL {
		if al, isAl := u.X.(*ssa.Alloc); isAl {
			// result spilled to a local (function with defer): take the store in this block
			ev = nil
			for _, in := range ret.Block().Instrs {
				if st, isSt := in.(*ssa.Store); isSt && st.Addr == al {
					ev = st.Val
				}
			}
			if ev == nil {
				return false
			}
		}
	}
	if eng.IsNilConst(ev) {
		return false
	}
	switch x := ev.(type) {
	case *ssa.UnOp:
		_, isG := x.X.(*ssa.Global)
		return isG
	case *ssa.Call:
		id := eng.FuncID(eng.CalleeObj(&x.Call))
		return id == "errors.New" || id == "fmt.Errorf"
	case *ssa.Extract:
		if call, isCall := x.Tuple.(*ssa.Call); isCall {
			if call.Call.IsInvoke() && call.Call.Method.Name() == "Write" {
				return false
			}
			return true
		}
	}
	return false
}

// c16R5: a length guard in a packet decoder must not be stricter than the standard. For an
// `if len(data) < start+k { return error }` placed in front of the read that starts at
// `start`, k may not exceed the number of bytes the mandatory fields still to come occupy at
// least (u8 1, u16 2, string 2 — an empty string is legal —, raw 0; optional and repeated
// fields 0), taken from the MQTT 3.1.1 table. The rule reports only guards it can read
// completely (other shapes are counted, not judged): it is about rejections of well-formed
// packets, e.g. `<=` for `<`, which make a CONNECT with an empty client id undecodable.
func c16R5(c *core.Ctx) {
	rule := "C16.R5"
	c.Rule(rule, "length guards in packet decoders reject only packets shorter than the mandatory fields that follow (MQTT 3.1.1 minimum sizes); expected today: no guard, the overlay mutant C16-connect-guard-off-by-one is the positive example", 1)
	width := map[string]int64{"u8": 1, "u16": 2, "str": 2, "raw": 0}
	nGuards, nJudged, nDec := 0, 0, 0
	for t, want := range mqttLayout {
		if t == "Connack" {
			continue
		}
		dec := c.P.Func("internal/network/mqtt", "", "decode"+t)
		if dec == nil || dec.Blocks == nil {
			continue
		}
		nDec++
		data := ssa.Value(dec.Params[0])
		dops := decoderLayout(dec)
		isRead := map[ssa.Instruction]bool{}
		for _, o := range dops {
			isRead[o.in] = true
		}
		lenOfData := func(v ssa.Value) bool {
			b, ok := eng.LenOf(eng.StripConv(v))
			return ok && b == data
		}
		for _, b := range dec.Blocks {
			iff, ok := b.Instrs[len(b.Instrs)-1].(*ssa.If)
			if !ok {
				continue
			}
			cond := iff.Cond
			neg := false
			for {
				if u, ok := cond.(*ssa.UnOp); ok && u.Op == token.NOT {
					cond, neg = u.X, !neg
					continue
				}
				break
			}
			bo, ok := cond.(*ssa.BinOp)
			if !ok {
				continue
			}
			op := bo.Op
			var e ssa.Value
			switch {
			case lenOfData(bo.X):
				e = bo.Y
			case lenOfData(bo.Y):
				e = bo.X
				switch op { // mirror: E op len  ==  len op' E
				case token.LSS:
					op = token.GTR
				case token.LEQ:
					op = token.GEQ
				case token.GTR:
					op = token.LSS
				case token.GEQ:
					op = token.LEQ
				}
			default:
				continue
			}
			// which successor rejects?
			rejects := func(s *ssa.BasicBlock) bool {
				for _, in := range s.Instrs {
					if isRead[in] {
						return false
					}
				}
				ret, ok := s.Instrs[len(s.Instrs)-1].(*ssa.Return)
				return ok && isErrorReturn(ret)
			}
			r0, r1 := rejects(b.Succs[0]), rejects(b.Succs[1])
			if r0 == r1 {
				continue
			}
			nGuards++
			condTrueRejects := r0 != neg // Succs[0] is taken when the (un-negated) condition is true
			if !condTrueRejects {
				switch op { // reject on false: negate the relation
				case token.LSS:
					op = token.GEQ
				case token.LEQ:
					op = token.GTR
				case token.GTR:
					op = token.LEQ
				case token.GEQ:
					op = token.LSS
				default:
					continue
				}
			}
			extra := int64(0)
			switch op {
			case token.LSS:
			case token.LEQ:
				extra = 1
			default:
				continue // an upper bound, not a minimum-length guard
			}
			// E = X + k | k
			e = eng.StripConv(e)
			var x ssa.Value
			k, isC := eng.ConstInt(e)
			if !isC {
				if add, ok := e.(*ssa.BinOp); ok && add.Op == token.ADD {
					if kk, ok := eng.ConstInt(add.Y); ok {
						x, k, isC = eng.StripConv(add.X), kk, true
					} else if kk, ok := eng.ConstInt(add.X); ok {
						x, k, isC = eng.StripConv(add.Y), kk, true
					}
				} else {
					x, k, isC = e, 0, true
				}
			}
			if !isC {
				continue
			}
			// reads before the guard, and the start of the next read
			p := 0
			for _, o := range dops {
				if eng.Dominates(o.in, iff) {
					p++
				}
			}
			if p >= len(dops) || p >= len(want) {
				continue
			}
			var start ssa.Value
			switch y := dops[p].in.(type) {
			case *ssa.UnOp:
				if ia, ok := y.X.(*ssa.IndexAddr); ok {
					start = ia.Index
				}
			case *ssa.Call:
				for _, a := range eng.CallArgs(&y.Call) {
					if sl, ok := a.(*ssa.Slice); ok && sl.X == data {
						start = sl.Low
					}
				}
			}
			rel := int64(-1)
			if x == nil {
				if start == nil {
					rel = k // absolute guard in front of a read that starts at 0
				} else if s, ok := eng.ConstInt(start); ok {
					rel = k - s
				}
			} else if start != nil && eng.SameValue(eng.StripConv(start), x) {
				rel = k
			}
			if rel < 0 {
				continue
			}
			nJudged++
			need := rel + extra
			var min int64
			for _, fld := range want[p:] {
				if strings.HasPrefix(fld, "loop:") {
					continue
				}
				parts := strings.SplitN(fld, ":", 2)
				if _, optional := mqttGuards[t][parts[1]]; optional {
					continue
				}
				min += width[parts[0]]
			}
			key := fmt.Sprintf("%s:length guard before %s", t, want[p])
			if need > min {
				c.Fail(rule, key, iff.Pos(), fmt.Sprintf("decode%s rejects packets with fewer than %d bytes left at this point, but the mandatory fields still to come (%s) occupy as little as %d bytes in a well-formed MQTT 3.1.1 packet (empty strings are legal): such packets are refused although the standard accepts them", t, need, strings.Join(want[p:], ", "), min))
			} else {
				c.OK(rule, key, iff.Pos(), fmt.Sprintf("requires %d bytes, the mandatory fields need at least %d", need, min))
			}
		}
	}
	c.Count("decoders_analysed", nDec)
	c.Count("length_guards_found", nGuards)
	c.Count("length_guards_judged", nJudged)
	if nJudged == 0 {
		c.OK(rule, "no over-strict length guard", token.NoPos, fmt.Sprintf("%d decoders, %d length guards found, none that rejects a well-formed packet", nDec, nGuards))
	}
}
