package rules

import (
	"go/token"
	"go/types"
	"strings"

	"golang.org/x/tools/go/ssa"

	"verif/checker/core"
	"verif/checker/eng"
)

// authenticity primitives: a call of one of these between base64 decoding and the use of the
// decrypted bytes would make a modified key string detectable.
var authPrimitives = []string{
	"crypto/hmac.Equal",
	"crypto/subtle.ConstantTimeCompare",
	"golang.org/x/crypto/nacl/secretbox.Open",
	"golang.org/x/crypto/poly1305.Verify",
	"crypto/cipher.AEAD.Open",
	"golang.org/x/crypto/chacha20poly1305.chacha20poly1305.Open",
}

func init() {
	register(&Prop{
		ID:  "C12",
		Run: runC12,
		Explanation: "Integrity-before-trust rule for 'a key cannot be altered into a more powerful one': the bytes of a client-supplied key string become an authorisation token (security.Key) in license.Cipher.DecryptKey. " +
			"(R1) For every implementation of license.Cipher the checker searches DecryptKey and everything it calls inside the cipher package for an authenticity primitive (hmac.Equal, subtle.ConstantTimeCompare over a MAC, secretbox/AEAD Open, poly1305.Verify). None of the three ciphers has one: Salsa and Shuffle are XOR stream constructions (every plaintext bit, including the permission byte, flips with the ciphertext bit), Xtea is unauthenticated 3-block ECB. These are recorded as known findings (a design-level defect: the 24-byte/32-character key format has no room for a tag); a fourth cipher without authentication, or a change that makes one of the three reachable without the remaining tamper evidence, is a new violation. " +
			"(R2) The only tamper evidence that exists — contract.Validate comparing master id, signature, contract id and state, on the path of every Authorize — is checked as in C03.R1/R3. " +
			"NOT decided: probabilities of a modified key being accepted.",
		Assumptions: []string{"the list of authenticity primitives is complete for the libraries in the module graph"},
	})
}

func runC12(c *core.Ctx) {
	rule := "C12.R1"
	c.Rule(rule, "every license.Cipher implementation authenticates the key bytes (a call of an authenticity primitive is reachable from DecryptKey inside the cipher package) before handing out a security.Key", 3)
	n := c.P.Type("internal/security/license", "Cipher")
	if n == nil {
		c.Undecided(rule, "anchor:license.Cipher", token.NoPos, "anchor missing")
		return
	}
	impls := c.P.Implementers(n.Underlying().(*types.Interface))
	if len(impls) == 0 {
		c.Undecided(rule, "impls", token.NoPos, "no implementation of license.Cipher")
	}
	cg := c.P.CG()
	for _, t := range impls {
		f := c.P.MethodOf(t, "DecryptKey")
		if f == nil || f.Blocks == nil {
			continue
		}
		reach := cg.Reachable(f)
		found := ""
		xor := false
		for g := range reach {
			if g.Pkg != f.Pkg {
				continue
			}
			eng.Instrs(g, func(in ssa.Instruction) {
				if eng.IsCallTo(in, authPrimitives...) {
					found = eng.FuncID(eng.CalleeObj(in.(ssa.CallInstruction).Common()))
				}
				if eng.IsCallTo(in, "golang.org/x/crypto/salsa20/salsa.XORKeyStream") {
					xor = true
				}
			})
		}
		kind := "unauthenticated block cipher (no MAC / AEAD)"
		if xor {
			kind = "XOR stream construction without MAC: every plaintext bit (including the permission byte) flips with the corresponding ciphertext bit"
		}
		name := t.Obj().Name()
		c.Count("functions_analysed", len(reach))
		c.Check(found != "", rule, "cipher."+name+".DecryptKey:authenticated", f.Pos(), "key bytes are authenticated by "+found, "cipher "+name+" turns client-supplied bytes into a security.Key without any authenticity check — "+kind)
	}
	// R2: the remaining tamper evidence
	c03R3as(c, "C12.R2")
	c12Validate(c)
	_ = strings.TrimSpace
	saltRule(c, "C12.R4")
	c20R5as(c, "C12.R5")
	keyTextRule(c, "C12.R6")
	c03R6(c) // shared with C03 (reported as C03.R6): key field byte ranges
	c20R2(c) // shared with C20 (reported as C20.R2): only 32-character strings reach the decoder
}

func c12Validate(c *core.Ctx) {
	rule := "C12.R3"
	c.Rule(rule, "every production Authorizer: the success return is cut off by contract.Validate(key) of the decrypted key (the only tamper evidence on master id, contract and signature)", 1)
	for _, f := range authorizerImpls(c, rule) {
		name := fnName(f)
		dec, _, why := resolveDecrypt(f)
		if dec == nil {
			c.Undecided(rule, name+":DecryptKey", f.Pos(), why)
			continue
		}
		key := extractOf(dec, 0)
		pred := eng.CallPred("contract.Validate(key)", idContractValid, -1, true, func(a []ssa.Value) bool {
			return len(a) == 2 && key != nil && eng.SameValue(a[1], key)
		})
		eng.Instrs(f, func(in ssa.Instruction) {
			ret, ok := in.(*ssa.Return)
			if !ok || len(ret.Results) != 3 {
				return
			}
			if b, isC := constBoolOf(ret.Results[2]); isC && !b {
				return
			}
			g := eng.Guarded(ret, pred)
			c.Check(g.Guarded && g.Edges > 0, rule, name+":Validate on the path", ret.Pos(), "a key whose embedded signature/contract/master id were altered is refused", "Authorize can succeed without contract.Validate(key)")
		})
	}
}

// keyTextRule: one spelling per key. A ban is stored and looked up by the key *text*
// (event.Ban(channel.Key)), authority comes from the decrypted bytes; every step between the
// text a client presents and the cipher must therefore be the identity, otherwise a second
// text (padded, re-cased, trimmed) decrypts to the same key and walks past the ban:
// broker.Service.Authorize hands keygen.DecryptKey string(channel.Key) — the very bytes the
// ban lookup used — and keygen.Service.DecryptKey hands the cipher []byte(key) of its
// parameter, untransformed. (The decode table, C20.R5, covers the cipher's side.)
func keyTextRule(c *core.Ctx, rule string) {
	c.Rule(rule, "the key text is passed unchanged from the request to the cipher: Authorize decrypts string(channel.Key), the value the ban lookup is keyed by; keygen.Service.DecryptKey passes []byte(key) of its parameter to Cipher.DecryptKey without any transformation", 2)
	if f := fn(c, rule, "internal/service/keygen", "Service", "DecryptKey"); f != nil {
		calls := eng.Calls(f, false, idCipherDecrypt)
		ok, why := len(calls) == 1, "expected one Cipher.DecryptKey call"
		if ok {
			a := eng.CallArgs(calls[0].Common())[1]
			cv, isConv := a.(*ssa.Convert)
			ok = isConv && cv.X == ssa.Value(f.Params[1])
			why = "the cipher receives " + eng.Describe(a) + " instead of []byte(key)"
		}
		c.Check(ok, rule, fnName(f)+":text reaches the cipher unchanged", f.Pos(), "the cipher is given the bytes of the key parameter itself", "keygen.DecryptKey transforms the key text before decrypting ("+why+"): texts that differ from a banned key only by what the transformation removes decrypt to the same key and are not banned")
	}
	for _, f := range authorizerImpls(c, rule) {
		dec, _, _ := resolveDecrypt(f)
		if dec == nil {
			continue
		}
		args := eng.CallArgs(&dec.Call)
		a := args[len(args)-1]
		isChanKey := func(v ssa.Value) bool {
			// a local holding the text (its address is what the ban lookup is given)
			if u, ok := v.(*ssa.UnOp); ok && u.Op == token.MUL {
				if al, ok := u.X.(*ssa.Alloc); ok {
					n := 0
					for _, r := range *al.Referrers() {
						if st, ok := r.(*ssa.Store); ok && st.Addr == ssa.Value(al) {
							n++
							v = st.Val
						}
					}
					if n != 1 {
						return false
					}
				}
			}
			cv, ok := v.(*ssa.Convert)
			if !ok {
				return false
			}
			b, isKey := eng.LoadOfField(cv.X, "Key")
			return isKey && b == ssa.Value(f.Params[1])
		}
		c.Check(isChanKey(a), rule, fnName(f)+":decrypts the text the ban lookup saw", dec.Pos(), "DecryptKey is given string(channel.Key)", "Authorize decrypts "+eng.Describe(a)+" rather than string(channel.Key), the text the ban lookup is keyed by")
	}
}
