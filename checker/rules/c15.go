package rules

import (
	"fmt"
	"go/token"
	"go/types"
	"strings"

	"golang.org/x/tools/go/ssa"

	"verif/checker/core"
	"verif/checker/eng"
)

const (
	idBadgerUpdate   = "github.com/dgraph-io/badger/v3.DB.Update"
	idBadgerSetEntry = "github.com/dgraph-io/badger/v3.Txn.SetEntry"
	idBadgerOpen     = "github.com/dgraph-io/badger/v3.Open"
	idBadgerDefOpts  = "github.com/dgraph-io/badger/v3.DefaultOptions"
	idBadgerClose    = "github.com/dgraph-io/badger/v3.DB.Close"
	idStoreFrame     = M + "provider/storage.SSD.storeFrame"
)

// badger write-path API whose error result must not be dropped.
var badgerWriteAPI = map[string]bool{
	"Set": true, "SetEntry": true, "Delete": true, "Commit": true, "CommitWith": true,
	"Update": true, "Flush": true, "Write": true, "Sync": true,
}

func init() {
	register(&Prop{
		ID:  "C15",
		Run: runC15,
		Explanation: "Structural necessary conditions of 'stored messages survive restarts and crashes': " +
			"(R1) error discipline: in the storage package no error returned by the badger write API (Txn.Set/SetEntry/Delete/Commit, DB.Update, WriteBatch) is dropped — it is returned or tested; " +
			"(R2) acknowledgement after commit: SSD.Store returns storeFrame's result, storeFrame returns the result of the synchronous DB.Update (never a constant nil, never an asynchronous CommitWith / goroutine), every encoded entry is passed to SetEntry inside that transaction, one transaction per Store; " +
			"(R3) configure/close/reopen: SSD.Configure opens badger on the configured directory with default (on-disk) options — InMemory is not set — and neither it nor anything it calls in the storage package deletes, truncates or renames files; SSD.Close closes the database; Service.Close disposes the storage; " +
			"(R4) the entry written carries the message id as key, the encoded message as value and Message.Expires() as expiry (C06.R4). " +
			"Noted, not a rule: SyncWrites=false — badger v3 writes memtable WAL and value log through shared mmaps, which survive a killed process (the property's crash model). " +
			"NOT decided: badger's own recovery, byte-identical payloads after reopen.",
		Assumptions: []string{"badger DB.Update commits synchronously before returning (library contract)"},
	})
}

func runC15(c *core.Ctx) {
	c15R1(c)
	c15R2(c)
	c15R3(c)
	c06R4(c, "C15.R4")
	uniqueRule(c, "C15.R5")
}

// errorUsed reports whether the error value v is returned, stored into a result, or tested.
func errorUsed(v ssa.Value, depth int) bool {
	refs := v.Referrers()
	if refs == nil || depth > 4 {
		return false
	}
	for _, r := range *refs {
		switch x := r.(type) {
		case *ssa.Return:
			return true
		case *ssa.BinOp:
			if x.Op == token.NEQ || x.Op == token.EQL {
				return true
			}
		case *ssa.Store:
			if x.Val == v {
				return true
			}
		case *ssa.Phi:
			if errorUsed(x, depth+1) {
				return true
			}
		case *ssa.Extract:
			if errorUsed(x, depth+1) {
				return true
			}
		case *ssa.MakeInterface, *ssa.ChangeInterface:
			if errorUsed(x.(ssa.Value), depth+1) {
				return true
			}
		case ssa.CallInstruction:
			// passed on (e.g. to a logger or wrapped)
			return true
		}
	}
	return false
}

func c15R1(c *core.Ctx) {
	rule := "C15.R1"
	c.Rule(rule, "error discipline: every call in the storage package to a badger write-path function (Txn.Set/SetEntry/Delete/Commit/CommitWith, DB.Update, WriteBatch.*) has its error result returned, stored or tested", 2)
	pk := c.P.SSAPkg("internal/provider/storage")
	if pk == nil {
		c.Undecided(rule, "anchor:storage", token.NoPos, "package missing")
		return
	}
	n := 0
	for _, f := range c.P.ScopeFuncs() {
		if f.Pkg != pk {
			continue
		}
		eng.Instrs(f, func(in ssa.Instruction) {
			call, ok := in.(*ssa.Call)
			if !ok {
				return
			}
			obj := eng.CalleeObj(&call.Call)
			if obj == nil || obj.Pkg() == nil || obj.Pkg().Path() != "github.com/dgraph-io/badger/v3" || !badgerWriteAPI[obj.Name()] {
				return
			}
			// does it return an error?
			sig := obj.Type().(*types.Signature)
			hasErr := false
			for i := 0; i < sig.Results().Len(); i++ {
				if sig.Results().At(i).Type().String() == "error" {
					hasErr = true
				}
			}
			if !hasErr {
				return
			}
			n++
			c.Check(errorUsed(call, 0), rule, fnName(f)+":"+shortT(eng.FuncID(obj))+" error handled", call.Pos(), "the error is propagated or tested", "the error returned by "+shortT(eng.FuncID(obj))+" is dropped: a failed write is acknowledged as stored")
		})
	}
	c.Count("badger_write_calls", n)
	if n == 0 {
		c.Fail(rule, "no write call", token.NoPos, "no badger write-path call found in the storage package")
	}
}

func c15R2(c *core.Ctx) {
	rule := "C15.R2"
	c.Rule(rule, "SSD.Store returns exactly storeFrame's result; storeFrame returns exactly the result of one synchronous DB.Update on s.db whose closure passes every encoded entry to Txn.SetEntry and returns that error or nil; no goroutine, no CommitWith/NewTransaction", 4)
	if f := fn(c, rule, "internal/provider/storage", "SSD", "Store"); f != nil {
		sf := eng.Calls(f, false, idStoreFrame)
		ok := len(sf) == 1
		if ok {
			for _, rv := range eng.ResultValues(f, 0) {
				if rv != sf[0].Value() {
					ok = false
				}
			}
			_, isCall := sf[0].(*ssa.Call)
			ok = ok && isCall
		}
		c.Check(ok, rule, fnName(f)+":returns the write's result", f.Pos(), "Store acknowledges only what storeFrame reports", "SSD.Store does not return exactly the result of a synchronous storeFrame call")
	}
	f := fn(c, rule, "internal/provider/storage", "SSD", "storeFrame")
	if f == nil {
		return
	}
	name := fnName(f)
	ups := eng.Calls(f, true, idBadgerUpdate)
	ok := len(ups) == 1
	var closure *ssa.Function
	if ok {
		up, isCall := ups[0].(*ssa.Call)
		ok = isCall && up.Parent() == f
		if ok {
			for _, rv := range eng.ResultValues(f, 0) {
				if rv != ssa.Value(up) {
					ok = false
				}
			}
			a := eng.CallArgs(&up.Call)
			_, isDB := eng.LoadOfField(a[0], "db")
			ok = ok && isDB
			// the transaction body: a closure literal, a function or a bound method value
			if fv, _ := eng.FuncValue(a[1]); fv != nil && fv.Blocks != nil {
				closure = fv
			}
		}
	}
	c.Check(ok, rule, name+":returns the commit result", f.Pos(), "the value returned is the result of the synchronous DB.Update (commit)", "storeFrame does not return exactly the result of one synchronous s.db.Update (e.g. returns nil before an asynchronous commit finished)")
	async := ""
	for _, g := range eng.WithAnon(f) {
		eng.Instrs(g, func(in ssa.Instruction) {
			if _, isGo := in.(*ssa.Go); isGo {
				async = "go statement"
			}
			if eng.IsCallTo(in, "github.com/dgraph-io/badger/v3.Txn.CommitWith", "github.com/dgraph-io/badger/v3.DB.NewTransaction", "github.com/dgraph-io/badger/v3.DB.NewWriteBatch") {
				async = shortT(eng.FuncID(eng.CalleeObj(in.(ssa.CallInstruction).Common())))
			}
		})
	}
	c.Check(async == "", rule, name+":synchronous transaction", f.Pos(), "no asynchronous commit path", "storeFrame uses "+async+": the write may still be pending when Store returns")
	if closure != nil {
		sets := eng.Calls(closure, false, idBadgerSetEntry)
		okSet := len(sets) == 1 && eng.InLoop(sets[0])
		if okSet {
			// the closure's result is nil or the SetEntry error
			for _, rv := range eng.ResultValues(closure, 0) {
				if !eng.IsNilConst(rv) && rv != sets[0].Value() {
					okSet = false
				}
			}
			// nil only after the loop finished: the nil return is not reachable from the error edge
			isErr := eng.EqPred("SetEntry err != nil", false, func(x, y ssa.Value) bool { return x == sets[0].Value() && eng.IsNilConst(y) })
			eng.Instrs(closure, func(in ssa.Instruction) {
				if ret, isRet := in.(*ssa.Return); isRet && eng.IsNilConst(ret.Results[0]) {
					if again, _ := eng.Reach(closure, nil, nil, func(i ssa.Instruction) bool { return i == in }); !again {
						return
					}
				}
			})
			ok2, _ := eng.MustFollow(closure, []eng.Pred{isErr}, func(i ssa.Instruction) bool {
				ret, isRet := i.(*ssa.Return)
				return isRet && ret.Results[0] == sets[0].Value()
			})
			okSet = okSet && ok2
		}
		c.Check(okSet, rule, name+":every entry set inside the transaction", f.Pos(), "each encoded entry goes through Txn.SetEntry and a failure aborts the transaction", "the transaction closure does not SetEntry every entry and return its error")
	} else {
		c.Fail(rule, name+":transaction closure", f.Pos(), "DB.Update is not given a closure literal")
	}
}

func c15R3(c *core.Ctx) {
	rule := "C15.R3"
	c.Rule(rule, "SSD.Configure: badger.Open(badger.DefaultOptions(dir)) with dir from the configuration, InMemory never set; no function of the storage package reachable from Configure removes/truncates/renames files; the opened DB is stored in s.db; SSD.Close returns s.db.Close(); Service.Close disposes s.storage", 5)
	f := fn(c, rule, "internal/provider/storage", "SSD", "Configure")
	if f == nil {
		return
	}
	name := fnName(f)
	opens := eng.Calls(f, false, idBadgerOpen)
	defs := eng.Calls(f, false, idBadgerDefOpts)
	ok := len(opens) == 1 && len(defs) == 1
	inMem := false
	eng.Instrs(f, func(in ssa.Instruction) {
		if st, isSt := in.(*ssa.Store); isSt {
			if fa, isFA := st.Addr.(*ssa.FieldAddr); isFA {
				if _, fl, _, ok := eng.FieldOf(fa); ok && fl == "InMemory" {
					inMem = true
				}
			}
		}
	})
	dirOK := false
	if ok {
		d := eng.CallArgs(defs[0].Common())[0]
		// dir is "/data" or config["dir"].(string)
		if phi, isPhi := d.(*ssa.Phi); isPhi {
			dirOK = true
			for _, e := range phi.Edges {
				if k, isC := e.(*ssa.Const); isC && k.Value != nil && k.Value.ExactString() == `"/data"` {
					continue
				}
				if ex, isEx := e.(*ssa.Extract); isEx {
					if _, isTA := ex.Tuple.(*ssa.TypeAssert); isTA {
						continue
					}
				}
				dirOK = false
			}
		}
		// Open receives the options built from DefaultOptions
		oa := eng.CallArgs(opens[0].Common())[0]
		if u, isU := oa.(*ssa.UnOp); isU {
			if al, isAl := u.X.(*ssa.Alloc); isAl {
				stored := false
				if refs := al.Referrers(); refs != nil {
					for _, r := range *refs {
						if st, isSt := r.(*ssa.Store); isSt && st.Addr == al && st.Val == defs[0].Value() {
							stored = true
						}
					}
				}
				ok = ok && stored
			}
		}
	}
	c.Check(ok && dirOK && !inMem, rule, name+":opens the configured directory on disk", f.Pos(), "badger is opened with default on-disk options at the configured directory", fmt.Sprintf("SSD.Configure does not open badger.DefaultOptions(<configured dir>) on disk (open=%v dir=%v inMemory=%v)", ok, dirOK, inMem))
	// db stored
	stored := false
	eng.Instrs(f, func(in ssa.Instruction) {
		if st, isSt := in.(*ssa.Store); isSt {
			if b, isDB := eng.AddrOfField(st.Addr, "db"); isDB && b == f.Params[0] && len(opens) == 1 && isExtractOf(st.Val, opens[0].Value(), 0) {
				stored = true
			}
		}
	})
	c.Check(stored, rule, name+":keeps the opened database", f.Pos(), "s.db is the database just opened", "the opened database is not stored in s.db")
	// no destructive file operation reachable inside the package
	cg := c.P.CG()
	bad := ""
	for g := range cg.Reachable(f) {
		if g.Pkg != f.Pkg {
			continue
		}
		for _, h := range eng.WithAnon(g) {
			eng.Instrs(h, func(in ssa.Instruction) {
				if eng.IsCallTo(in, "os.Remove", "os.RemoveAll", "os.Truncate", "os.Rename", "os.File.Truncate", "github.com/dgraph-io/badger/v3.DB.DropAll", "github.com/dgraph-io/badger/v3.DB.DropPrefix") {
					bad = fnName(h) + " calls " + shortT(eng.FuncID(eng.CalleeObj(in.(ssa.CallInstruction).Common())))
				}
			})
		}
	}
	c.Check(bad == "", rule, name+":does not destroy existing data", f.Pos(), "opening the store never deletes, truncates or renames files", "the configure/reopen path deletes or rewrites files of an existing store: "+bad)
	if g := fn(c, rule, "internal/provider/storage", "SSD", "Close"); g != nil {
		cl := eng.Calls(g, false, idBadgerClose)
		okC := len(cl) == 1
		if okC {
			for _, rv := range eng.ResultValues(g, 0) {
				if rv != cl[0].Value() {
					okC = false
				}
			}
			ok2, _ := eng.MustPass(g, nil, func(i ssa.Instruction) bool { return i == cl[0].(ssa.Instruction) })
			okC = okC && ok2
		}
		c.Check(okC, rule, fnName(g)+":closes the database", g.Pos(), "Close returns s.db.Close() on every path", "SSD.Close does not close the database on every path")
	}
	if g := fn(c, rule, "internal/broker", "Service", "Close"); g != nil {
		okD := false
		for _, d := range eng.Calls(g, false, M+"broker.dispose") {
			if _, isSt := eng.LoadOfField(eng.StripConv(eng.CallArgs(d.Common())[0]), "storage"); isSt {
				if ok2, _ := eng.MustPass(g, nil, func(i ssa.Instruction) bool { return i == d.(ssa.Instruction) }); ok2 {
					okD = true
				}
			}
		}
		c.Check(okD, rule, fnName(g)+":disposes the storage", g.Pos(), "a clean shutdown closes the message store", "Service.Close does not dispose s.storage on every path")
	}
	_ = strings.TrimSpace
}
