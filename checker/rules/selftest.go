package rules

import "verif/checker/core"

// SelfTest runs the engine self-tests relevant to the property (filled in later).
func SelfTest(c *core.Ctx) {}
