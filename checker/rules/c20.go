package rules

import (
	"fmt"
	"go/constant"
	"go/token"
	"go/types"
	"strings"

	"golang.org/x/tools/go/ssa"

	"verif/checker/core"
	"verif/checker/eng"
)

const (
	idDecodeKey    = M + "security/cipher.decodeKey"
	idB64EncString = "encoding/base64.Encoding.EncodeToString"
	idB64DecString = "encoding/base64.Encoding.DecodeString"
	urlAlphabet    = "ABCDEFGHIJKLMNOPQRSTUVWXYZabcdefghijklmnopqrstuvwxyz0123456789-_"
)

func init() {
	register(&Prop{
		ID:  "C20",
		Run: runC20,
		Explanation: "Structural necessary conditions of 'licenses and key ciphers round-trip': " +
			"(R1) length discipline of the license parsers: every fixed-offset access to the decoded bytes (constant slice bounds / indexes) is cut off by a length test that covers it, so Parse returns a license or an error and never panics; Parse strips exactly the two-character ':N' suffix it dispatched on; " +
			"(R2) sibling agreement of the three DecryptKey implementations: len(buffer) != 32 is refused before decodeKey, decodeKey's error is returned, the key is the decoded prefix buffer[:n]; " +
			"(R3) V1.String and parseV1 agree on the byte ranges [0:16] key, [16:20] user, [20:24] sign, [24:28] expiry, [28:32] type, and each String() appends the suffix Parse dispatches to its own parser; " +
			"(R4) EncryptKey of every cipher returns RawURLEncoding of a fresh 24-byte buffer; " +
			"(R5) the in-place base64 decoder accepts exactly the URL-safe alphabet: decodeMap is filled with 0xFF and then only from the 64-character RawURLEncoding alphabet constant; decodeKey rejects every byte mapped to 0xFF. " +
			"NOT decided: bijectivity/injectivity of the ciphers, equality after a round trip.",
		Assumptions: []string{"encoding/base64 and kelindar/binary behave as documented"},
	})
}

func runC20(c *core.Ctx) {
	c20R1(c)
	c20R2(c)
	c20R3(c)
	c20R5(c)
	c20R6(c, "C20.R6")
}

// constBoundsGuarded checks, for every constant-bound slice/index of value x in f, that a
// length test dominates it: !(len(x) < K) with K >= needed.
func constBoundsGuarded(c *core.Ctx, rule string, f *ssa.Function, isTarget func(ssa.Value) bool, what string) int {
	n := 0
	check := func(in ssa.Instruction, x ssa.Value, need int64, desc string) {
		if need <= 0 {
			return // x[:0] needs nothing
		}
		n++
		pred := eng.Pred{Name: fmt.Sprintf("len >= %d", need), Match: func(a eng.Atom) (bool, bool) {
			if a.Op != token.LSS {
				// len(x) == K (exact length test)
				if a.Op == token.EQL {
					for _, pr := range [][2]ssa.Value{{a.X, a.Y}, {a.Y, a.X}} {
						if l, ok := eng.LenOf(pr[0]); ok && eng.SameValue(l, x) {
							if k, ok := eng.ConstInt(pr[1]); ok && k >= need {
								return true, true
							}
						}
					}
				}
				return false, false
			}
			// len(x) < K  -> holds when false
			if l, ok := eng.LenOf(a.X); ok && eng.SameValue(l, x) {
				if k, ok := eng.ConstInt(a.Y); ok && k >= need {
					return false, true
				}
			}
			// K < len(x) -> holds when true (K >= need-1)
			if l, ok := eng.LenOf(a.Y); ok && eng.SameValue(l, x) {
				if k, ok := eng.ConstInt(a.X); ok && k >= need-1 {
					return true, true
				}
			}
			return false, false
		}}
		g := eng.Guarded(in, pred)
		c.Count("guard_cuts", 1)
		if g.Guarded && g.Edges > 0 {
			c.OK(rule, fnName(f)+":"+desc, in.Pos(), fmt.Sprintf("cut off by a length test covering %d bytes", need))
		} else {
			c.Fail(rule, fnName(f)+":"+desc, in.Pos(), fmt.Sprintf("%s is accessed at a fixed offset (needs %d bytes) without a dominating length test: a short input panics instead of returning an error", what, need), g.Witness...)
		}
	}
	eng.Instrs(f, func(in ssa.Instruction) {
		switch x := in.(type) {
		case *ssa.Slice:
			if !isTarget(x.X) {
				return
			}
			if x.High != nil {
				if k, ok := eng.ConstInt(x.High); ok {
					lo := int64(0)
					if x.Low != nil {
						lo, _ = eng.ConstInt(x.Low)
					}
					check(in, x.X, k, fmt.Sprintf("[%d:%d]", lo, k))
				}
			} else if x.Low != nil {
				if k, ok := eng.ConstInt(x.Low); ok && k > 0 {
					check(in, x.X, k, fmt.Sprintf("[%d:]", k))
				}
			}
		case *ssa.IndexAddr:
			if !isTarget(x.X) {
				return
			}
			if _, isSlice := x.X.Type().Underlying().(*types.Slice); !isSlice {
				return
			}
			if k, ok := eng.ConstInt(x.Index); ok {
				check(in, x.X, k+1, fmt.Sprintf("[%d]", k))
			}
		}
	})
	return n
}

func c20R1(c *core.Ctx) {
	rule := "C20.R1"
	c.Rule(rule, "license parsers: in parseV1/parseV2/parseV3 every constant-offset slice or index of the bytes decoded from the license string is cut off by a covering length test; Parse: data[:len(data)-2] (exactly the dispatched suffix) under len(data) >= 5 — the argument of each parseVn call is that slice, the fallback passes data itself", 8)
	for _, name := range []string{"parseV1", "parseV2", "parseV3"} {
		f := fn(c, rule, "internal/security/license", "", name)
		if f == nil {
			continue
		}
		// target: values derived from base64 DecodeString / snappy.Decode results
		isRaw := func(v ssa.Value) bool {
			v = eng.StripConv(v)
			if ex, ok := v.(*ssa.Extract); ok && ex.Index == 0 {
				if call, ok := ex.Tuple.(*ssa.Call); ok {
					id := eng.FuncID(eng.CalleeObj(&call.Call))
					return id == idB64DecString || id == "github.com/golang/snappy.Decode"
				}
			}
			if phi, ok := v.(*ssa.Phi); ok {
				for _, e := range phi.Edges {
					if ex, ok := e.(*ssa.Extract); ok {
						if _, ok := ex.Tuple.(*ssa.Call); ok {
							return true
						}
					}
				}
			}
			return false
		}
		n := constBoundsGuarded(c, rule, f, isRaw, "the decoded license")
		if n == 0 {
			c.OK(rule, fnName(f)+":no fixed offsets", f.Pos(), "the decoded bytes are only handed to length-checking decoders")
		}
	}
	f := fn(c, rule, "internal/security/license", "", "Parse")
	if f == nil {
		return
	}
	data := f.Params[0]
	minLen := eng.LtPred("!(len(data) < k)", false, func(x, y ssa.Value) bool {
		l, ok := eng.LenOf(x)
		k, isC := eng.ConstInt(y)
		return ok && l == data && isC && k >= 2
	})
	for _, pn := range []struct{ fn, suffix string }{{"parseV1", ":1"}, {"parseV2", ":2"}, {"parseV3", ":3"}} {
		calls := eng.Calls(f, false, M+"security/license."+pn.fn)
		nSuffixed := 0
		for _, call := range calls {
			arg := eng.CallArgs(call.Common())[0]
			if arg == data {
				continue // legacy fallback without suffix
			}
			nSuffixed++
			sl, isSl := arg.(*ssa.Slice)
			ok := isSl && sl.X == data && sl.Low == nil
			if ok {
				a, b, okA := affineLen(sl.High, data)
				ok = okA && a == 1 && b == -2
			}
			// equivalent idiom: strings.TrimSuffix(data, ":N") (removes exactly one suffix)
			if tc, isCall := arg.(*ssa.Call); isCall && eng.FuncID(eng.CalleeObj(&tc.Call)) == "strings.TrimSuffix" {
				ta := eng.CallArgs(&tc.Call)
				k, isC := ta[1].(*ssa.Const)
				ok = ta[0] == data && isC && k.Value != nil && constant.StringVal(k.Value) == pn.suffix
			}
			has := eng.CallPred("HasSuffix(data, \""+pn.suffix+"\")", "strings.HasSuffix", -1, true, func(a []ssa.Value) bool {
				k, isC := a[1].(*ssa.Const)
				return a[0] == data && isC && k.Value != nil && constant.StringVal(k.Value) == pn.suffix
			})
			g1, g2 := eng.Guarded(call, has), eng.Guarded(call, minLen)
			c.Check(ok && g1.Guarded && g1.Edges > 0 && g2.Guarded && g2.Edges > 0, rule, fnName(f)+":"+pn.fn+" gets the body without the suffix", call.Pos(), "exactly the two suffix characters are removed, under HasSuffix and a minimum length", "Parse does not pass data[:len(data)-2] to "+pn.fn+" under HasSuffix(data, \""+pn.suffix+"\") (e.g. TrimRight with a cutset also strips trailing body characters)")
		}
		if nSuffixed != 1 {
			c.Fail(rule, fnName(f)+":"+pn.fn+" dispatch", f.Pos(), fmt.Sprintf("expected one suffixed %s call, found %d", pn.fn, nSuffixed))
		}
	}
}

func c20R2(c *core.Ctx) {
	rule := "C20.R2"
	c.Rule(rule, "every license.Cipher implementation: DecryptKey calls decodeKey(buffer, buffer) only under len(buffer)==32, returns decodeKey's error, and returns security.Key(buffer[:n]) with n decodeKey's count; EncryptKey returns RawURLEncoding.EncodeToString of a make([]byte,24) buffer", 12)
	n := c.P.Type("internal/security/license", "Cipher")
	if n == nil {
		c.Undecided(rule, "anchor:license.Cipher", token.NoPos, "anchor missing")
		return
	}
	for _, t := range c.P.Implementers(n.Underlying().(*types.Interface)) {
		if f := c.P.MethodOf(t, "DecryptKey"); f != nil && f.Blocks != nil {
			name := fnName(f)
			buf := f.Params[1]
			dk := eng.Calls(f, false, idDecodeKey)
			if len(dk) != 1 {
				c.Fail(rule, name+":decodeKey", f.Pos(), fmt.Sprintf("expected one decodeKey call, found %d", len(dk)))
				continue
			}
			is32 := eng.EqPred("len(buffer)==32", true, func(x, y ssa.Value) bool {
				l, ok := eng.LenOf(x)
				k, isC := eng.ConstInt(y)
				return ok && l == buf && isC && k == 32
			})
			g := eng.Guarded(dk[0], is32)
			a := eng.CallArgs(dk[0].Common())
			c.Check(g.Guarded && g.Edges > 0 && a[0] == buf && a[1] == buf, rule, name+":only 32-character strings", dk[0].Pos(), "strings that are not 32 characters are refused before decoding", "decodeKey is reachable with a buffer that is not exactly 32 bytes long")
			// error returned
			errV := extractOf(dk[0].Value(), 1)
			okErr := false
			for _, rv := range eng.ResultValues(f, 1) {
				if rv == errV {
					okErr = true
				}
			}
			bad := errNilPred("decodeKey ok", dk[0].Value(), 1)
			okGuard := true
			eng.Instrs(f, func(in ssa.Instruction) {
				ret, isRet := in.(*ssa.Return)
				if !isRet || eng.IsNilConst(ret.Results[0]) {
					return
				}
				if g := eng.Guarded(ret, bad); !g.Guarded || g.Edges == 0 {
					okGuard = false
				}
			})
			c.Check(okErr && okGuard, rule, name+":invalid characters rejected", dk[0].Pos(), "a decoding error is returned and no key is produced", "DecryptKey can return a key although decodeKey reported an error (or drops that error)")
			// key = buffer[:n]
			okKey := false
			for _, rv := range eng.ResultValues(f, 0) {
				v := eng.StripConv(rv)
				if sl, isSl := v.(*ssa.Slice); isSl && sl.X == buf && sl.High == extractOf(dk[0].Value(), 0) {
					lo := int64(0)
					if sl.Low != nil {
						lo, _ = eng.ConstInt(sl.Low)
					}
					if lo == 0 {
						okKey = true
					}
				}
			}
			c.Check(okKey, rule, name+":key is the decoded prefix", f.Pos(), "the key is buffer[:n] (24 bytes)", "the returned key is not buffer[:n] of the in-place decode")
		}
		if f := c.P.MethodOf(t, "EncryptKey"); f != nil && f.Blocks != nil {
			name := fnName(f)
			encs := eng.Calls(f, false, idB64EncString)
			ok := len(encs) == 1
			if ok {
				a := eng.CallArgs(encs[0].Common())
				u, isU := a[0].(*ssa.UnOp)
				ok = isU
				if ok {
					g, isG := u.X.(*ssa.Global)
					ok = isG && g.Name() == "RawURLEncoding"
				}
				switch ms := eng.StripConv(a[1]).(type) {
				case *ssa.MakeSlice:
					k, isC := eng.ConstInt(ms.Len)
					ok = ok && isC && k == 24
				case *ssa.Slice:
					// make([]byte, 24) with a constant length is lowered to new [24]byte + slice
					al, isAl := ms.X.(*ssa.Alloc)
					ok = ok && isAl && al.Type().String() == "*[24]byte"
				default:
					ok = false
				}
				found := false
				for _, rv := range eng.ResultValues(f, 0) {
					if rv == encs[0].Value() {
						found = true
					}
				}
				ok = ok && found
			}
			c.Check(ok, rule, name+":32 URL-safe characters", f.Pos(), "the encrypted key is RawURLEncoding of exactly 24 bytes", "EncryptKey does not return RawURLEncoding.EncodeToString(<24-byte buffer>)")
		}
	}
}

func c20R3(c *core.Ctx) {
	rule := "C20.R3"
	c.Rule(rule, "V1 layout agreement: String writes key at [0:16] (copy), user [16:20], sign [20:24], expiry [24:28], type [28:32] of a 32-byte buffer; parseV1 reads the same ranges into the same fields; V1/V2/V3.String append \":1\"/\":2\"/\":3\"", 5)
	want := map[string]string{"16:20": "User", "20:24": "Sign", "24:28": "expiry", "28:32": "Type"}
	if f := fn(c, rule, "internal/security/license", "V1", "String"); f != nil {
		got := map[string]string{}
		for _, call := range eng.Calls(f, false, idBEPutUint32) {
			a := eng.CallArgs(call.Common())
			sl, ok := eng.StripConv(a[1]).(*ssa.Slice)
			if !ok {
				continue
			}
			lo, _ := eng.ConstInt(sl.Low)
			hi, _ := eng.ConstInt(sl.High)
			fld := "expiry"
			if _, fl, _, ok := eng.FieldOf(eng.StripConv(a[2])); ok {
				fld = fl
			}
			got[fmt.Sprintf("%d:%d", lo, hi)] = fld
		}
		ok := len(got) == 4
		for k, v := range want {
			if got[k] != v {
				ok = false
			}
		}
		c.Check(ok, rule, fnName(f)+":field ranges", f.Pos(), "user/sign/expiry/type at [16:20]/[20:24]/[24:28]/[28:32]", fmt.Sprintf("V1.String writes %v, expected %v", got, want))
	}
	if f := fn(c, rule, "internal/security/license", "", "parseV1"); f != nil {
		got := map[string]string{}
		eng.Instrs(f, func(in ssa.Instruction) {
			st, ok := in.(*ssa.Store)
			if !ok {
				return
			}
			_, fl, _, okF := eng.FieldOf(st.Addr)
			if !okF {
				return
			}
			v := eng.StripConv(st.Val)
			if call, isCall := v.(*ssa.Call); isCall && eng.FuncID(eng.CalleeObj(&call.Call)) == idBEUint32 {
				if sl, isSl := eng.StripConv(eng.CallArgs(&call.Call)[1]).(*ssa.Slice); isSl {
					lo, _ := eng.ConstInt(sl.Low)
					hi, _ := eng.ConstInt(sl.High)
					got[fmt.Sprintf("%d:%d", lo, hi)] = fl
				}
			}
		})
		// expiry is read through a local
		expOK := false
		for _, call := range eng.Calls(f, false, idBEUint32) {
			if sl, isSl := eng.StripConv(eng.CallArgs(call.Common())[1]).(*ssa.Slice); isSl {
				lo, _ := eng.ConstInt(sl.Low)
				hi, _ := eng.ConstInt(sl.High)
				if lo == 24 && hi == 28 {
					expOK = true
				}
			}
		}
		ok := got["16:20"] == "User" && got["20:24"] == "Sign" && got["28:32"] == "Type" && expOK
		c.Check(ok, rule, fnName(f)+":field ranges", f.Pos(), "reads the ranges String writes", fmt.Sprintf("parseV1 reads %v (expiry at [24:28]: %v), expected User/Sign/Type at [16:20]/[20:24]/[28:32]", got, expOK))
	}
	for _, v := range []struct{ t, suffix string }{{"V1", ":1"}, {"V2", ":2"}, {"V3", ":3"}} {
		f := fn(c, rule, "internal/security/license", v.t, "String")
		if f == nil {
			continue
		}
		ok := false
		for _, rv := range eng.ResultValues(f, 0) {
			if bo, isB := rv.(*ssa.BinOp); isB && bo.Op == token.ADD {
				if k, isC := bo.Y.(*ssa.Const); isC && k.Value != nil && constant.StringVal(k.Value) == v.suffix {
					if call, isCall := bo.X.(*ssa.Call); isCall && eng.FuncID(eng.CalleeObj(&call.Call)) == idB64EncString {
						ok = true
					}
				}
			}
		}
		c.Check(ok, rule, fnName(f)+":suffix", f.Pos(), "String() = RawURLEncoding(body) + \""+v.suffix+"\"", v.t+".String does not end in the version suffix "+v.suffix+" that Parse dispatches on")
	}
}

func c20R5(c *core.Ctx) { c20R5as(c, "C20.R5") }

// c20R5as emits the decode-table obligations under another rule id: bans are stored and looked
// up by the key *text* (event.Ban(channel.Key)) while authority is a function of the decoded
// bytes, so a second accepted spelling of the same bytes walks past a ban (C03, C14).
func c20R5as(c *core.Ctx, rule string) {
	c.Rule(rule, "base64 decode table: every store to decodeMap is either the constant 0xFF (fill loop over all 256 entries) or decodeMap[alphabet[i]] = byte(i) with alphabet the 64-character URL-safe constant; decodeKey returns an error for every input byte whose table entry is 0xFF", 2)
	pk := c.P.SSAPkg("internal/security/cipher")
	if pk == nil {
		c.Undecided(rule, "anchor:cipher", token.NoPos, "package missing")
		return
	}
	nFill, nAlpha, nOther := 0, 0, 0
	otherDesc := ""
	for _, f := range c.P.ScopeFuncs() {
		if f.Pkg != pk {
			continue
		}
		eng.Instrs(f, func(in ssa.Instruction) {
			st, ok := in.(*ssa.Store)
			if !ok {
				return
			}
			ia, ok := st.Addr.(*ssa.IndexAddr)
			if !ok {
				return
			}
			g, ok := ia.X.(*ssa.Global)
			if !ok || g.Name() != "decodeMap" {
				return
			}
			if k, isC := eng.ConstInt(st.Val); isC && k == 255 {
				nFill++
				return
			}
			// decodeMap[alphabet[i]] = byte(i)
			if idx, isIdx := ia.Index.(*ssa.Index); isIdx {
				if k, isC := idx.X.(*ssa.Const); isC && k.Value != nil && k.Value.Kind() == constant.String && constant.StringVal(k.Value) == urlAlphabet {
					if eng.StripConv(st.Val) == idx.Index {
						nAlpha++
						return
					}
				}
			}
			if lk, isLk := ia.Index.(*ssa.Lookup); isLk {
				if k, isC := lk.X.(*ssa.Const); isC && k.Value != nil && k.Value.Kind() == constant.String && constant.StringVal(k.Value) == urlAlphabet {
					if eng.StripConv(st.Val) == lk.Index {
						nAlpha++
						return
					}
				}
			}
			nOther++
			otherDesc = fnName(f) + ": decodeMap[" + eng.Describe(ia.Index) + "] = " + eng.Describe(st.Val)
		})
	}
	c.Check(nFill == 1 && nAlpha == 1 && nOther == 0, rule, "cipher.decodeMap:exactly the URL-safe alphabet", token.NoPos, "the decode table maps the 64 URL-safe characters and nothing else", fmt.Sprintf("decodeMap is not filled from exactly the RawURLEncoding alphabet (fill=%d alphabet=%d other stores=%d %s): characters outside the alphabet are accepted, or two strings decode to one key", nFill, nAlpha, nOther, otherDesc))
	if f := fn(c, rule, "internal/security/cipher", "", "decodeKey"); f != nil {
		// the 0xFF test leads to an error return
		ok := false
		for _, b := range f.Blocks {
			if len(b.Instrs) == 0 {
				continue
			}
			ifi, isIf := b.Instrs[len(b.Instrs)-1].(*ssa.If)
			if !isIf {
				continue
			}
			a := eng.Normalize(ifi.Cond)
			if a.Op != token.EQL {
				continue
			}
			is255 := false
			for _, v := range []ssa.Value{a.X, a.Y} {
				if k, isC := eng.ConstInt(v); isC && k == 255 {
					is255 = true
				}
			}
			if !is255 {
				continue
			}
			bad := b.Succs[0]
			if a.Neg {
				bad = b.Succs[1]
			}
			for _, in := range bad.Instrs {
				if ret, isRet := in.(*ssa.Return); isRet && !eng.IsNilConst(ret.Results[1]) {
					ok = true
				}
			}
		}
		c.Check(ok, rule, fnName(f)+":unknown characters are an error", f.Pos(), "a byte outside the alphabet makes decodeKey return an error", "decodeKey does not return an error when the table entry is 0xFF")
	}
	_ = strings.TrimSpace
}

// c20R6: key ciphers are functions of (license material, key): the state of every
// license.Cipher implementation is written only while it is being constructed. A memo, a
// counter or a scratch buffer kept in the cipher object makes the result of DecryptKey /
// EncryptKey depend on the history of earlier calls (and on which instance is asked), which
// "the same key string decrypts to the same key" excludes.
func c20R6(c *core.Ctx, rule string) {
	c.Rule(rule, "the fields of every license.Cipher implementation are written only through a freshly allocated object (constructor); elsewhere addresses derived from the cipher object are only loaded from, or handed to callees/arguments known to read them", 3)
	n := c.P.Type("internal/security/license", "Cipher")
	if n == nil {
		c.Undecided(rule, "anchor:license.Cipher", token.NoPos, "anchor missing")
		return
	}
	impls := c.P.Implementers(n.Underlying().(*types.Interface))
	isCipher := func(t types.Type) *types.Named {
		if p, ok := t.Underlying().(*types.Pointer); ok {
			t = p.Elem()
		}
		for _, im := range impls {
			if types.Identical(t, im) {
				return im
			}
		}
		return nil
	}
	// (external callee, argument index) pairs that only read through the pointer/slice given
	readOnlyArg := map[string]map[int]bool{
		"golang.org/x/crypto/salsa20/salsa.HSalsa20":     {1: true, 2: true, 3: true},
		"golang.org/x/crypto/salsa20/salsa.XORKeyStream": {1: true, 2: true, 3: true},
	}
	type key struct {
		f *ssa.Function
		p int
	}
	memo := map[key]string{}
	var usesOK func(f *ssa.Function, root ssa.Value, depth int) string // "" = only read
	usesOK = func(f *ssa.Function, root ssa.Value, depth int) string {
		if depth > 4 {
			return "call chain too deep to follow in " + fnName(f)
		}
		D := map[ssa.Value]bool{root: true}
		work := []ssa.Value{root}
		bad := ""
		for len(work) > 0 && bad == "" {
			v := work[len(work)-1]
			work = work[:len(work)-1]
			refs := v.Referrers()
			if refs == nil {
				continue
			}
			for _, r := range *refs {
				add := func(x ssa.Value) {
					if !D[x] {
						D[x] = true
						work = append(work, x)
					}
				}
				switch x := r.(type) {
				case *ssa.FieldAddr:
					add(x)
				case *ssa.IndexAddr:
					if x.X == v {
						add(x)
					}
				case *ssa.Slice:
					if x.X == v {
						add(x)
					}
				case *ssa.Phi:
					add(x)
				case *ssa.ChangeType:
					add(x)
				case *ssa.Convert:
					add(x)
				case *ssa.UnOp, *ssa.DebugRef, *ssa.BinOp, *ssa.Index, *ssa.Field, *ssa.Lookup, *ssa.Range:
					// loads, comparisons
				case *ssa.Store:
					if x.Addr == v {
						bad = fmt.Sprintf("%s stores into it (%s)", fnName(f), c.P.Pos(x.Pos()))
					} else if x.Val == v {
						if _, isLocal := x.Addr.(*ssa.Alloc); !isLocal {
							bad = fmt.Sprintf("%s lets its address escape (%s)", fnName(f), c.P.Pos(x.Pos()))
						} else {
							// spilled local holding the address: follow its loads
							for _, rr := range *x.Addr.(*ssa.Alloc).Referrers() {
								if u, ok := rr.(*ssa.UnOp); ok && u.Op == token.MUL {
									add(u)
								}
							}
						}
					}
				case ssa.CallInstruction:
					cc := x.Common()
					args := eng.CallArgs(cc)
					for ai, a := range args {
						if a != v {
							continue
						}
						if b, isB := cc.Value.(*ssa.Builtin); isB {
							if b.Name() == "copy" && ai == 0 {
								bad = fmt.Sprintf("%s copies into it (%s)", fnName(f), c.P.Pos(x.Pos()))
							}
							continue
						}
						if cc.IsInvoke() && ai == 0 {
							continue
						}
						callee := cc.StaticCallee()
						if callee == nil {
							bad = fmt.Sprintf("%s passes it to a function value (%s)", fnName(f), c.P.Pos(x.Pos()))
							continue
						}
						if callee.Blocks == nil || !core.InScope(pkgPathOf(callee)) {
							id := eng.FuncID(eng.CalleeObj(cc))
							if readOnlyArg[id][ai] {
								continue
							}
							bad = fmt.Sprintf("%s passes it to %s (argument %d), which may write through it (%s)", fnName(f), id, ai, c.P.Pos(x.Pos()))
							continue
						}
						off := len(callee.Params) - len(args)
						k := key{callee, ai + off}
						if _, seen := memo[k]; !seen {
							memo[k] = "" // recursion guard
							if ai+off >= 0 && ai+off < len(callee.Params) {
								memo[k] = usesOK(callee, callee.Params[ai+off], depth+1)
							}
						}
						if memo[k] != "" {
							bad = memo[k]
						}
					}
				case *ssa.Return, *ssa.MakeInterface, *ssa.MakeClosure:
					// handing the cipher itself on (as license.Cipher) is fine; interior addresses are not
					if _, isPtrToCipher := v.Type().Underlying().(*types.Pointer); !(isPtrToCipher && isCipher(v.Type()) != nil) {
						bad = fmt.Sprintf("%s lets an interior address escape (%s)", fnName(f), c.P.Pos(r.Pos()))
					}
				}
				if bad != "" {
					break
				}
			}
		}
		return bad
	}
	nRoots := 0
	for _, f := range c.P.ScopeFuncs() {
		var roots []ssa.Value
		for _, p := range f.Params {
			if isCipher(p.Type()) != nil {
				if _, isPtr := p.Type().Underlying().(*types.Pointer); isPtr {
					roots = append(roots, p)
				}
			}
		}
		for _, r := range roots {
			nRoots++
			t := isCipher(r.Type())
			why := usesOK(f, r, 0)
			key := fmt.Sprintf("%s:%s state is read-only", fnName(f), t.Obj().Name())
			if why == "" {
				c.OK(rule, key, f.Pos(), "the cipher object is only read here and in everything it is handed to")
			} else {
				c.Fail(rule, key, f.Pos(), "the state of a key cipher is modified after construction ("+why+"): the result of DecryptKey/EncryptKey then depends on earlier calls and on which instance is asked (e.g. a memo whose zero value matches a legal input), so the same key string no longer always decrypts to the same key")
			}
		}
	}
	c.Count("cipher_receivers_analysed", nRoots)
}

func pkgPathOf(f *ssa.Function) string {
	if f.Pkg != nil {
		return f.Pkg.Pkg.Path()
	}
	if f.Object() != nil && f.Object().Pkg() != nil {
		return f.Object().Pkg().Path()
	}
	return ""
}
