package rules

import (
	"fmt"
	"go/token"
	"go/types"
	"sort"
	"strings"

	"golang.org/x/tools/go/ssa"

	"verif/checker/core"
	"verif/checker/eng"
)

// Function ids used by several properties.
const (
	idAuthorizeIface = M + "service.Authorizer.Authorize"
	idAuthorizeImpl  = M + "broker.Service.Authorize"
	idDecryptKey     = M + "service/keygen.Service.DecryptKey"
	idIsExpired      = M + "security.Key.IsExpired"
	idIsMaster       = M + "security.Key.IsMaster"
	idHasPermission  = M + "security.Key.HasPermission"
	idValidateChan   = M + "security.Key.ValidateChannel"
	idKeyContract    = M + "security.Key.Contract"
	idProviderGet    = M + "provider/contract.Provider.Get"
	idContractValid  = M + "provider/contract.Contract.Validate"
	idSwarmContains  = M + "service/cluster.Swarm.Contains"
	idNewSsid        = M + "message.NewSsid"
	idCipherDecrypt  = M + "security/license.Cipher.DecryptKey"

	idPubSubSubscribeI   = M + "service.PubSub.Subscribe"
	idPubSubUnsubscribeI = M + "service.PubSub.Unsubscribe"
	idPubSubPublishI     = M + "service.PubSub.Publish"
	idPSSubscribe        = M + "service/pubsub.Service.Subscribe"
	idPSUnsubscribe      = M + "service/pubsub.Service.Unsubscribe"
	idPSPublish          = M + "service/pubsub.Service.Publish"
	idStorageStore       = M + "provider/storage.Storage.Store"
	idStorageQuery       = M + "provider/storage.Storage.Query"
	idCipherEncrypt      = M + "security/license.Cipher.EncryptKey"
	idSubscriberSend     = M + "message.Subscriber.Send"
	idGetAllPresence     = M + "service/presence.Service.getAllPresence"
)

// effectIDs is the set of calls that change or disclose broker state on behalf of a key.
var effectIDs = []string{
	idPubSubSubscribeI, idPubSubUnsubscribeI, idPubSubPublishI,
	idPSSubscribe, idPSUnsubscribe, idPSPublish,
	idStorageStore, idStorageQuery, idCipherEncrypt, idSubscriberSend, idGetAllPresence,
}

// authSite is one call site of Authorize.
type authSite struct {
	call    *ssa.Call
	fn      *ssa.Function
	perm    int64
	permOK  bool
	allowed ssa.Value // Extract #2
	key     ssa.Value // Extract #1
	chanArg ssa.Value
}

// authorizeSites enumerates every call of Authorize in production code.
func authorizeSites(c *core.Ctx) []authSite {
	var out []authSite
	for _, f := range c.P.ScopeFuncs() {
		eng.Instrs(f, func(in ssa.Instruction) {
			call, ok := in.(*ssa.Call)
			if !ok {
				return
			}
			id := eng.FuncID(eng.CalleeObj(&call.Call))
			if id != idAuthorizeIface && id != idAuthorizeImpl {
				return
			}
			args := eng.CallArgs(&call.Call)
			s := authSite{call: call, fn: f}
			if len(args) == 3 {
				s.chanArg = args[1]
				s.perm, s.permOK = eng.ConstInt(args[2])
			}
			s.allowed = extractOf(call, 2)
			s.key = extractOf(call, 1)
			out = append(out, s)
		})
	}
	return out
}

// permName maps a permission bit to its constant name.
func permNames(c *core.Ctx) map[int64]string {
	m := map[int64]string{}
	for _, n := range []string{"AllowMaster", "AllowRead", "AllowWrite", "AllowStore", "AllowLoad", "AllowPresence", "AllowExtend", "AllowExecute"} {
		if k := c.P.Const("internal/security", n); k != nil {
			if v, ok := constInt64(k); ok {
				m[v] = n
			}
		}
	}
	return m
}

// expectedPerm is the permission table of C03.R2: enclosing function -> permission constant.
var expectedPerm = map[string]string{
	"(*internal/service/pubsub.Service).OnSubscribe":   "AllowRead",
	"(*internal/service/pubsub.Service).OnUnsubscribe": "AllowRead",
	"(*internal/service/link.Service).OnRequest":       "AllowRead",
	"(*internal/service/pubsub.Service).OnPublish":     "AllowWrite",
	"(*internal/service/pubsub.Service).OnLastWill":    "AllowWrite",
	"(*internal/service/history.Service).OnRequest":    "AllowLoad",
	"(*internal/service/presence.Service).OnRequest":   "AllowPresence",
	"(*internal/service/presence.Service).OnHTTP":      "AllowPresence",
	"(*internal/service/keygen.Service).ExtendKey":     "AllowExtend",
}

func init() {
	register(&Prop{
		ID:  "C03",
		Run: runC03,
		Explanation: "Structural necessary conditions of 'keys authorise exactly what they were issued for', decided over every path and call site of the current source: " +
			"(R1) in every implementation of service.Authorizer the `true` return is cut off (guard cut-set over the SSA control-flow graph) by the eight checks channel-valid, not-banned, decrypts, not-expired, contract-found, contract.Validate, HasPermission(parameter), ValidateChannel(parameter), and returns the contract/key that were checked; " +
			"(R2) every call site of Authorize in production code is in the permission table with the expected permission constant, and every state-changing/disclosing call in that function is cut off by the `allowed` result; " +
			"(R3) every contract.Contract implementation's Validate is true only under MasterID, Signature, ID and State==Allowed comparisons; " +
			"(R4) every ssid built in a function that authorises takes its contract word from the authorised key. " +
			"NOT decided: the bit-path/hash arithmetic of SetTarget/ValidateChannel over channel strings (runtime values).",
		Assumptions: []string{
			"accessor methods of security.Key (HasPermission, IsExpired, Contract...) are pure: two calls with the same receiver denote the same value",
			"code outside internal/ production packages (fakes, mocks, tests) is not subject to the rules",
			"go/ssa lowers && / || / switch to branches (checked by the engine self-test)",
		},
	})
}

func runC03(c *core.Ctx) {
	c03R1(c, "C03.R1")
	c03R2(c, "C03.R2")
	c03R3(c, "C03.R3")
	c03R4(c, "C03.R4")
	c03R5(c)
	c03R6(c)
	c20R5as(c, "C03.R7")
	c03R8(c, "C03.R8")
	c03R9(c, "C03.R9")
	keyTextRule(c, "C03.R10")
}

// authorizerImpls returns the Authorize methods of production implementers of service.Authorizer.
func authorizerImpls(c *core.Ctx, rule string) []*ssa.Function {
	n := c.P.Type("internal/service", "Authorizer")
	if n == nil {
		c.Undecided(rule, "anchor:service.Authorizer", token.NoPos, "anchor missing: interface service.Authorizer")
		return nil
	}
	iface, _ := n.Underlying().(*types.Interface)
	var out []*ssa.Function
	for _, t := range c.P.Implementers(iface) {
		if f := c.P.MethodOf(t, "Authorize"); f != nil && f.Blocks != nil {
			out = append(out, f)
		}
	}
	return out
}

// banPred is the disjunctive predicate "cluster == nil or not Contains(ban)".
func banPred() eng.Pred {
	return eng.Pred{Name: "cluster==nil or !cluster.Contains(Ban(key))", Match: func(a eng.Atom) (bool, bool) {
		if a.Op == token.EQL {
			for _, pair := range [][2]ssa.Value{{a.X, a.Y}, {a.Y, a.X}} {
				if eng.IsNilConst(pair[1]) {
					if _, f, _, ok := eng.FieldOf(pair[0]); ok && f == "cluster" {
						return true, true
					}
				}
			}
			return false, false
		}
		if a.Op == token.ILLEGAL {
			if call, ok := a.V.(*ssa.Call); ok && eng.FuncID(eng.CalleeObj(&call.Call)) == idSwarmContains {
				args := eng.CallArgs(&call.Call)
				if len(args) == 2 && derivesFromField(args[1], "Key", 0) {
					return false, true
				}
			}
		}
		return false, false
	}}
}

// derivesFromField: v is computed (through conversions, address-taken locals with stores,
// make-interface) from a load of a struct field named field.
func derivesFromField(v ssa.Value, field string, depth int) bool {
	if depth > 10 || v == nil {
		return false
	}
	switch x := v.(type) {
	case *ssa.Convert:
		return derivesFromField(x.X, field, depth+1)
	case *ssa.ChangeType:
		return derivesFromField(x.X, field, depth+1)
	case *ssa.MakeInterface:
		return derivesFromField(x.X, field, depth+1)
	case *ssa.UnOp:
		if x.Op == token.MUL {
			if _, f, _, ok := eng.FieldOf(x); ok {
				return f == field
			}
			return derivesFromField(x.X, field, depth+1)
		}
	case *ssa.Alloc:
		// every store into the alloc must derive from the field
		refs := x.Referrers()
		if refs == nil {
			return false
		}
		n := 0
		for _, r := range *refs {
			if st, ok := r.(*ssa.Store); ok && st.Addr == x {
				n++
				if !derivesFromField(st.Val, field, depth+1) {
					return false
				}
			}
		}
		return n > 0
	case *ssa.Slice:
		return derivesFromField(x.X, field, depth+1)
	case *ssa.Call:
		// e.g. string(channel.Key) lowered to a conversion; nocopy helpers
		for _, a := range eng.CallArgs(&x.Call) {
			if derivesFromField(a, field, depth+1) {
				return true
			}
		}
	}
	return false
}

func c03R1(c *core.Ctx, rule string) {
	c.Rule(rule, "in every production implementation of service.Authorizer, each `return …, true` is cut off by: ChannelType!=Invalid; cluster==nil or !Contains(Ban(channel.Key)); DecryptKey err==nil; !key.IsExpired(); contracts.Get found; contract.Validate(key); key.HasPermission(permission parameter); key.ValidateChannel(channel parameter); the ban test precedes decryption; the returned contract/key are the checked ones", 9)
	impls := authorizerImpls(c, rule)
	if len(impls) == 0 {
		c.Undecided(rule, "impls", token.NoPos, "no production implementation of service.Authorizer found")
		return
	}
	for _, f := range impls {
		name := fnName(f)
		c.Count("functions_analysed", 1)
		c.Count("blocks_analysed", len(f.Blocks))
		chanP, permP := param(f, 1), param(f, 2)
		dec, fresh, why := resolveDecrypt(f)
		if dec == nil {
			c.Undecided(rule, name+":DecryptKey", f.Pos(), "expected exactly one DecryptKey call (directly or through one helper returning (security.Key, error)): "+why)
			continue
		}
		c.Check(fresh, rule, name+":key is freshly decrypted", dec.Pos(), "the key handed out is the buffer decrypted for this very call (callers such as ExtendKey modify it in place)", "Authorize may hand out a key that aliases shared storage ("+why+"); ExtendKey edits the returned key in place, so a later request with the same key string sees a different key")
		key := extractOf(dec, 0)
		if key != nil {
			// the same question asked of the whole call chain (keygen.DecryptKey -> every license.Cipher):
			// the bytes of the key may alias only a buffer allocated for this call
			oc := &originCtx{c: c, memo: map[*ssa.Function]*keyOrigin{}, busy: map[*ssa.Function]bool{}}
			o := oc.of(key, map[ssa.Value]bool{}, 0)
			var ps []string
			for i := range o.params {
				ps = append(ps, fmt.Sprintf("parameter #%d", i))
			}
			sort.Strings(ps)
			switch {
			case o.bad != "":
				c.Fail(rule, name+":key bytes are private to the call", dec.Pos(), "the key handed out by Authorize can alias shared storage ("+o.bad+"); ExtendKey edits the returned key in place (permissions, target, expiry), so the next request presenting the same key text is authorised with different contents")
			case len(ps) > 0:
				c.Fail(rule, name+":key bytes are private to the call", dec.Pos(), "the key handed out by Authorize aliases "+strings.Join(ps, ", ")+" of Authorize itself (caller-owned storage)")
			default:
				c.OK(rule, name+":key bytes are private to the call", dec.Pos(), fmt.Sprintf("through %d summarised functions the key aliases only buffers allocated during this call", len(oc.memo)))
			}
		}
		gets := callsIn(f, idProviderGet)
		if len(gets) != 1 {
			c.Undecided(rule, name+":contracts.Get", f.Pos(), fmt.Sprintf("expected exactly one contract Provider.Get call, found %d", len(gets)))
			continue
		}
		get := gets[0].(*ssa.Call)
		contract := extractOf(get, 0)
		isKey := func(v ssa.Value) bool { return key != nil && eng.SameValue(v, key) }

		preds := []eng.Pred{
			eng.EqPred("channel.ChannelType != ChannelInvalid", false, func(x, y ssa.Value) bool {
				_, fl, base, ok := eng.FieldOf(x)
				if !ok || fl != "ChannelType" || !eng.SameValue(base, chanP) {
					return false
				}
				v, isC := eng.ConstInt(y)
				inv, _ := constOf(c, rule, "internal/security", "ChannelInvalid")
				return isC && v == inv
			}),
			banPred(),
			eng.EqPred("DecryptKey err == nil", true, func(x, y ssa.Value) bool {
				return isExtractOf(x, dec, 1) && eng.IsNilConst(y)
			}),
			eng.CallPred("!key.IsExpired()", idIsExpired, -1, false, func(a []ssa.Value) bool { return isKey(a[0]) }),
			eng.ValuePred("contracts.Get found", extractOf(get, 1), true),
			eng.CallPred("contract.Validate(key)", idContractValid, -1, true, func(a []ssa.Value) bool {
				return len(a) == 2 && contract != nil && eng.SameValue(a[0], contract) && isKey(a[1])
			}),
			eng.CallPred("key.HasPermission(permission)", idHasPermission, -1, true, func(a []ssa.Value) bool {
				return len(a) == 2 && isKey(a[0]) && eng.SameValue(a[1], permP)
			}),
			eng.CallPred("key.ValidateChannel(channel)", idValidateChan, -1, true, func(a []ssa.Value) bool {
				return len(a) == 2 && isKey(a[0]) && eng.SameValue(a[1], chanP)
			}),
		}
		// the contract lookup uses the key's contract id
		ga := eng.CallArgs(&get.Call)
		c.Check(len(ga) == 2 && isCallOn(ga[1], idKeyContract, isKey), rule, name+":Get(key.Contract())", get.Pos(),
			"contract is looked up by the decrypted key's contract id", "contracts.Get is not called with key.Contract() of the decrypted key")

		nTrue := 0
		for _, b := range f.Blocks {
			for _, in := range b.Instrs {
				ret, ok := in.(*ssa.Return)
				if !ok || len(ret.Results) != 3 {
					continue
				}
				if cv, isC := eng.ConstInt(ret.Results[2]); isC {
					_ = cv
				}
				bv, isConst := constBoolOf(ret.Results[2])
				if isConst && !bv {
					continue
				}
				nTrue++
				if !isConst {
					c.Undecided(rule, name+":return", ret.Pos(), "Authorize returns a non-constant `allowed` value; idiom not recognised")
					continue
				}
				for _, p := range preds {
					g := eng.Guarded(ret, p)
					c.Count("guard_cuts", 1)
					if g.Guarded && g.Edges > 0 {
						c.OK(rule, name+":"+p.Name, ret.Pos(), fmt.Sprintf("every path to `return true` passes one of %d licensing edge(s)", g.Edges))
					} else {
						c.Fail(rule, name+":"+p.Name, ret.Pos(), "`return …, true` is reachable without "+p.Name, g.Witness...)
					}
				}
				c.Check(contract != nil && eng.SameValue(ret.Results[0], contract) && isKey(ret.Results[1]), rule, name+":returns checked contract and key", ret.Pos(),
					"the success return hands back the validated contract and the decrypted key", "the success return does not hand back the contract/key that were checked")
			}
		}
		if nTrue == 0 {
			c.Fail(rule, name+":no success return", f.Pos(), "Authorize never returns true")
		}
		// ban test precedes decryption (C14.R1 shares this)
		g := eng.Guarded(dec, banPred())
		c.Check(g.Guarded && g.Edges > 0, rule, name+":ban before decrypt", dec.Pos(), "the ban lookup cuts off DecryptKey", "DecryptKey is reachable without the ban lookup")
	}
}

// resolveDecrypt finds the call in f that yields the decrypted key: a direct DecryptKey call,
// or a call of a helper returning (security.Key, error) that contains one. fresh reports
// whether every key the call can yield is the result of a DecryptKey executed by that call
// (not a value loaded from a field, map or cache).
func resolveDecrypt(f *ssa.Function) (call *ssa.Call, fresh bool, why string) {
	direct := callsIn(f, idDecryptKey, idCipherDecrypt)
	if len(direct) == 1 {
		return direct[0].(*ssa.Call), true, "direct call"
	}
	if len(direct) > 1 {
		return nil, false, fmt.Sprintf("%d DecryptKey calls", len(direct))
	}
	var cands []*ssa.Call
	eng.Instrs(f, func(in ssa.Instruction) {
		c, ok := in.(*ssa.Call)
		if !ok {
			return
		}
		h := c.Call.StaticCallee()
		if h == nil || h.Blocks == nil || h.Pkg != f.Pkg {
			return
		}
		res := h.Signature.Results()
		if res.Len() != 2 || !strings.HasSuffix(res.At(0).Type().String(), "security.Key") || res.At(1).Type().String() != "error" {
			return
		}
		if len(eng.Calls(h, true, idDecryptKey, idCipherDecrypt)) == 0 {
			return
		}
		cands = append(cands, c)
	})
	if len(cands) != 1 {
		return nil, false, fmt.Sprintf("%d candidate helper calls", len(cands))
	}
	h := cands[0].Call.StaticCallee()
	inner := eng.Calls(h, false, idDecryptKey, idCipherDecrypt)
	fresh = true
	why = "through helper " + h.Name()
	var fromDec func(v ssa.Value, d int) bool
	fromDec = func(v ssa.Value, d int) bool {
		if d > 6 {
			return false
		}
		if eng.IsNilConst(v) {
			return true
		}
		switch x := v.(type) {
		case *ssa.Extract:
			for _, ic := range inner {
				if x.Tuple == ic.Value() && x.Index == 0 {
					return true
				}
			}
		case *ssa.Phi:
			for _, e := range x.Edges {
				if !fromDec(e, d+1) {
					return false
				}
			}
			return true
		case *ssa.UnOp:
			// named result spilled to a local
			if a, ok := x.X.(*ssa.Alloc); ok && x.Op == token.MUL {
				if refs := a.Referrers(); refs != nil {
					n := 0
					for _, r := range *refs {
						if st, ok := r.(*ssa.Store); ok && st.Addr == a {
							n++
							if !fromDec(st.Val, d+1) {
								return false
							}
						}
					}
					return n > 0
				}
			}
		}
		return false
	}
	eng.Instrs(h, func(in ssa.Instruction) {
		if ret, ok := in.(*ssa.Return); ok && len(ret.Results) == 2 {
			if !fromDec(ret.Results[0], 0) {
				fresh = false
				why = "helper " + h.Name() + " can return a key that does not come from DecryptKey: " + eng.Describe(ret.Results[0])
			}
		}
	})
	return cands[0], fresh, why
}

func constBoolOf(v ssa.Value) (bool, bool) {
	c, ok := v.(*ssa.Const)
	if !ok || c.Value == nil {
		return false, false
	}
	s := c.Value.ExactString()
	if s == "true" {
		return true, true
	}
	if s == "false" {
		return false, true
	}
	return false, false
}

func relFn(f *ssa.Function) string {
	// enclosing declared function, package path relative to the module
	for f.Parent() != nil {
		f = f.Parent()
	}
	return fnName(f)
}

func c03R2(c *core.Ctx, rule string) {
	c.Rule(rule, "every call site of Authorize in production code is listed in the permission table (handler -> permission constant) with that constant as argument, and every effect call (subscribe/unsubscribe/publish/store/query/send/encrypt/presence lookup) in the same function is cut off by the `allowed` result of that call", 9)
	names := permNames(c)
	sites := authorizeSites(c)
	c.Count("authorize_call_sites", len(sites))
	seen := map[string]bool{}
	for _, s := range sites {
		fname := relFn(s.fn)
		want, listed := expectedPerm[fname]
		if !listed {
			c.Fail(rule, fname+":unlisted Authorize call site", s.call.Pos(), "Authorize is called from a function that is not in the permission table; classify it")
			continue
		}
		seen[fname] = true
		got := "?"
		if s.permOK {
			got = names[s.perm]
		}
		c.Check(s.permOK && got == want, rule, fname+":permission", s.call.Pos(), "Authorize is called with security."+want, fmt.Sprintf("Authorize is called with %s, the table requires security.%s", got, want))
		if s.allowed == nil {
			c.Fail(rule, fname+":allowed ignored", s.call.Pos(), "the `allowed` result of Authorize is discarded")
			continue
		}
		pred := eng.ValuePred("allowed", s.allowed, true)
		neff := 0
		for _, call := range callsIn(s.fn, effectIDs...) {
			if call.Parent() != s.fn {
				continue // closures handled with their own parent path
			}
			neff++
			g := eng.Guarded(call, pred)
			c.Count("guard_cuts", 1)
			eid := eng.FuncID(eng.CalleeObj(call.Common()))
			eid = eid[strings.LastIndex(eid, "/")+1:]
			if g.Guarded && g.Edges > 0 {
				c.OK(rule, fname+":effect "+eid, call.Pos(), "cut off by allowed=true")
			} else {
				c.Fail(rule, fname+":effect "+eid, call.Pos(), "effect call reachable without allowed=true", g.Witness...)
			}
		}
		if neff == 0 {
			c.Fail(rule, fname+":no effect", s.call.Pos(), "no effect call found behind Authorize in this handler (table out of date?)")
		}
	}
	for fname := range expectedPerm {
		if !seen[fname] {
			c.Undecided(rule, fname+":missing", token.NoPos, "permission table entry has no Authorize call site in the current tree")
		}
	}
}

func c03R3as(c *core.Ctx, rule string) { c03R3(c, rule) }

func c03R3(c *core.Ctx, rule string) {
	c.Rule(rule, "every production implementation of contract.Contract: Validate(key) is true only if MasterID==key.Master(), Signature==key.Signature(), ID==key.Contract() and State==ContractStateAllowed", 4)
	n := c.P.Type("internal/provider/contract", "Contract")
	if n == nil {
		c.Undecided(rule, "anchor:contract.Contract", token.NoPos, "anchor missing")
		return
	}
	iface := n.Underlying().(*types.Interface)
	impls := c.P.Implementers(iface)
	if len(impls) == 0 {
		c.Undecided(rule, "impls", token.NoPos, "no implementation of contract.Contract")
	}
	allowed, _ := constOf(c, rule, "internal/provider/contract", "ContractStateAllowed")
	for _, t := range impls {
		f := c.P.MethodOf(t, "Validate")
		if f == nil || f.Blocks == nil {
			continue
		}
		name := fnName(f)
		keyP := param(f, 1)
		recv := param(f, 0)
		fieldEq := func(field string, other func(ssa.Value) bool) eng.Pred {
			return eng.EqPred(field, true, func(x, y ssa.Value) bool {
				_, fl, base, ok := eng.FieldOf(x)
				return ok && fl == field && eng.SameValue(base, recv) && other(y)
			})
		}
		keyCall := func(id string) func(ssa.Value) bool {
			return func(v ssa.Value) bool {
				return isCallOn(v, id, func(r ssa.Value) bool { return eng.SameValue(r, keyP) })
			}
		}
		preds := []eng.Pred{
			fieldEq("MasterID", keyCall(M+"security.Key.Master")),
			fieldEq("Signature", keyCall(M+"security.Key.Signature")),
			fieldEq("ID", keyCall(idKeyContract)),
			fieldEq("State", func(v ssa.Value) bool { k, ok := eng.ConstInt(v); return ok && k == allowed }),
		}
		for _, p := range preds {
			ok, bad := eng.TrueImplies(f, 0, p)
			c.Count("guard_cuts", 1)
			if ok {
				c.OK(rule, name+":"+p.Name, f.Pos(), "Validate()=true implies "+p.Name+" matches the key")
			} else {
				c.Fail(rule, name+":"+p.Name, f.Pos(), "Validate can return true without comparing "+p.Name, bad...)
			}
		}
	}
}

func c03R4(c *core.Ctx, rule string) {
	c.Rule(rule, "in every function that authorises a request, the contract word of each message.NewSsid is key.Contract() of the key returned by an Authorize call in that function", 8)
	sites := authorizeSites(c)
	byFn := map[*ssa.Function][]authSite{}
	for _, s := range sites {
		byFn[s.fn] = append(byFn[s.fn], s)
	}
	for _, f := range c.P.ScopeFuncs() {
		ss := byFn[f]
		if len(ss) == 0 {
			continue
		}
		for _, call := range eng.Calls(f, false, idNewSsid) {
			args := eng.CallArgs(call.Common())
			ok := false
			for _, s := range ss {
				if s.key != nil && isCallOn(args[0], idKeyContract, func(r ssa.Value) bool { return eng.SameValue(r, s.key) }) && eng.Dominates(s.call, call) {
					ok = true
				}
			}
			c.Check(ok, rule, relFn(f)+":NewSsid contract", call.Pos(), "ssid contract word is the authorised key's contract", "ssid is built with a contract that is not key.Contract() of the authorised key: "+eng.Describe(args[0]))
		}
	}
	// the one tabled exception: selfPublish uses the license contract (internal stats channel) and does not authorise
}

// c03R5: the writer (SetTarget) and the reader (ValidateChannel) of a key's target hash must
// normalise the channel string the same way before hashing it.
func c03R5(c *core.Ctx) {
	rule := "C03.R5"
	c.Rule(rule, "target normalisation agreement between Key.SetTarget (writer of the target hash) and Key.ValidateChannel (reader): both split on \"/\", drop a trailing \"#\" element (reslice to len-1 exactly when the last element equals \"#\"), join with \"/\" and hash with hash.OfString; SetTarget marks literal levels in the bit path with 1<<(22-idx) and ValidateChannel tests the same bit", 8)
	for _, name := range []string{"SetTarget", "ValidateChannel"} {
		f := fn(c, rule, "internal/security", "Key", name)
		if f == nil {
			continue
		}
		fname := fnName(f)
		isSep := func(v ssa.Value, want string) bool {
			k, ok := v.(*ssa.Const)
			return ok && k.Value != nil && k.Value.ExactString() == want
		}
		splits := eng.Calls(f, false, "strings.Split")
		okSplit := len(splits) == 1 && isSep(eng.CallArgs(splits[0].Common())[1], `"/"`)
		c.Check(okSplit, rule, fname+":split on /", f.Pos(), "levels are the /-separated parts", name+" does not split the channel on \"/\"")
		joins := eng.Calls(f, false, "strings.Join")
		okJoin := len(joins) == 1 && isSep(eng.CallArgs(joins[0].Common())[1], `"/"`)
		hashes := eng.Calls(f, false, idHashOfString)
		okHash := len(hashes) == 1 && len(joins) == 1 && eng.CallArgs(hashes[0].Common())[0] == joins[0].Value()
		c.Check(okJoin && okHash, rule, fname+":hash of the re-joined levels", f.Pos(), "the hash is hash.OfString(strings.Join(parts, \"/\"))", name+" does not hash strings.Join(parts, \"/\") with hash.OfString")
		// trailing "#" dropped
		var cmp *ssa.BinOp
		eng.Instrs(f, func(in ssa.Instruction) {
			bo, ok := in.(*ssa.BinOp)
			if !ok || bo.Op != token.EQL {
				return
			}
			for _, pr := range [][2]ssa.Value{{bo.X, bo.Y}, {bo.Y, bo.X}} {
				if !isSep(pr[1], `"#"`) {
					continue
				}
				u, ok := pr[0].(*ssa.UnOp)
				if !ok {
					continue
				}
				ia, ok := u.X.(*ssa.IndexAddr)
				if !ok {
					continue
				}
				// index = len(parts) - 1
				if ib, ok := ia.Index.(*ssa.BinOp); ok && ib.Op == token.SUB {
					if k, isC := eng.ConstInt(ib.Y); isC && k == 1 {
						if l, isL := eng.LenOf(ib.X); isL && l == ia.X {
							cmp = bo
						}
					}
				}
			}
		})
		okDrop := false
		if cmp != nil {
			isHash := eng.ValuePred("last part is #", cmp, true)
			eng.Instrs(f, func(in ssa.Instruction) {
				sl, ok := in.(*ssa.Slice)
				if !ok || sl.High == nil {
					return
				}
				if hb, ok := sl.High.(*ssa.BinOp); ok && hb.Op == token.SUB {
					if k, isC := eng.ConstInt(hb.Y); isC && k == 1 {
						if l, isL := eng.LenOf(hb.X); isL && l == sl.X {
							g := eng.Guarded(sl, isHash)
							ok2, _ := eng.MustFollow(f, []eng.Pred{isHash}, func(i ssa.Instruction) bool { return i == ssa.Instruction(sl) })
							if g.Guarded && g.Edges > 0 && ok2 {
								okDrop = true
							}
						}
					}
				}
			})
		}
		c.Check(okDrop, rule, fname+":trailing # is not a level", f.Pos(), "a trailing \"#\" element is removed before depth and hash are computed, exactly when present", name+" does not drop a trailing \"#\" element exactly when the last element equals \"#\": the writer and the reader of the target hash would normalise differently (a `#`-terminated request is then counted and hashed as a level)")
		// bit path: shift by 22-idx
		okBit := false
		eng.Instrs(f, func(in ssa.Instruction) {
			bo, ok := in.(*ssa.BinOp)
			if !ok || (bo.Op != token.SHL && bo.Op != token.SHR) {
				return
			}
			if sb, ok := eng.StripConv(bo.Y).(*ssa.BinOp); ok && sb.Op == token.SUB {
				if k, isC := eng.ConstInt(sb.X); isC && k == 22 {
					okBit = true
				}
			}
		})
		c.Check(okBit, rule, fname+":level bit 22-idx", f.Pos(), "level idx is bit 22-idx of the path", name+" does not address level idx as bit 22-idx of the bit path")
	}
}

// byteMapOfGetter: index -> left shift, for a getter composing k[i]<<s | ...
func byteMapOfGetter(f *ssa.Function, v ssa.Value, out map[int64]int64, shift int64, depth int) bool {
	if depth > 12 {
		return false
	}
	v = eng.StripConv(v)
	switch x := v.(type) {
	case *ssa.BinOp:
		switch x.Op {
		case token.OR, token.ADD:
			return byteMapOfGetter(f, x.X, out, shift, depth+1) && byteMapOfGetter(f, x.Y, out, shift, depth+1)
		case token.SHL:
			k, ok := eng.ConstInt(x.Y)
			return ok && byteMapOfGetter(f, x.X, out, shift+k, depth+1)
		}
	case *ssa.UnOp:
		if ia, ok := x.X.(*ssa.IndexAddr); ok && ia.X == f.Params[0] {
			if i, isC := eng.ConstInt(ia.Index); isC {
				out[i] = shift
				return true
			}
		}
	}
	return false
}

// c03R6: getter/setter pairs of security.Key agree on byte positions and byte order.
func c03R6(c *core.Ctx) {
	rule := "C03.R6"
	c.Rule(rule, "key layout agreement: for each (getter, setter) pair of security.Key the setter stores byte(value>>s) at exactly the index the getter reads with <<s: Salt/SetSalt [0:2], Master/SetMaster [2:4], Contract/SetContract [4:8], Signature/SetSignature [8:12], Permissions/SetPermissions [15]; Expires/SetExpires [20:24]; SetTarget writes path [12:15] and hash [16:20] which ValidateChannel reads; the ranges are pairwise disjoint", 7)
	pairs := []struct {
		get, set string
		lo, hi   int64
	}{{"Salt", "SetSalt", 0, 2}, {"Master", "SetMaster", 2, 4}, {"Contract", "SetContract", 4, 8}, {"Signature", "SetSignature", 8, 12}}
	for _, pr := range pairs {
		g := fn(c, rule, "internal/security", "Key", pr.get)
		s := fn(c, rule, "internal/security", "Key", pr.set)
		if g == nil || s == nil {
			continue
		}
		gm := map[int64]int64{}
		okG := true
		for _, rv := range eng.ResultValues(g, 0) {
			if !byteMapOfGetter(g, rv, gm, 0, 0) {
				okG = false
			}
		}
		sm := map[int64]int64{}
		eng.Instrs(s, func(in ssa.Instruction) {
			st, ok := in.(*ssa.Store)
			if !ok {
				return
			}
			ia, ok := st.Addr.(*ssa.IndexAddr)
			if !ok || ia.X != s.Params[0] {
				return
			}
			i, isC := eng.ConstInt(ia.Index)
			if !isC {
				return
			}
			v := eng.StripConv(st.Val)
			sh := int64(0)
			if bo, isB := v.(*ssa.BinOp); isB && bo.Op == token.SHR {
				sh, _ = eng.ConstInt(bo.Y)
				v = eng.StripConv(bo.X)
			}
			if v == s.Params[1] {
				sm[i] = sh
			} else {
				sm[i] = -1
			}
		})
		same := okG && len(gm) == int(pr.hi-pr.lo) && len(sm) == len(gm)
		for i := pr.lo; i < pr.hi; i++ {
			gs, ok1 := gm[i]
			ss, ok2 := sm[i]
			if !ok1 || !ok2 || gs != ss || gs != (pr.hi-1-i)*8 {
				same = false
			}
		}
		c.Check(same, rule, pr.get+"/"+pr.set+":bytes and order", g.Pos(), fmt.Sprintf("both use bytes [%d:%d] big-endian", pr.lo, pr.hi), fmt.Sprintf("%s reads %v (index->shift) but %s writes %v; expected bytes [%d:%d] big-endian on both sides", pr.get, gm, pr.set, sm, pr.lo, pr.hi))
	}
	// Expires / SetExpires and SetTarget / ValidateChannel: index sets
	idxSet := func(f *ssa.Function, stores bool) map[int64]bool {
		out := map[int64]bool{}
		eng.Instrs(f, func(in ssa.Instruction) {
			ia, ok := in.(*ssa.IndexAddr)
			if !ok || ia.X != f.Params[0] {
				return
			}
			i, isC := eng.ConstInt(ia.Index)
			if !isC {
				return
			}
			isStore := false
			if refs := ia.Referrers(); refs != nil {
				for _, r := range *refs {
					if st, isSt := r.(*ssa.Store); isSt && st.Addr == ia {
						isStore = true
					}
				}
			}
			if isStore == stores {
				out[i] = true
			}
		})
		return out
	}
	want := func(m map[int64]bool, idx ...int64) bool {
		if len(m) != len(idx) {
			return false
		}
		for _, i := range idx {
			if !m[i] {
				return false
			}
		}
		return true
	}
	if g, s := fn(c, rule, "internal/security", "Key", "Expires"), fn(c, rule, "internal/security", "Key", "SetExpires"); g != nil && s != nil {
		c.Check(want(idxSet(g, false), 20, 21, 22, 23) && want(idxSet(s, true), 20, 21, 22, 23), rule, "Expires/SetExpires:bytes", g.Pos(), "expiry lives in bytes [20:24]", "Expires/SetExpires do not both use exactly bytes [20:24]")
	}
	if s, v := fn(c, rule, "internal/security", "Key", "SetTarget"), fn(c, rule, "internal/security", "Key", "ValidateChannel"); s != nil && v != nil {
		c.Check(want(idxSet(s, true), 12, 13, 14, 16, 17, 18, 19) && want(idxSet(v, false), 12, 13, 14, 16, 17, 18, 19), rule, "SetTarget/ValidateChannel:bytes", s.Pos(), "bit path in [12:15], target hash in [16:20] on both sides", "SetTarget and ValidateChannel do not use the same bytes for bit path [12:15] and target hash [16:20]")
	}
	if g, s := fn(c, rule, "internal/security", "Key", "Permissions"), fn(c, rule, "internal/security", "Key", "SetPermissions"); g != nil && s != nil {
		c.Check(want(idxSet(g, false), 15) && want(idxSet(s, true), 15), rule, "Permissions/SetPermissions:byte", g.Pos(), "permissions live in byte 15", "Permissions/SetPermissions do not both use exactly byte 15")
	}
}

// ---- key freshness: where can the bytes of a returned security.Key live? -------------------

// keyOrigin describes the storage a slice value may alias: parameters of the enclosing
// function (by index), or nothing (freshly allocated in this call). bad names a source that is
// shared storage (a field, map, global, cache lookup) or cannot be summarised.
type keyOrigin struct {
	params map[int]bool
	bad    string
}

func (o *keyOrigin) merge(p keyOrigin) {
	for k := range p.params {
		o.params[k] = true
	}
	if o.bad == "" {
		o.bad = p.bad
	}
}

type originCtx struct {
	c    *core.Ctx
	memo map[*ssa.Function]*keyOrigin
	busy map[*ssa.Function]bool
}

// summary: origins of result #0 of fn in terms of fn's parameters.
func (oc *originCtx) summary(fn *ssa.Function) keyOrigin {
	if m, ok := oc.memo[fn]; ok {
		return *m
	}
	if oc.busy[fn] {
		return keyOrigin{params: map[int]bool{}}
	}
	if fn.Blocks == nil {
		return keyOrigin{params: map[int]bool{}, bad: "result of " + fn.String() + " (no source in scope)"}
	}
	oc.busy[fn] = true
	out := keyOrigin{params: map[int]bool{}}
	for _, v := range eng.ResultValues(fn, 0) {
		out.merge(oc.of(v, map[ssa.Value]bool{}, 0))
	}
	oc.busy[fn] = false
	oc.memo[fn] = &out
	oc.c.Count("functions_analysed", 1)
	return out
}

func (oc *originCtx) of(v ssa.Value, seen map[ssa.Value]bool, d int) keyOrigin {
	out := keyOrigin{params: map[int]bool{}}
	if v == nil || seen[v] {
		return out
	}
	if d > 24 {
		out.bad = "value too deep to follow: " + eng.Describe(v)
		return out
	}
	seen[v] = true
	switch x := v.(type) {
	case *ssa.Const:
		return out
	case *ssa.Parameter:
		for i, p := range x.Parent().Params {
			if p == x {
				out.params[i] = true
			}
		}
		return out
	case *ssa.MakeSlice, *ssa.Alloc:
		return out
	case *ssa.Convert:
		if b, ok := x.X.Type().Underlying().(*types.Basic); ok && b.Info()&types.IsString != 0 {
			return out // []byte(string) copies
		}
		return oc.of(x.X, seen, d+1)
	case *ssa.ChangeType:
		return oc.of(x.X, seen, d+1)
	case *ssa.Slice:
		return oc.of(x.X, seen, d+1)
	case *ssa.Phi:
		for _, e := range x.Edges {
			out.merge(oc.of(e, seen, d+1))
		}
		return out
	case *ssa.Extract:
		if call, ok := x.Tuple.(*ssa.Call); ok && x.Index == 0 {
			return oc.call(call, seen, d)
		}
	case *ssa.Call:
		return oc.call(x, seen, d)
	case *ssa.UnOp:
		if x.Op == token.MUL {
			if al, ok := x.X.(*ssa.Alloc); ok {
				// local variable (spilled): union of everything stored into it
				n := 0
				for _, r := range *al.Referrers() {
					if st, ok := r.(*ssa.Store); ok && st.Addr == al {
						n++
						out.merge(oc.of(st.Val, seen, d+1))
					}
				}
				if n > 0 {
					return out
				}
			}
			out.bad = "loaded from shared storage: " + eng.Describe(x)
			return out
		}
	}
	out.bad = "not a fresh buffer: " + eng.Describe(v)
	return out
}

func (oc *originCtx) call(call *ssa.Call, seen map[ssa.Value]bool, d int) keyOrigin {
	out := keyOrigin{params: map[int]bool{}}
	if b, ok := call.Call.Value.(*ssa.Builtin); ok {
		if b.Name() == "append" {
			// may return its first argument's storage
			return oc.of(call.Call.Args[0], seen, d+1)
		}
		out.bad = "builtin " + b.Name()
		return out
	}
	var callees []*ssa.Function
	if sc := call.Call.StaticCallee(); sc != nil {
		callees = []*ssa.Function{sc}
	} else {
		for _, e := range oc.c.P.CG().Out[call.Parent()] {
			if e.Site == ssa.CallInstruction(call) {
				callees = append(callees, e.Callee)
			}
		}
	}
	if len(callees) == 0 {
		out.bad = "result of an unresolved call: " + eng.Describe(call)
		return out
	}
	args := eng.CallArgs(&call.Call)
	for _, cal := range callees {
		s := oc.summary(cal)
		if s.bad != "" && out.bad == "" {
			out.bad = s.bad + " (via " + fnName(cal) + ")"
		}
		off := len(cal.Params) - len(args)
		for pi := range s.params {
			if ai := pi - off; ai >= 0 && ai < len(args) {
				out.merge(oc.of(args[ai], seen, d+1))
			} else if out.bad == "" {
				out.bad = "aliases a bound receiver of " + fnName(cal)
			}
		}
	}
	return out
}

// c03R8: the predicates every guard of C03/C11/C14 is written in mean what the guards assume
// (comparison normal forms; these functions touch the key only through comparisons and bit
// operations): HasPermission(f) ≡ Permissions()&f == f (all requested bits, not any);
// IsMaster ≡ Permissions() == AllowMaster; IsExpired ≡ ¬Expires().Equal(zero) ∧
// Expires().Before(now); SetPermission(f, v) writes Permissions()|f when v, Permissions()&^f
// otherwise.
func c03R8(c *core.Ctx, rule string) {
	c.Rule(rule, "security.Key predicates: HasPermission(f) = (Permissions() & f) == f; IsMaster = Permissions() == AllowMaster; IsExpired = false if Expires().Equal(timeZero), else Expires().Before(time.Now()); SetPermission(f, true/false) = SetPermissions(Permissions() | f / &^ f)", 4)
	isPerm := func(v ssa.Value, recv ssa.Value) bool {
		call, ok := eng.StripConv(v).(*ssa.Call)
		return ok && eng.FuncID(eng.CalleeObj(&call.Call)) == M+"security.Key.Permissions" && eng.CallArgs(&call.Call)[0] == recv
	}
	if f := fn(c, rule, "internal/security", "Key", "HasPermission"); f != nil {
		ok := false
		rvs := eng.ResultValues(f, 0)
		if len(rvs) == 1 {
			if eq, isB := rvs[0].(*ssa.BinOp); isB && eq.Op == token.EQL {
				for _, pr := range [][2]ssa.Value{{eq.X, eq.Y}, {eq.Y, eq.X}} {
					and, isAnd := eng.StripConv(pr[0]).(*ssa.BinOp)
					if !isAnd || and.Op != token.AND || eng.StripConv(pr[1]) != ssa.Value(f.Params[1]) {
						continue
					}
					if (isPerm(and.X, f.Params[0]) && eng.StripConv(and.Y) == ssa.Value(f.Params[1])) || (isPerm(and.Y, f.Params[0]) && eng.StripConv(and.X) == ssa.Value(f.Params[1])) {
						ok = true
					}
				}
			}
		}
		c.Check(ok, rule, fnName(f)+":all requested bits", f.Pos(), "HasPermission(f) is (Permissions() & f) == f", "HasPermission is not `(Permissions() & flag) == flag`: a test for a combination of permissions (or for AllowMaster = all bits) is then satisfied by a key holding only some of them")
	}
	if f := fn(c, rule, "internal/security", "Key", "IsMaster"); f != nil {
		master, _ := constOf(c, rule, "internal/security", "AllowMaster")
		ok := false
		rvs := eng.ResultValues(f, 0)
		if len(rvs) == 1 {
			if eq, isB := rvs[0].(*ssa.BinOp); isB && eq.Op == token.EQL {
				for _, pr := range [][2]ssa.Value{{eq.X, eq.Y}, {eq.Y, eq.X}} {
					if k, isC := eng.ConstInt(pr[1]); isC && k == master && isPerm(pr[0], f.Params[0]) {
						ok = true
					}
				}
			}
		}
		c.Check(ok, rule, fnName(f)+":exactly the master permission set", f.Pos(), "IsMaster is Permissions() == AllowMaster", "IsMaster is not `Permissions() == AllowMaster`: keys that are not master keys could mint keys and ban keys")
	}
	if f := fn(c, rule, "internal/security", "Key", "IsExpired"); f != nil {
		var before, equal *ssa.Call
		other := ""
		eng.Instrs(f, func(in ssa.Instruction) {
			call, ok := in.(*ssa.Call)
			if !ok {
				return
			}
			switch id := eng.FuncID(eng.CalleeObj(&call.Call)); id {
			case "time.Time.Before":
				before = call
			case "time.Time.Equal":
				equal = call
			case "time.Time.After", "time.Time.Compare", "time.Time.Sub", "time.Since", "time.Until":
				other = id
			}
		})
		isExpires := func(v ssa.Value) bool {
			v = eng.StripConv(v)
			if u, ok := v.(*ssa.UnOp); ok && u.Op == token.MUL {
				if al, ok := u.X.(*ssa.Alloc); ok {
					for _, r := range *al.Referrers() {
						if st, ok := r.(*ssa.Store); ok && st.Addr == al {
							v = st.Val
						}
					}
				}
			}
			call, ok := v.(*ssa.Call)
			return ok && eng.FuncID(eng.CalleeObj(&call.Call)) == M+"security.Key.Expires"
		}
		fromNow := func(v ssa.Value) bool {
			for d := 0; d < 4; d++ {
				call, ok := eng.StripConv(v).(*ssa.Call)
				if !ok {
					return false
				}
				id := eng.FuncID(eng.CalleeObj(&call.Call))
				if id == "time.Now" {
					return true
				}
				if id != "time.Time.UTC" && id != "time.Time.Local" {
					return false
				}
				v = eng.CallArgs(&call.Call)[0]
			}
			return false
		}
		ok := before != nil && equal != nil && other == ""
		if ok {
			ba := eng.CallArgs(&before.Call)
			ea := eng.CallArgs(&equal.Call)
			ok = isExpires(ba[0]) && fromNow(ba[1]) && isExpires(ea[0])
			// results: false (under Equal) or the Before call
			for _, rv := range eng.ResultValues(f, 0) {
				if b, isC := constBoolOf(rv); isC {
					if b {
						ok = false
					}
					continue
				}
				if rv != ssa.Value(before) {
					ok = false
				}
			}
			// the `false` is returned only when the expiry equals the zero time
			if ok {
				eng.Instrs(f, func(in ssa.Instruction) {
					ret, isRet := in.(*ssa.Return)
					if !isRet {
						return
					}
					if b, isC := constBoolOf(ret.Results[0]); isC && !b {
						g := eng.Guarded(ret, eng.ValuePred("Expires().Equal(timeZero)", equal, true))
						if !g.Guarded {
							ok = false
						}
					}
				})
			}
		}
		c.Check(ok, rule, fnName(f)+":expiry before now", f.Pos(), "IsExpired is false for the zero expiry and Expires().Before(now) otherwise", "IsExpired is not `!Expires().Equal(timeZero) && Expires().Before(time.Now())`: expired keys could keep authorising, or unexpired keys be refused")
	}
	if f := fn(c, rule, "internal/security", "Key", "SetPermission"); f != nil {
		sets := eng.Calls(f, false, M+"security.Key.SetPermissions")
		okOr, okClr := false, false
		valP := eng.ValuePred("value", f.Params[2], true)
		for _, s := range sets {
			arg := eng.StripConv(eng.CallArgs(s.Common())[1])
			bo, isB := arg.(*ssa.BinOp)
			if !isB {
				continue
			}
			flag := ssa.Value(f.Params[1])
			hasPF := func(x, y ssa.Value) bool { return isPerm(x, f.Params[0]) && eng.StripConv(y) == flag }
			switch bo.Op {
			case token.OR:
				if (hasPF(bo.X, bo.Y) || hasPF(bo.Y, bo.X)) && eng.Guarded(s.(ssa.Instruction), valP).Guarded {
					okOr = true
				}
			case token.AND_NOT:
				if hasPF(bo.X, bo.Y) && eng.Guarded(s.(ssa.Instruction), eng.ValuePred("!value", f.Params[2], false)).Guarded {
					okClr = true
				}
			case token.AND:
				// p & ^flag
				for _, pr := range [][2]ssa.Value{{bo.X, bo.Y}, {bo.Y, bo.X}} {
					if x, isX := eng.StripConv(pr[1]).(*ssa.BinOp); isX && x.Op == token.XOR && isPerm(pr[0], f.Params[0]) {
						if k, isC := eng.ConstInt(x.X); isC && (k == -1 || k == 255) && eng.StripConv(x.Y) == flag {
							if eng.Guarded(s.(ssa.Instruction), eng.ValuePred("!value", f.Params[2], false)).Guarded {
								okClr = true
							}
						}
					}
					if u, isU := eng.StripConv(pr[1]).(*ssa.UnOp); isU && u.Op == token.XOR && eng.StripConv(u.X) == flag && isPerm(pr[0], f.Params[0]) {
						if eng.Guarded(s.(ssa.Instruction), eng.ValuePred("!value", f.Params[2], false)).Guarded {
							okClr = true
						}
					}
				}
			}
		}
		c.Check(okOr && okClr && len(sets) == 2, rule, fnName(f)+":sets or clears exactly the flag", f.Pos(), "SetPermission(f, true) ORs the flag in, SetPermission(f, false) clears exactly those bits", "SetPermission does not set `Permissions()|flag` under value and `Permissions()&^flag` otherwise: CreateKey/ExtendKey clear AllowMaster/AllowExtend through it, a wrong mask leaves the minted key stronger than requested")
	}
}

// c03R9: a revoked contract stops authorising at the next refresh. The HTTP contract
// provider's periodic refresh replaces every cached contract by what the contract service
// answers now: in the Range callback of refresh, every successful fetchContract(id) is followed
// by cache.Store(id, <the fetched contract>) — no path keeps the cached object (its State may
// have changed to refused while id, master and signature stayed the same).
func c03R9(c *core.Ctx, rule string) {
	c.Rule(rule, "HTTPContractProvider.refresh: for every cached id, a successful fetchContract(id) is always followed by cache.Store(id, fetched) with the fetched object (the cached contract is never kept in place of the fresh answer); refresh is the function scheduled by async.Repeat in Configure", 2)
	f := fn(c, rule, "internal/provider/contract", "HTTPContractProvider", "refresh")
	if f == nil {
		return
	}
	idFetch := M + "provider/contract.HTTPContractProvider.fetchContract"
	checked := 0
	// refresh itself, its closures, and whatever function value it hands to cache.Range
	cands := eng.WithAnon(f)
	eng.Instrs(f, func(in ssa.Instruction) {
		ci, ok := in.(ssa.CallInstruction)
		if !ok {
			return
		}
		for _, a := range eng.CallArgs(ci.Common()) {
			if fv, _ := eng.FuncValue(a); fv != nil && fv.Blocks != nil {
				dup := false
				for _, x := range cands {
					if x == fv {
						dup = true
					}
				}
				if !dup {
					cands = append(cands, fv)
				}
			}
		}
	})
	for _, g := range cands {
		for _, fc := range eng.Calls(g, false, idFetch) {
			checked++
			fetchOK := eng.ValuePred("fetchContract ok", extractOf(fc.Value(), 1), true)
			stores := func(in ssa.Instruction) bool {
				if !eng.IsCallTo(in, "sync.Map.Store") {
					return false
				}
				a := eng.CallArgs(in.(ssa.CallInstruction).Common())
				v := a[2]
				if mi, ok := v.(*ssa.MakeInterface); ok {
					v = mi.X
				}
				return isExtractOf(v, fc.Value(), 0)
			}
			ok, w := eng.MustFollow(g, []eng.Pred{fetchOK}, stores)
			ok = ok && eng.HasLicensingEdge(g, fetchOK)
			if ok {
				c.OK(rule, fnName(g)+":fresh answer replaces the cached contract", fc.Pos(), "every successful fetch is stored")
			} else {
				c.Fail(rule, fnName(g)+":fresh answer replaces the cached contract", fc.Pos(), "a path of the periodic refresh fetches the contract successfully but keeps the cached object instead of storing the fresh one: a contract whose state was changed to refused (same id, master and signature) keeps validating keys", w...)
			}
		}
	}
	if checked == 0 {
		c.Fail(rule, fnName(f)+":refetches", f.Pos(), "refresh no longer refetches the cached contracts")
	}
	// scheduled
	if cfg := fn(c, rule, "internal/provider/contract", "HTTPContractProvider", "Configure"); cfg != nil {
		sched := false
		for _, call := range eng.Calls(cfg, false, M+"async.Repeat") {
			a := eng.CallArgs(call.Common())
			if fv, _ := eng.FuncValue(a[2]); fv == f {
				sched = true
			}
		}
		c.Check(sched, rule, fnName(cfg)+":schedules refresh", cfg.Pos(), "refresh runs periodically", "Configure does not schedule refresh with async.Repeat: cached contracts are never re-read")
	}
}
