module github.com/emitter-io/emitter

go 1.21
