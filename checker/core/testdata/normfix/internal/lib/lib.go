// Package lib is a fixture for the helper normalisation: every function of Run uses a
// different call position; main prints the trace, which must be identical before and after
// the transformation.
package lib

import (
	"errors"
	"fmt"
	"strings"
)

var trace []string

func note(format string, args ...interface{}) { trace = append(trace, fmt.Sprintf(format, args...)) }

type node struct {
	parent   *node
	word     int
	children map[int]*node
	subs     []string
}

var errEmpty = errors.New("empty")

// Run exercises every pattern and returns the trace.
func Run() []string {
	trace = nil
	root := &node{children: map[int]*node{}}
	a := root.attach(1)
	b := a.attach(2)
	b.subs = append(b.subs, "s")
	c := b.attach(3)
	note("depth=%d", depth(c))
	note("walk=%v", walk(c))
	note("first=%v", firstSub(c))
	v, err := parse("  41 ")
	note("parse=%d,%v", v, err)
	v, err = parse("")
	note("parse=%d,%v", v, err)
	note("classify=%s,%s,%s", classify(-1), classify(0), classify(7))
	note("sum=%d", sumUntil([]int{1, 2, 3, 0, 9}))
	note("tail=%s", tailCall("x"))
	note("both=%v,%v", both(c, 3), both(c, 4))
	cnt := counter{}
	cnt.bump(2)
	cnt.bump(3)
	note("counter=%d", cnt.n)
	note("shadow=%d", shadow(5))
	pt := &point{3, 4}
	note("norm=%d", pt.norm1())
	note("evens=%v", evens([]int{1, 2, 3, 4, 5, 6}))
	note("kind=%s,%s", kind(2), kind(9))
	note("lit=%d", viaLiteral(4))
	note("mut=%d", mutates(10))
	note("blank=%d", blank(1, 2))
	return trace
}

func (n *node) attach(word int) *node {
	child := n.newChild(word)
	return child
}

// newChild: pointer receiver, several statements, one return.
func (n *node) newChild(word int) *node {
	child := &node{word: word, parent: n, children: map[int]*node{}}
	n.children[word] = child
	note("attach %d", word)
	return child
}

func (n *node) isEmpty() bool { return len(n.subs) == 0 && len(n.children) == 0 }

func (n *node) hasParent() bool {
	note("hasParent %d", n.word)
	return n.parent != nil
}

// depth: helper in a loop condition.
func depth(n *node) int {
	d := 0
	for curr := n; curr.hasParent(); curr = curr.parent {
		d++
		if d > 100 {
			continue
		}
	}
	return d
}

// walk: helper in `if`, in `else if`, and in the right operand of &&.
func walk(n *node) []int {
	var out []int
	for curr := n; curr != nil; curr = curr.parent {
		if curr.word == 3 {
			out = append(out, -3)
		} else if curr.isEmpty() {
			out = append(out, -curr.word)
		} else {
			out = append(out, curr.word)
		}
		if curr.parent != nil && sameWord(curr, 2) {
			out = append(out, 100)
		}
	}
	return out
}

func sameWord(n *node, w int) bool {
	note("sameWord %d", n.word)
	if n == nil {
		return false
	}
	return n.word == w
}

// firstSub: tuple result in an if-init, error result.
func firstSub(n *node) string {
	for curr := n; curr != nil; curr = curr.parent {
		if s, err := subOf(curr); err == nil {
			return s
		}
	}
	return "<none>"
}

func subOf(n *node) (string, error) {
	if len(n.subs) == 0 {
		return "", errEmpty
	}
	return n.subs[0], nil
}

// parse: named results with a bare return, package qualifier from another import set.
func parse(s string) (v int, err error) {
	t := trim(s)
	if v, err = atoi(t); err != nil {
		return 0, err
	}
	return v + 1, nil
}

func trim(s string) string { return strings.TrimSpace(s) }

func atoi(s string) (n int, err error) {
	if s == "" {
		err = errEmpty
		return
	}
	for _, r := range s {
		n = n*10 + int(r-'0')
	}
	return
}

// classify: helper as a switch tag, switch inside the helper with returns.
func classify(x int) string {
	switch sign(x) {
	case -1:
		return "neg"
	case 0:
		return "zero"
	}
	return "pos"
}

func sign(x int) int {
	switch {
	case x < 0:
		return -1
	case x == 0:
		return 0
	default:
		return 1
	}
}

// sumUntil: helper with a loop containing break/continue and a return inside the loop.
func sumUntil(xs []int) int {
	total := accumulate(xs)
	return total
}

func accumulate(xs []int) int {
	t := 0
	for _, x := range xs {
		if x == 2 {
			continue
		}
		if x == 0 {
			return t
		}
		t += x
	}
	return t
}

// tailCall: helper with defer in tail position.
func tailCall(s string) string {
	note("before")
	return deferred(s)
}

func deferred(s string) string {
	defer note("deferred ran")
	note("in deferred")
	return s + "!"
}

// both: two helper calls in one statement (second needs another round).
func both(n *node, w int) bool {
	ok := sameWord(n, w) == sameWord(n, w)
	return ok && sameWord(n, w)
}

type counter struct{ n int }

// bump: value passed, pointer receiver method on an addressable value.
func (c *counter) bump(by int) {
	c.add(by)
}

func (c *counter) add(by int) {
	if by <= 0 {
		return
	}
	c.n += by
}

// shadow: the caller has a local named like a package-level identifier the helper uses:
// the helper must not be inlined here.
func shadow(x int) int {
	errEmpty := x
	_ = errEmpty
	return usesGlobal(x)
}

func usesGlobal(x int) int {
	if errEmpty != nil {
		return x * 2
	}
	return x
}

type point struct{ x, y int }

// norm1: value receiver called on a pointer.
func (p *point) norm1() int {
	return p.sum() + abs(-1)
}

func (p point) sum() int { return abs(p.x) + abs(p.y) }

func abs(x int) int {
	if x < 0 {
		return -x
	}
	return x
}

// evens: helper as a range expression; the helper contains a closure with its own return.
func evens(xs []int) []int {
	var out []int
	for _, x := range filter(xs) {
		out = append(out, x)
	}
	return out
}

func filter(xs []int) []int {
	keep := func(x int) bool {
		if x%2 == 0 {
			return true
		}
		return false
	}
	var out []int
	for _, x := range xs {
		if keep(x) {
			out = append(out, x)
		}
	}
	return out
}

// kind: helper in a switch init statement.
func kind(x int) string {
	switch k := bucket(x); k {
	case 0:
		return "small"
	default:
		return "large"
	}
}

func bucket(x int) int {
	note("bucket %d", x)
	return x / 5
}

// viaLiteral: the call sits inside a function literal of the caller.
func viaLiteral(x int) int {
	f := func(y int) int {
		z := double(y)
		return z + 1
	}
	return f(x)
}

func double(x int) int { return x * 2 }

// mutates: the helper assigns to its parameter; the caller's variable must not change.
func mutates(x int) int {
	y := decrement(x)
	return x*100 + y
}

func decrement(x int) int {
	x--
	x--
	return x
}

// blank: unnamed/blank parameters are still evaluated.
func blank(a, b int) int {
	return second(trace1(a), trace1(b))
}

func trace1(x int) int {
	note("eval %d", x)
	return x
}

func second(_ int, b int) int { return b }
