package main

import (
	"fmt"

	"github.com/emitter-io/emitter/internal/lib"
)

func main() {
	for _, l := range lib.Run() {
		fmt.Println(l)
	}
}
