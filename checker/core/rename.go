package core

// Rename normalisation.
//
// The rules name functions, methods, fields, types, constants and variables of the tree they
// were confirmed against. A behaviour-preserving *rename* would make every rule that mentions
// the old name report "anchor missing". Before anything else the loader therefore compares
// the symbols of the current tree with the pinned symbol table (rules/pinned_symbols.txt):
// a symbol that is in the table but not in the tree ("missing") and a symbol that is in the
// tree but not in the table ("new") are taken to be one renamed symbol when they are of the
// same kind, have the same owner (package, receiver type or struct type) and the same type
// (parameter names ignored), and the pairing is unique in both directions. The new name is
// then renamed back to the pinned one in memory (packages.Config.Overlay; identifiers are
// found through go/types, never by text), and the tree is loaded again. Types are handled in
// a first pass so that owners and type strings of the second pass already carry the old type
// names. If the renamed files do not type-check the step is abandoned and the tree is
// analysed as written. The step cannot make a check pass that would otherwise fail for a
// reason other than a missing name: the rules still analyse the renamed function's own body.

import (
	"fmt"
	"go/ast"
	"go/token"
	"go/types"
	"regexp"
	"sort"
	"strings"

	"golang.org/x/tools/go/packages"
)

// PinnedSymbols is the symbol table of the tree the rules were confirmed against (set by
// the rules package from the embedded file; empty disables the step).
var PinnedSymbols string

// Symbol is one row of the symbol table.
type Symbol struct {
	Kind, Owner, Name, Type string
	obj                     types.Object
}

func (s Symbol) row() string { return s.Kind + "\t" + s.Owner + "\t" + s.Name + "\t" + s.Type }

func relPath(p string) string {
	if p == ModPath {
		return "."
	}
	return strings.TrimPrefix(p, ModPath+"/")
}

// typeKey renders a type without parameter/result names.
func typeKey(t types.Type) string {
	switch x := t.(type) {
	case *types.Signature:
		var b strings.Builder
		b.WriteString("func(")
		for i := 0; i < x.Params().Len(); i++ {
			if i > 0 {
				b.WriteString(",")
			}
			if x.Variadic() && i == x.Params().Len()-1 {
				b.WriteString("...")
			}
			b.WriteString(typeKey(x.Params().At(i).Type()))
		}
		b.WriteString(")(")
		for i := 0; i < x.Results().Len(); i++ {
			if i > 0 {
				b.WriteString(",")
			}
			b.WriteString(typeKey(x.Results().At(i).Type()))
		}
		b.WriteString(")")
		return b.String()
	case *types.Pointer:
		return "*" + typeKey(x.Elem())
	case *types.Slice:
		return "[]" + typeKey(x.Elem())
	case *types.Array:
		return fmt.Sprintf("[%d]%s", x.Len(), typeKey(x.Elem()))
	case *types.Map:
		return "map[" + typeKey(x.Key()) + "]" + typeKey(x.Elem())
	case *types.Chan:
		return fmt.Sprintf("chan%d %s", x.Dir(), typeKey(x.Elem()))
	case *types.Named:
		o := x.Obj()
		if o.Pkg() == nil {
			return o.Name()
		}
		return relPath(o.Pkg().Path()) + "." + o.Name()
	case *types.Struct:
		var b strings.Builder
		b.WriteString("struct{")
		for i := 0; i < x.NumFields(); i++ {
			f := x.Field(i)
			if f.Embedded() {
				b.WriteString("embedded ")
			} else {
				b.WriteString(f.Name() + " ")
			}
			b.WriteString(typeKey(f.Type()) + ";")
		}
		b.WriteString("}")
		return b.String()
	case *types.Interface:
		var names []string
		for i := 0; i < x.NumMethods(); i++ {
			names = append(names, x.Method(i).Name()+typeKey(x.Method(i).Type()))
		}
		sort.Strings(names)
		return "interface{" + strings.Join(names, ";") + "}"
	}
	return types.TypeString(t, func(p *types.Package) string { return relPath(p.Path()) })
}

// typeShape describes a named type for rename matching: its underlying type and the names
// of its methods (a renamed type keeps both).
func typeShape(n *types.Named) string {
	var ms []string
	for i := 0; i < n.NumMethods(); i++ {
		ms = append(ms, n.Method(i).Name())
	}
	sort.Strings(ms)
	shape := typeKey(n.Underlying()) + " methods:" + strings.Join(ms, ",")
	// a self-referential type mentions its own name: make the shape independent of it
	if n.Obj().Pkg() != nil {
		self := regexp.MustCompile(regexp.QuoteMeta(relPath(n.Obj().Pkg().Path())+"."+n.Obj().Name()) + `\b`)
		shape = self.ReplaceAllString(shape, "·self")
	}
	return shape
}

// SymbolsOf lists the symbols of the in-scope packages.
func SymbolsOf(pkgs []*packages.Package) []Symbol {
	var out []Symbol
	for _, pk := range pkgs {
		// every package of the module, fakes and mocks included: they implement the same
		// interfaces and must be renamed along for the tree to type-check
		if (pk.PkgPath != ModPath && !strings.HasPrefix(pk.PkgPath, ModPath+"/")) || pk.Types == nil {
			continue
		}
		rel := relPath(pk.PkgPath)
		sc := pk.Types.Scope()
		for _, name := range sc.Names() {
			switch o := sc.Lookup(name).(type) {
			case *types.Func:
				out = append(out, Symbol{"func", rel, name, typeKey(o.Type()), o})
			case *types.Const:
				out = append(out, Symbol{"const", rel, name, typeKey(o.Type()), o})
			case *types.Var:
				out = append(out, Symbol{"var", rel, name, typeKey(o.Type()), o})
			case *types.TypeName:
				if o.IsAlias() {
					continue
				}
				n, ok := o.Type().(*types.Named)
				if !ok || n.TypeParams().Len() > 0 {
					continue
				}
				out = append(out, Symbol{"type", rel, name, typeShape(n), o})
				owner := rel + "." + name
				for i := 0; i < n.NumMethods(); i++ {
					m := n.Method(i)
					sig := m.Type().(*types.Signature)
					out = append(out, Symbol{"method", owner, m.Name(), typeKey(types.NewSignatureType(nil, nil, nil, sig.Params(), sig.Results(), sig.Variadic())), m})
				}
				switch u := n.Underlying().(type) {
				case *types.Struct:
					for i := 0; i < u.NumFields(); i++ {
						f := u.Field(i)
						if f.Embedded() {
							continue
						}
						out = append(out, Symbol{"field", owner, f.Name(), typeKey(f.Type()), f})
					}
				case *types.Interface:
					for i := 0; i < u.NumExplicitMethods(); i++ {
						m := u.ExplicitMethod(i)
						out = append(out, Symbol{"method", owner, m.Name(), typeKey(m.Type()), m})
					}
				}
			}
		}
	}
	sort.Slice(out, func(i, j int) bool { return out[i].row() < out[j].row() })
	return out
}

// SymbolTable renders the table (one row per symbol).
func SymbolTable(pkgs []*packages.Package) string {
	var b strings.Builder
	for _, s := range SymbolsOf(pkgs) {
		b.WriteString(s.row() + "\n")
	}
	return b.String()
}

type renamePair struct {
	from Symbol // as in the current tree
	to   string // pinned name
}

// detectRenames pairs missing pinned symbols with new symbols. typesOnly restricts the
// result to named types (first pass).
func detectRenames(pkgs []*packages.Package, typesOnly bool) []renamePair {
	if PinnedSymbols == "" {
		return nil
	}
	type key struct{ kind, owner, typ string }
	pinned := map[string]bool{}
	pinnedByKey := map[key][]string{}
	for _, l := range strings.Split(PinnedSymbols, "\n") {
		f := strings.Split(l, "\t")
		if len(f) != 4 {
			continue
		}
		pinned[f[0]+"\t"+f[1]+"\t"+f[2]] = true
		k := key{f[0], f[1], f[3]}
		pinnedByKey[k] = append(pinnedByKey[k], f[2])
	}
	cur := SymbolsOf(pkgs)
	have := map[string]bool{}
	curByKey := map[key][]Symbol{}
	for _, s := range cur {
		have[s.Kind+"\t"+s.Owner+"\t"+s.Name] = true
	}
	for _, s := range cur {
		if !pinned[s.Kind+"\t"+s.Owner+"\t"+s.Name] {
			k := key{s.Kind, s.Owner, s.Type}
			curByKey[k] = append(curByKey[k], s)
		}
	}
	var out []renamePair
	for k, news := range curByKey {
		if (k.kind == "type") != typesOnly {
			continue
		}
		var missing []string
		for _, n := range pinnedByKey[k] {
			if !have[k.kind+"\t"+k.owner+"\t"+n] {
				missing = append(missing, n)
			}
		}
		if len(missing) == 1 && len(news) == 1 && token.IsIdentifier(missing[0]) {
			out = append(out, renamePair{news[0], missing[0]})
		}
	}
	sort.Slice(out, func(i, j int) bool { return out[i].from.row() < out[j].from.row() })
	return out
}

// renameOverlay rewrites every identifier that denotes one of the renamed objects.
func renameOverlay(pkgs []*packages.Package, pairs []renamePair, srcOf func(string) []byte) map[string][]byte {
	to := map[types.Object]string{}
	for _, p := range pairs {
		to[p.from.obj] = p.to
	}
	out := map[string][]byte{}
	for _, pk := range pkgs {
		if pk.TypesInfo == nil || len(pk.Syntax) != len(pk.CompiledGoFiles) {
			continue
		}
		if pk.PkgPath != ModPath && !strings.HasPrefix(pk.PkgPath, ModPath+"/") {
			continue
		}
		for i, f := range pk.Syntax {
			filename := pk.CompiledGoFiles[i]
			src := srcOf(filename)
			tf := pk.Fset.File(f.Pos())
			if src == nil || tf == nil || tf.Size() != len(src) {
				continue
			}
			var edits []textEdit
			ast.Inspect(f, func(n ast.Node) bool {
				id, ok := n.(*ast.Ident)
				if !ok {
					return true
				}
				obj := pk.TypesInfo.Uses[id]
				if obj == nil {
					obj = pk.TypesInfo.Defs[id]
				}
				if obj == nil {
					return true
				}
				if fn, ok := obj.(*types.Func); ok && fn.Origin() != nil {
					obj = fn.Origin()
				}
				if v, ok := obj.(*types.Var); ok && v.Origin() != nil {
					obj = v.Origin()
				}
				if v, ok := obj.(*types.Var); ok && v.Embedded() {
					// selector or literal key naming an embedded field: its name is the type's name
					t := v.Type()
					if pt, ok := t.(*types.Pointer); ok {
						t = pt.Elem()
					}
					if nt, ok := t.(*types.Named); ok {
						if _, renamed := to[nt.Obj()]; renamed {
							obj = nt.Obj()
						}
					}
				}
				if name, ok := to[obj]; ok && id.Name != name {
					off := tf.Offset(id.Pos())
					edits = append(edits, textEdit{off, off + len(id.Name), name})
				}
				return true
			})
			if len(edits) == 0 {
				continue
			}
			if res, ok := applyEdits(src, edits); ok {
				out[filename] = res
			}
		}
	}
	return out
}
