package core

import (
	"bufio"
	"encoding/json"
	"fmt"
	"go/token"
	"os"
	"path/filepath"
	"sort"
	"strings"
	"time"
)

// Status of an obligation.
type Status string

// Obligation outcomes.
const (
	OK        Status = "OK"
	FAIL      Status = "FAIL"
	KNOWN     Status = "KNOWN"
	UNDECIDED Status = "UNDECIDED" // idiom not recognised / anchor missing: fails closed
)

// Ob is one decided obligation.
type Ob struct {
	Rule   string   `json:"rule"`   // e.g. C03.R1
	Key    string   `json:"key"`    // rule + construct, never a line number
	Pos    string   `json:"pos"`    // file:line (diagnostic only)
	Status Status   `json:"status"` //
	Msg    string   `json:"msg"`    // what was established / what fails
	Path   []string `json:"path,omitempty"`
}

// Ctx collects the obligations of one property.
type Ctx struct {
	Prop  string
	P     *Prog
	Obs   []Ob
	Stats map[string]int // measured counters: functions, blocks, call sites ...
	Rules map[string]string
	min   map[string]int
}

// NewCtx creates a context.
func NewCtx(prop string, p *Prog) *Ctx {
	return &Ctx{Prop: prop, P: p, Stats: map[string]int{}, Rules: map[string]string{}, min: map[string]int{}}
}

// Rule registers a rule text and the minimum number of instances confirmed by hand.
func (c *Ctx) Rule(id, text string, min int) {
	c.Rules[id] = text
	c.min[id] = min
}

func (c *Ctx) add(rule, key string, pos token.Pos, st Status, msg string, path []string) {
	c.Obs = append(c.Obs, Ob{Rule: rule, Key: rule + ":" + key, Pos: c.P.Pos(pos), Status: st, Msg: msg, Path: path})
}

// OK records a discharged obligation.
func (c *Ctx) OK(rule, key string, pos token.Pos, msg string) { c.add(rule, key, pos, OK, msg, nil) }

// Fail records a violated obligation.
func (c *Ctx) Fail(rule, key string, pos token.Pos, msg string, path ...string) {
	c.add(rule, key, pos, FAIL, msg, path)
}

// Undecided records an obligation the checker could not decide (fails closed).
func (c *Ctx) Undecided(rule, key string, pos token.Pos, msg string) {
	c.add(rule, key, pos, UNDECIDED, msg, nil)
}

// Check records OK or FAIL depending on cond.
func (c *Ctx) Check(cond bool, rule, key string, pos token.Pos, okMsg, failMsg string) bool {
	if cond {
		c.OK(rule, key, pos, okMsg)
	} else {
		c.Fail(rule, key, pos, failMsg)
	}
	return cond
}

// Count adds to a measured counter.
func (c *Ctx) Count(name string, n int) { c.Stats[name] += n }

// Known is an entry of known-findings.txt.
type Known struct {
	Prop string
	Key  string
	Text string
}

// LoadKnown parses known-findings.txt (lines "known: property=Cnn key=<k> <text>"; "fixed:" lines suppress nothing).
func LoadKnown(path string) ([]Known, error) {
	f, err := os.Open(path)
	if err != nil {
		if os.IsNotExist(err) {
			return nil, nil
		}
		return nil, err
	}
	defer f.Close()
	var out []Known
	sc := bufio.NewScanner(f)
	for sc.Scan() {
		line := strings.TrimSpace(sc.Text())
		if !strings.HasPrefix(line, "known:") {
			continue
		}
		rest := strings.TrimSpace(strings.TrimPrefix(line, "known:"))
		k := Known{}
		if strings.HasPrefix(rest, "property=") {
			i := strings.IndexAny(rest, " \t")
			if i < 0 {
				continue
			}
			k.Prop = strings.TrimPrefix(rest[:i], "property=")
			rest = strings.TrimSpace(rest[i:])
		}
		if strings.HasPrefix(rest, "key=\"") {
			rest = rest[5:]
			j := strings.Index(rest, "\"")
			if j < 0 {
				continue
			}
			k.Key = rest[:j]
			rest = strings.TrimSpace(rest[j+1:])
		} else if strings.HasPrefix(rest, "key=") {
			i := strings.IndexAny(rest, " \t")
			if i < 0 {
				i = len(rest)
			}
			k.Key = rest[4:i]
			rest = strings.TrimSpace(rest[i:])
		}
		k.Text = rest
		if k.Prop != "" && k.Key != "" {
			out = append(out, k)
		}
	}
	return out, sc.Err()
}

// Result is the verdict of one property run.
type Result struct {
	Violations int
	Known      int
	Undecided  int
	OK         int
}

// Finish applies known findings and minimum instance counts, prints the report,
// writes evidence and the violations file. It returns the process exit code.
func (c *Ctx) Finish(verifDir, tier string, seed int64, started time.Time, level string, explanation string, assumptions []string, extra map[string]interface{}) int {
	known, err := LoadKnown(filepath.Join(verifDir, "known-findings.txt"))
	if err != nil {
		fmt.Printf("FAIL %s cannot read known-findings.txt: %v\n", c.Prop, err)
		return 2
	}
	knownByKey := map[string]Known{}
	for _, k := range known {
		if k.Prop == c.Prop {
			knownByKey[k.Key] = k
		}
	}
	// minimum instance counts: a rule matching fewer sites than confirmed by hand fails
	perRule := map[string]int{}
	for _, o := range c.Obs {
		perRule[o.Rule]++
	}
	ruleIDs := make([]string, 0, len(c.Rules))
	for id := range c.Rules {
		ruleIDs = append(ruleIDs, id)
	}
	sort.Strings(ruleIDs)
	for _, id := range ruleIDs {
		if perRule[id] < c.min[id] {
			c.add(id, "instances", token.NoPos, UNDECIDED, fmt.Sprintf("rule produced %d obligations, at least %d were confirmed by hand on the pinned tree (anchors moved or rule went blind)", perRule[id], c.min[id]), nil)
		}
	}
	res := Result{}
	usedKnown := map[string]bool{}
	for i := range c.Obs {
		o := &c.Obs[i]
		if o.Status == FAIL {
			if _, ok := knownByKey[o.Key]; ok {
				o.Status = KNOWN
				usedKnown[o.Key] = true
			}
		}
		switch o.Status {
		case OK:
			res.OK++
		case KNOWN:
			res.Known++
		case FAIL:
			res.Violations++
		case UNDECIDED:
			res.Undecided++
		}
	}
	for _, o := range c.Obs {
		line := fmt.Sprintf("%-9s %s %s %s — %s", o.Status, o.Rule, o.Key, o.Pos, o.Msg)
		fmt.Println(line)
		if o.Status == KNOWN {
			fmt.Printf("KNOWN-FINDING: property=%s %s (%s)\n", c.Prop, knownByKey[o.Key].Text, o.Key)
		}
	}
	evDir := filepath.Join(verifDir, "evidence")
	os.MkdirAll(evDir, 0o755)
	violPath := filepath.Join(evDir, c.Prop+".violations.txt")
	os.Remove(violPath)
	exit := 0
	if res.Violations > 0 || res.Undecided > 0 {
		exit = 1
		var sb strings.Builder
		for _, o := range c.Obs {
			if o.Status == FAIL || o.Status == UNDECIDED {
				fmt.Fprintf(&sb, "%s rule=%s key=%s at=%s\n  %s\n", o.Status, o.Rule, o.Key, o.Pos, o.Msg)
				if rt, ok := c.Rules[o.Rule]; ok {
					fmt.Fprintf(&sb, "  rule text: %s\n", rt)
				}
				for _, p := range o.Path {
					fmt.Fprintf(&sb, "    %s\n", p)
				}
			}
		}
		fmt.Fprintf(&sb, "replay: bin/verifcheck -prop %s -tier %s\n", c.Prop, tier)
		os.WriteFile(violPath, []byte(sb.String()), 0o644)
	}

	// evidence
	samples := []interface{}{}
	seenRule := map[string]int{}
	for _, o := range c.Obs {
		if seenRule[o.Rule] < 2 {
			seenRule[o.Rule]++
			samples = append(samples, map[string]string{"rule": o.Rule, "key": o.Key, "at": o.Pos, "status": string(o.Status), "what": o.Msg})
		}
	}
	rules := map[string]interface{}{}
	for _, id := range ruleIDs {
		rules[id] = map[string]interface{}{"text": c.Rules[id], "obligations": perRule[id], "min_confirmed_by_hand": c.min[id]}
	}
	distinct := map[string]bool{}
	for _, o := range c.Obs {
		distinct[o.Key] = true
	}
	nScopeFuncs := 0
	nBlocks := 0
	for _, fn := range c.P.ScopeFuncs() {
		nScopeFuncs++
		nBlocks += len(fn.Blocks)
	}
	cov := map[string]interface{}{
		"explanation":         explanation,
		"obligations":         len(c.Obs),
		"discharged":          res.OK,
		"known_findings":      res.Known,
		"undecided":           res.Undecided,
		"evaluations":         len(c.Obs),
		"distinct_nontrivial": len(distinct),
		"rule":                "one obligation per (rule, construct) instance generated from the current source of /repo; distinct = distinct rule:construct keys",
		"samples":             samples,
		"rules":               rules,
		"measured":            c.Stats,
		"packages_loaded":     len(c.P.Pkgs),
		"functions_in_scope":  nScopeFuncs,
		"blocks_in_scope":     nBlocks,
		"checker_cmd":         fmt.Sprintf("bin/verifcheck -prop %s -tier %s", c.Prop, tier),
		"trusted_base":        []string{"go/types + golang.org/x/tools go/packages, go/ssa, callgraph/vta v0.29.0", "the rule tables in /verif/checker/rules"},
		"exhaustive":          false,
		"load_s":              c.P.LoadTime.Seconds(),
		"ssa_s":               c.P.SSATime.Seconds(),
		"normalisation": map[string]interface{}{
			"what":                  "calls of same-package unexported helpers outside the rule vocabulary are inlined at source level (in memory) before SSA construction; see DESIGN.md §9.10",
			"helper_calls_inlined":  relSites(c.P.Repo, c.P.NormSites),
			"helpers_left_as_calls": c.P.NormSkipped,
			"notes":                 c.P.NormNotes,
			"symbols_renamed_back":  c.P.Renames,
		},
	}
	for k, v := range extra {
		cov[k] = v
	}
	ev := map[string]interface{}{
		"property_id": c.Prop,
		"tier":        tier,
		"seed":        seed,
		"level":       level,
		"coverage":    cov,
		"assumptions": assumptions,
		"wall_s":      time.Since(started).Seconds(),
		"violations":  res.Violations + res.Undecided,
	}
	b, _ := json.MarshalIndent(ev, "", " ")
	if err := os.WriteFile(filepath.Join(evDir, c.Prop+".json"), append(b, '\n'), 0o644); err != nil {
		fmt.Printf("FAIL cannot write evidence: %v\n", err)
		return 2
	}
	fmt.Printf("SUMMARY property=%s obligations=%d ok=%d known=%d fail=%d undecided=%d\n", c.Prop, len(c.Obs), res.OK, res.Known, res.Violations, res.Undecided)
	if exit != 0 {
		fmt.Printf("VIOLATION property=%s replay=%s\n", c.Prop, violPath)
	}
	return exit
}

func relSites(repo string, sites []string) []string {
	out := make([]string, 0, len(sites))
	for _, s := range sites {
		out = append(out, strings.TrimPrefix(strings.TrimPrefix(s, repo), "/"))
	}
	return out
}
