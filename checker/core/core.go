// Package core loads the repository under analysis (type-checked syntax + SSA)
// and provides the obligation/report plumbing shared by all rules.
package core

import (
	"fmt"
	"go/ast"
	"go/token"
	"go/types"
	"os"
	"path/filepath"
	"sort"
	"strings"
	"sync"
	"time"

	"golang.org/x/tools/go/callgraph"
	"golang.org/x/tools/go/callgraph/cha"
	"golang.org/x/tools/go/callgraph/vta"
	"golang.org/x/tools/go/packages"
	"golang.org/x/tools/go/ssa"
	"golang.org/x/tools/go/ssa/ssautil"

	"verif/checker/eng"
)

// ModPath is the module path of the repository under analysis.
const ModPath = "github.com/emitter-io/emitter"

// Prog is the loaded program.
type Prog struct {
	Repo     string
	Fset     *token.FileSet
	Pkgs     []*packages.Package // all packages of the module (non-test)
	ByPath   map[string]*packages.Package
	SSA      *ssa.Program
	LoadTime time.Duration
	SSATime  time.Duration

	// helper normalisation (normalize.go)
	NormSites   []string          // call sites inlined before analysis
	NormSkipped []string          // helpers left as calls, with the reason
	NormNotes   []string          // fallbacks
	Renames     []string          // symbols renamed back to the pinned vocabulary (rename.go)
	NormOverlay map[string][]byte // the analysed (transformed) sources

	cgOnce sync.Once
	cg     *callgraph.Graph
	chaCG  *callgraph.Graph
	CGTime time.Duration

	icgOnce sync.Once
	icg     *eng.CG

	scopeOnce sync.Once
	scope     []*ssa.Function

	declOnce sync.Once
	decls    map[*types.Func]*ast.FuncDecl
	declFile map[*ast.FuncDecl]*packages.Package
}

// outOfScope lists packages that are loaded but are not production code.
var outOfScope = map[string]bool{
	ModPath + "/internal/service/fake":           true,
	ModPath + "/internal/network/mock":           true,
	ModPath + "/internal/provider/contract/mock": true,
	ModPath + "/internal/command/load":           true,
	ModPath + "/internal/network/http":           false,
}

// InScope reports whether the package is production code of the module.
func InScope(path string) bool {
	if path != ModPath && !strings.HasPrefix(path, ModPath+"/") {
		return false
	}
	return !outOfScope[path]
}

// NoNormalize disables the helper normalisation (debugging).
var NoNormalize = os.Getenv("VERIF_NO_NORMALIZE") != ""

func loadPkgs(dir string, overlay map[string][]byte) ([]*packages.Package, int, string, error) {
	env := []string{}
	for _, e := range os.Environ() {
		// GOSUMDB=off and GOTOOLCHAIN=local break the toolchain switch of /repo (go 1.24).
		if strings.HasPrefix(e, "GOSUMDB=") || strings.HasPrefix(e, "GOTOOLCHAIN=") || strings.HasPrefix(e, "GOWORK=") || strings.HasPrefix(e, "GOFLAGS=") || strings.HasPrefix(e, "GOPROXY=") {
			continue
		}
		env = append(env, e)
	}
	env = append(env, "GOFLAGS=-mod=mod", "GOPROXY=off", "GOWORK=off")
	cfg := &packages.Config{
		Mode:    packages.LoadAllSyntax,
		Dir:     dir,
		Env:     env,
		Overlay: overlay,
		Tests:   false,
	}
	pkgs, err := packages.Load(cfg, "./...")
	if err != nil {
		return nil, 0, "", fmt.Errorf("packages.Load: %w", err)
	}
	if len(pkgs) == 0 {
		return nil, 0, "", fmt.Errorf("no packages loaded from %s", dir)
	}
	nerr := 0
	firstErr := ""
	for _, pk := range pkgs {
		for _, e := range pk.Errors {
			nerr++
			if firstErr == "" {
				firstErr = e.Error()
			}
		}
	}
	return pkgs, nerr, firstErr, nil
}

// Load loads the repository at dir. overlay may be nil.
func Load(dir string, overlay map[string][]byte) (*Prog, error) {
	t0 := time.Now()
	pkgs, nerr, firstErr, err := loadPkgs(dir, overlay)
	if err != nil {
		return nil, err
	}
	p := &Prog{Repo: dir, ByPath: map[string]*packages.Package{}}
	for _, pk := range pkgs {
		if len(pk.IgnoredFiles) > 0 {
			for _, f := range pk.IgnoredFiles {
				if strings.HasSuffix(f, ".go") {
					return nil, fmt.Errorf("package %s has build-constrained file %s which would escape analysis", pk.PkgPath, f)
				}
			}
		}
	}
	if nerr > 0 {
		return nil, fmt.Errorf("%d load/type errors, first: %s", nerr, firstErr)
	}
	// helper normalisation (see normalize.go): up to four rounds (nested helpers; tail recursion turned into a loop, then inlined)
	if !NoNormalize {
		cur := overlay
		// rename normalisation (see rename.go): types first, then everything owned by them
		for pass := 0; pass < 2 && PinnedSymbols != ""; pass++ {
			pairs := detectRenames(pkgs, pass == 0)
			if len(pairs) == 0 {
				continue
			}
			curNow := cur
			ov := renameOverlay(pkgs, pairs, func(fn string) []byte {
				if b, ok := curNow[fn]; ok {
					return b
				}
				b, _ := os.ReadFile(fn)
				return b
			})
			next := map[string][]byte{}
			for k, v := range cur {
				next[k] = v
			}
			for k, v := range ov {
				next[k] = v
			}
			pk2, n2, first2, err2 := loadPkgs(dir, next)
			if err2 != nil || n2 > 0 {
				p.NormNotes = append(p.NormNotes, fmt.Sprintf("rename pass %d abandoned (renamed files did not type-check: %v %s); analysed as written", pass, err2, first2))
				continue
			}
			for _, pr := range pairs {
				p.Renames = append(p.Renames, fmt.Sprintf("%s %s.%s -> %s", pr.from.Kind, pr.from.Owner, pr.from.Name, pr.to))
			}
			pkgs, cur = pk2, next
		}
		nz := &normalizer{overlay: map[string][]byte{}}
		for k, v := range cur {
			nz.overlay[k] = v
		}
		for round := 1; round <= 4; round++ {
			nz.round = round
			nz.fset = pkgs[0].Fset
			before := len(nz.sites)
			changed := nz.normalizeRound(pkgs)
			if len(changed) == 0 {
				break
			}
			next := map[string][]byte{}
			for k, v := range cur {
				next[k] = v
			}
			for _, files := range changed {
				for fn, b := range files {
					next[fn] = b
				}
			}
			pk2, n2, first2, err2 := loadPkgs(dir, next)
			if err2 == nil && n2 > 0 {
				// analyse the packages whose transformed files do not type-check untransformed
				for _, pk := range pk2 {
					if len(pk.Errors) == 0 {
						continue
					}
					for fn := range changed[pk.PkgPath] {
						if orig, ok := cur[fn]; ok {
							next[fn] = orig
						} else {
							delete(next, fn)
						}
					}
				}
				p.NormNotes = append(p.NormNotes, fmt.Sprintf("round %d: transformed files did not type-check (%s); those packages are analysed as written", round, first2))
				nz.sites = nz.sites[:before]
				pk2, n2, first2, err2 = loadPkgs(dir, next)
			}
			if err2 != nil || n2 > 0 {
				p.NormNotes = append(p.NormNotes, fmt.Sprintf("round %d abandoned: %v %s", round, err2, first2))
				nz.sites = nz.sites[:before]
				break
			}
			pkgs, cur = pk2, next
			nz.overlay = next
		}
		p.NormSites = nz.sites
		for s := range nz.skipped {
			p.NormSkipped = append(p.NormSkipped, s)
		}
		sort.Strings(p.NormSkipped)
		p.NormOverlay = cur
	}
	for _, pk := range pkgs {
		p.ByPath[pk.PkgPath] = pk
		p.Fset = pk.Fset
	}
	sort.Slice(pkgs, func(i, j int) bool { return pkgs[i].PkgPath < pkgs[j].PkgPath })
	p.Pkgs = pkgs
	p.LoadTime = time.Since(t0)
	t1 := time.Now()
	prog, _ := ssautil.AllPackages(pkgs, ssa.InstantiateGenerics)
	prog.Build()
	p.SSA = prog
	p.SSATime = time.Since(t1)
	// index stores to package-level variables (production functions + package initialisers)
	idx := p.ScopeFuncs()
	for _, pk := range pkgs {
		if InScope(pk.PkgPath) {
			if sp := prog.Package(pk.Types); sp != nil {
				if ini := sp.Func("init"); ini != nil {
					idx = append(idx, ini)
				}
			}
		}
	}
	eng.IndexGlobals(idx)
	return p, nil
}

// Pkg returns the package with the given path relative to the module ("" = main).
func (p *Prog) Pkg(rel string) *packages.Package {
	path := ModPath
	if rel != "" {
		path += "/" + rel
	}
	return p.ByPath[path]
}

// SSAPkg returns the SSA package.
func (p *Prog) SSAPkg(rel string) *ssa.Package {
	pk := p.Pkg(rel)
	if pk == nil {
		return nil
	}
	return p.SSA.Package(pk.Types)
}

// Func resolves a package-level function or method. recv "" for functions;
// recv may be "T" (looked up on both T and *T).
func (p *Prog) Func(rel, recv, name string) *ssa.Function {
	sp := p.SSAPkg(rel)
	if sp == nil {
		return nil
	}
	if recv == "" {
		return sp.Func(name)
	}
	tn, ok := sp.Pkg.Scope().Lookup(recv).(*types.TypeName)
	if !ok {
		return nil
	}
	for _, t := range []types.Type{tn.Type(), types.NewPointer(tn.Type())} {
		ms := p.SSA.MethodSets.MethodSet(t)
		for i := 0; i < ms.Len(); i++ {
			sel := ms.At(i)
			if sel.Obj().Name() == name && sel.Obj().Pkg() == sp.Pkg {
				// only methods declared directly on the type (not promoted)
				if len(sel.Index()) == 1 {
					return p.SSA.MethodValue(sel)
				}
			}
		}
	}
	return nil
}

// Type resolves a named type.
func (p *Prog) Type(rel, name string) *types.Named {
	pk := p.Pkg(rel)
	if pk == nil {
		return nil
	}
	tn, ok := pk.Types.Scope().Lookup(name).(*types.TypeName)
	if !ok {
		return nil
	}
	n, _ := tn.Type().(*types.Named)
	return n
}

// Const resolves a package-level constant object.
func (p *Prog) Const(rel, name string) *types.Const {
	pk := p.Pkg(rel)
	if pk == nil {
		return nil
	}
	c, _ := pk.Types.Scope().Lookup(name).(*types.Const)
	return c
}

// Pos renders a position relative to the repo root.
func (p *Prog) Pos(pos token.Pos) string {
	if !pos.IsValid() {
		return "-"
	}
	ps := p.Fset.Position(pos)
	f := ps.Filename
	if r, err := filepath.Rel(p.Repo, f); err == nil && !strings.HasPrefix(r, "..") {
		f = r
	}
	return fmt.Sprintf("%s:%d", f, ps.Line)
}

// ScopeFuncs returns all source functions (incl. anonymous) of production packages.
func (p *Prog) ScopeFuncs() []*ssa.Function {
	p.scopeOnce.Do(func() { p.scope = p.scopeFuncs() })
	return p.scope
}

func (p *Prog) scopeFuncs() []*ssa.Function {
	var out []*ssa.Function
	dead := p.inlinedAway()
	for fn := range ssautil.AllFunctions(p.SSA) {
		if fn.Pkg == nil || fn.Synthetic != "" || fn.Blocks == nil {
			continue
		}
		if !InScope(fn.Pkg.Pkg.Path()) {
			continue
		}
		root := fn
		for root.Parent() != nil {
			root = root.Parent()
		}
		if dead[root] {
			continue
		}
		out = append(out, fn)
	}
	sort.Slice(out, func(i, j int) bool {
		if out[i].Pos() != out[j].Pos() {
			return out[i].Pos() < out[j].Pos()
		}
		return out[i].String() < out[j].String()
	})
	return out
}

// inlinedAway returns the helpers that the normalisation inlined at every place they are used:
// unexported declared functions outside the rule vocabulary to which no reference is left in
// production code. They are unreachable in the analysed program and are not analysed on their
// own (their body is analysed where it was inlined).
func (p *Prog) inlinedAway() map[*ssa.Function]bool {
	dead := map[*ssa.Function]bool{}
	if len(p.NormSites) == 0 {
		return dead
	}
	cand := map[*ssa.Function]bool{}
	var all []*ssa.Function
	for fn := range ssautil.AllFunctions(p.SSA) {
		if fn.Pkg == nil || fn.Blocks == nil || !InScope(fn.Pkg.Pkg.Path()) {
			continue
		}
		all = append(all, fn)
		obj, _ := fn.Object().(*types.Func)
		if obj == nil || fn.Parent() != nil || fn.Synthetic != "" || obj.Exported() {
			continue
		}
		if Vocabulary != nil && Vocabulary(helperID(obj)) {
			continue
		}
		if obj.Name() == "init" || obj.Name() == "main" {
			continue
		}
		cand[fn] = true
	}
	// any remaining reference (call, go, defer, function value, method value) keeps it alive
	for _, fn := range all {
		for _, b := range fn.Blocks {
			for _, in := range b.Instrs {
				for _, op := range in.Operands(nil) {
					if f, ok := (*op).(*ssa.Function); ok && cand[f] && f != fn {
						delete(cand, f)
					}
					if mc, ok := (*op).(*ssa.MakeClosure); ok {
						if f, ok := mc.Fn.(*ssa.Function); ok && f.Synthetic != "" {
							// bound method wrapper: look at the wrapped method
							for _, b2 := range f.Blocks {
								for _, in2 := range b2.Instrs {
									if c, ok := in2.(ssa.CallInstruction); ok {
										if t := c.Common().StaticCallee(); t != nil {
											delete(cand, t)
										}
									}
								}
							}
						}
					}
				}
				if c, ok := in.(ssa.CallInstruction); ok && c.Common().IsInvoke() {
					// interface calls may reach unexported methods of the same package
					for f := range cand {
						if f.Signature.Recv() != nil && f.Name() == c.Common().Method.Name() {
							delete(cand, f)
						}
					}
				}
			}
		}
	}
	for f := range cand {
		dead[f] = true
	}
	return dead
}

// CallGraph returns the VTA call graph (built lazily).
func (p *Prog) CallGraph() *callgraph.Graph {
	p.cgOnce.Do(func() {
		t := time.Now()
		p.chaCG = cha.CallGraph(p.SSA)
		p.cg = vta.CallGraph(ssautil.AllFunctions(p.SSA), p.chaCG)
		p.CGTime = time.Since(t)
	})
	return p.cg
}

// CG returns the in-scope call graph (static + CHA for interfaces + address-taken
// signature matching for function values), restricted to production functions.
func (p *Prog) CG() *eng.CG {
	p.icgOnce.Do(func() {
		t := time.Now()
		p.icg = eng.BuildCG(p.SSA, p.ScopeFuncs())
		p.CGTime = time.Since(t)
	})
	return p.icg
}

// CHA returns the CHA call graph.
func (p *Prog) CHA() *callgraph.Graph {
	p.CallGraph()
	return p.chaCG
}

// Decl returns the syntax of a declared function.
func (p *Prog) Decl(fn *ssa.Function) *ast.FuncDecl {
	p.declOnce.Do(func() {
		p.decls = map[*types.Func]*ast.FuncDecl{}
		p.declFile = map[*ast.FuncDecl]*packages.Package{}
		for _, pk := range p.Pkgs {
			for _, f := range pk.Syntax {
				for _, d := range f.Decls {
					if fd, ok := d.(*ast.FuncDecl); ok {
						if obj, ok := pk.TypesInfo.Defs[fd.Name].(*types.Func); ok {
							p.decls[obj] = fd
							p.declFile[fd] = pk
						}
					}
				}
			}
		}
	})
	if fn == nil {
		return nil
	}
	obj, _ := fn.Object().(*types.Func)
	if obj == nil {
		return nil
	}
	return p.decls[obj]
}

// Info returns the types.Info of the package declaring fn.
func (p *Prog) Info(fn *ssa.Function) *types.Info {
	if fn == nil || fn.Pkg == nil {
		return nil
	}
	pk := p.ByPath[fn.Pkg.Pkg.Path()]
	if pk == nil {
		return nil
	}
	return pk.TypesInfo
}

// Implementers returns the named (non-interface) types of production packages whose
// pointer or value method set implements iface.
func (p *Prog) Implementers(iface *types.Interface) []*types.Named {
	var out []*types.Named
	for _, pk := range p.Pkgs {
		if !InScope(pk.PkgPath) {
			continue
		}
		sc := pk.Types.Scope()
		for _, n := range sc.Names() {
			tn, ok := sc.Lookup(n).(*types.TypeName)
			if !ok || tn.IsAlias() {
				continue
			}
			named, ok := tn.Type().(*types.Named)
			if !ok || types.IsInterface(named) {
				continue
			}
			if types.Implements(named, iface) || types.Implements(types.NewPointer(named), iface) {
				out = append(out, named)
			}
		}
	}
	sort.Slice(out, func(i, j int) bool { return out[i].String() < out[j].String() })
	return out
}

// MethodOf returns the SSA function for method name on named (value or pointer receiver).
func (p *Prog) MethodOf(named *types.Named, name string) *ssa.Function {
	for _, t := range []types.Type{named, types.NewPointer(named)} {
		ms := p.SSA.MethodSets.MethodSet(t)
		for i := 0; i < ms.Len(); i++ {
			sel := ms.At(i)
			if sel.Obj().Name() == name && len(sel.Index()) == 1 {
				return p.SSA.MethodValue(sel)
			}
		}
	}
	return nil
}
