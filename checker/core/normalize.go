package core

// Helper normalisation.
//
// The rules are anchored at functions named in the properties and describe, per anchor, what
// has to happen on its paths. A behaviour-preserving "extract method" refactoring moves part
// of an anchor's body into a new unexported helper of the same package; the rules then no
// longer see the moved code in the anchor. To keep the verdict independent of such
// refactorings, calls of same-package unexported functions that are outside the rule
// vocabulary (no rule mentions their name) are inlined at source level, in memory, before the
// SSA form is built: the statement containing the call is preceded by
//
//	var p T = arg ...; var r T            (fresh names)
//	L: switch { default: <callee body, `return e` rewritten to `r = e; break L`> }
//
// and the call expression is replaced by r. Only calls that are the first call evaluated in
// their statement are moved (Go evaluates calls in lexical order, so nothing is reordered),
// callees with defer/recover/labels/recursion/variadics/generics are left alone, and a package
// whose transformed files do not type-check is analysed untransformed. //line directives keep
// every reported position on the original file and line.

import (
	"bytes"
	"fmt"
	"go/ast"
	"go/token"
	"go/types"
	"os"
	"sort"
	"strings"

	"golang.org/x/tools/go/packages"
)

// Vocabulary tells the normaliser which functions (relpkg.Recv.name) belong to the rule
// vocabulary (those are never inlined). Set by the rules package.
var Vocabulary func(name string) bool

type textEdit struct {
	off, end int
	text     string
}

type declInfo struct {
	fd       *ast.FuncDecl
	filename string
	src      []byte
	file     *ast.File
}

type normalizer struct {
	fset    *token.FileSet
	overlay map[string][]byte
	round   int
	k       int
	sites   []string
	skipped map[string]bool
}

func (n *normalizer) srcOf(filename string) []byte {
	if b, ok := n.overlay[filename]; ok {
		return b
	}
	b, err := os.ReadFile(filename)
	if err != nil {
		return nil
	}
	return b
}

// normalizeRound computes the transformed files of all in-scope packages. It returns
// filename -> new content for the files that changed, grouped by package path.
func (n *normalizer) normalizeRound(pkgs []*packages.Package) map[string]map[string][]byte {
	out := map[string]map[string][]byte{}
	for _, pk := range pkgs {
		if !InScope(pk.PkgPath) || pk.TypesInfo == nil {
			continue
		}
		if len(pk.Syntax) != len(pk.CompiledGoFiles) {
			continue
		}
		decls := map[*types.Func]*declInfo{}
		srcs := make([][]byte, len(pk.Syntax))
		for i, f := range pk.Syntax {
			srcs[i] = n.srcOf(pk.CompiledGoFiles[i])
			for _, d := range f.Decls {
				fd, ok := d.(*ast.FuncDecl)
				if !ok || fd.Body == nil {
					continue
				}
				if obj, ok := pk.TypesInfo.Defs[fd.Name].(*types.Func); ok {
					decls[obj] = &declInfo{fd: fd, filename: pk.CompiledGoFiles[i], src: srcs[i], file: f}
				}
			}
		}
		// tail-recursive new helpers become loops first (tailrec.go); the next round inlines them
		trDone := false
		for i, f := range pk.Syntax {
			tf := n.fset.File(f.Pos())
			if srcs[i] == nil || tf == nil || tf.Size() != len(srcs[i]) {
				continue
			}
			te, names := tailRecEdits(pk, f, tf, srcs[i])
			if len(te) == 0 {
				continue
			}
			if res, ok := applyEdits(srcs[i], te); ok {
				if out[pk.PkgPath] == nil {
					out[pk.PkgPath] = map[string][]byte{}
				}
				out[pk.PkgPath][pk.CompiledGoFiles[i]] = res
				n.sites = append(n.sites, names...)
				trDone = true
			}
		}
		if trDone {
			continue
		}
		for i, f := range pk.Syntax {
			if srcs[i] == nil {
				continue
			}
			// the file's real offsets must match the source we edit
			tf := n.fset.File(f.Pos())
			if tf == nil || tf.Size() != len(srcs[i]) {
				continue
			}
			fn := &fileNorm{n: n, pk: pk, file: f, filename: pk.CompiledGoFiles[i], src: srcs[i], tf: tf, decls: decls, imports: map[string]string{}}
			fn.run()
			if len(fn.edits) == 0 {
				continue
			}
			res, ok := applyEdits(srcs[i], fn.edits)
			if !ok {
				continue
			}
			if out[pk.PkgPath] == nil {
				out[pk.PkgPath] = map[string][]byte{}
			}
			out[pk.PkgPath][pk.CompiledGoFiles[i]] = res
			n.sites = append(n.sites, fn.sites...)
		}
	}
	return out
}

func applyEdits(src []byte, edits []textEdit) ([]byte, bool) {
	sort.SliceStable(edits, func(i, j int) bool {
		if edits[i].off != edits[j].off {
			return edits[i].off < edits[j].off
		}
		return edits[i].end < edits[j].end
	})
	var buf bytes.Buffer
	pos := 0
	for _, e := range edits {
		if e.off < pos || e.end < e.off || e.end > len(src) {
			return nil, false
		}
		buf.Write(src[pos:e.off])
		buf.WriteString(e.text)
		pos = e.end
	}
	buf.Write(src[pos:])
	return buf.Bytes(), true
}

type fileNorm struct {
	n        *normalizer
	pk       *packages.Package
	file     *ast.File
	filename string
	src      []byte
	tf       *token.File
	decls    map[*types.Func]*declInfo
	edits    []textEdit
	imports  map[string]string // path -> alias
	have     map[string]bool   // aliases already imported by an earlier round
	sites    []string
	encl     *types.Func // function declaration being visited
}

func (f *fileNorm) off(p token.Pos) int { return f.tf.Offset(p) }

func (f *fileNorm) run() {
	for _, d := range f.file.Decls {
		fd, ok := d.(*ast.FuncDecl)
		if !ok || fd.Body == nil {
			continue
		}
		f.encl, _ = f.pk.TypesInfo.Defs[fd.Name].(*types.Func)
		ast.Inspect(fd.Body, func(nd ast.Node) bool {
			var list []ast.Stmt
			switch x := nd.(type) {
			case *ast.BlockStmt:
				list = x.List
			case *ast.CaseClause:
				list = x.Body
			case *ast.CommClause:
				list = x.Body
			}
			for _, s := range list {
				f.trySite(s, false)
			}
			if is, ok := nd.(*ast.IfStmt); ok {
				if els, ok := is.Else.(*ast.IfStmt); ok {
					f.trySite(els, true)
				}
			}
			return true
		})
	}
	if len(f.edits) > 0 && len(f.imports) > len(f.have) {
		var paths []string
		for p := range f.imports {
			if !f.have[p] {
				paths = append(paths, p)
			}
		}
		sort.Strings(paths)
		var sb strings.Builder
		for _, p := range paths {
			fmt.Fprintf(&sb, "; import %s %q", f.imports[p], p)
		}
		o := f.off(f.file.Name.End())
		f.edits = append(f.edits, textEdit{o, o, sb.String()})
	}
}

// headerExprs returns the expressions of s evaluated when s starts executing, in
// evaluation order, and whether the call may only be hoisted with the statement's init
// moved in front of it too (wrap mode, for `if init; cond` / `switch init; tag`).
type header struct {
	exprs []ast.Expr
	// index of the first expression that is evaluated after the statement's init
	// (len(exprs) if there is no such split)
	afterInit int
	init      ast.Stmt
	keyword   string
}

func simpleStmtExprs(s ast.Stmt) ([]ast.Expr, bool) {
	switch x := s.(type) {
	case nil:
		return nil, true
	case *ast.ExprStmt:
		return []ast.Expr{x.X}, true
	case *ast.AssignStmt:
		var out []ast.Expr
		out = append(out, x.Lhs...)
		out = append(out, x.Rhs...)
		return out, true
	case *ast.IncDecStmt:
		return []ast.Expr{x.X}, true
	case *ast.SendStmt:
		return []ast.Expr{x.Chan, x.Value}, true
	case *ast.DeclStmt:
		gd, ok := x.Decl.(*ast.GenDecl)
		if !ok || gd.Tok != token.VAR {
			return nil, false
		}
		var out []ast.Expr
		for _, sp := range gd.Specs {
			if vs, ok := sp.(*ast.ValueSpec); ok {
				out = append(out, vs.Values...)
			}
		}
		return out, true
	}
	return nil, false
}

func headerOf(s ast.Stmt) (header, bool) {
	switch x := s.(type) {
	case *ast.ExprStmt, *ast.AssignStmt, *ast.IncDecStmt, *ast.SendStmt, *ast.DeclStmt:
		e, ok := simpleStmtExprs(s)
		return header{exprs: e, afterInit: len(e)}, ok
	case *ast.ReturnStmt:
		return header{exprs: x.Results, afterInit: len(x.Results)}, true
	case *ast.IfStmt:
		e, ok := simpleStmtExprs(x.Init)
		if !ok {
			return header{}, false
		}
		h := header{exprs: append(e, x.Cond), afterInit: len(e), init: x.Init, keyword: "if"}
		if x.Init == nil {
			h.afterInit = len(h.exprs)
		}
		return h, true
	case *ast.SwitchStmt:
		e, ok := simpleStmtExprs(x.Init)
		if !ok {
			return header{}, false
		}
		h := header{exprs: e, afterInit: len(e), init: x.Init, keyword: "switch"}
		if x.Tag != nil {
			h.exprs = append(h.exprs, x.Tag)
		}
		if x.Init == nil {
			h.afterInit = len(h.exprs)
		}
		return h, true
	case *ast.ForStmt:
		e, ok := simpleStmtExprs(x.Init)
		if !ok || x.Init == nil {
			return header{}, false
		}
		return header{exprs: e, afterInit: len(e)}, true
	case *ast.RangeStmt:
		return header{exprs: []ast.Expr{x.X}, afterInit: 1}, true
	}
	return header{}, false
}

var pureBuiltins = map[string]bool{"len": true, "cap": true, "make": true, "new": true, "min": true, "max": true, "real": true, "imag": true, "complex": true}

// firstCall returns the first call evaluated in e; blocked reports that something that must
// not be crossed (conditional evaluation containing calls, a receive, unknown syntax) comes
// first.
func (f *fileNorm) firstCall(e ast.Expr) (call *ast.CallExpr, blocked bool) {
	info := f.pk.TypesInfo
	switch x := e.(type) {
	case nil:
		return nil, false
	case *ast.Ident, *ast.BasicLit, *ast.FuncLit:
		return nil, false
	case *ast.ParenExpr:
		return f.firstCall(x.X)
	case *ast.StarExpr:
		return f.firstCall(x.X)
	case *ast.UnaryExpr:
		if x.Op == token.ARROW {
			return nil, true
		}
		return f.firstCall(x.X)
	case *ast.SelectorExpr:
		return f.firstCall(x.X)
	case *ast.IndexExpr:
		if c, b := f.firstCall(x.X); c != nil || b {
			return c, b
		}
		return f.firstCall(x.Index)
	case *ast.SliceExpr:
		for _, s := range []ast.Expr{x.X, x.Low, x.High, x.Max} {
			if c, b := f.firstCall(s); c != nil || b {
				return c, b
			}
		}
		return nil, false
	case *ast.TypeAssertExpr:
		return f.firstCall(x.X)
	case *ast.KeyValueExpr:
		if c, b := f.firstCall(x.Key); c != nil || b {
			return c, b
		}
		return f.firstCall(x.Value)
	case *ast.CompositeLit:
		for _, el := range x.Elts {
			if c, b := f.firstCall(el); c != nil || b {
				return c, b
			}
		}
		return nil, false
	case *ast.BinaryExpr:
		if x.Op == token.LAND || x.Op == token.LOR {
			if c, b := f.firstCall(x.X); c != nil || b {
				return c, b
			}
			if c, b := f.firstCall(x.Y); c != nil || b {
				return nil, true // conditionally evaluated
			}
			return nil, false
		}
		if c, b := f.firstCall(x.X); c != nil || b {
			return c, b
		}
		return f.firstCall(x.Y)
	case *ast.CallExpr:
		if tv, ok := info.Types[x.Fun]; ok && tv.IsType() {
			if len(x.Args) == 1 {
				return f.firstCall(x.Args[0])
			}
			return nil, true
		}
		if id, ok := ast.Unparen(x.Fun).(*ast.Ident); ok {
			if b, ok := info.Uses[id].(*types.Builtin); ok {
				for _, a := range x.Args {
					if tv, ok := info.Types[a]; ok && tv.IsType() {
						continue
					}
					if c, bl := f.firstCall(a); c != nil || bl {
						return c, bl
					}
				}
				if pureBuiltins[b.Name()] {
					return nil, false
				}
				return nil, true
			}
		}
		// nested calls are evaluated first. An inlinable nested call is moved first (this
		// round); otherwise, if x itself is inlinable, x is moved together with its operands:
		// receiver and arguments become `var` declarations in the same order, so whatever they
		// contain (calls of vocabulary functions, conditional evaluation) keeps its place.
		nested, blocked := f.firstCall(x.Fun)
		if nested == nil && !blocked {
			for _, a := range x.Args {
				if nested, blocked = f.firstCall(a); nested != nil || blocked {
					break
				}
			}
		}
		if nested == nil && !blocked {
			return x, false
		}
		if nested != nil && f.candidate(nested) {
			return nested, false
		}
		if f.candidate(x) {
			return x, false
		}
		return nested, blocked
	}
	return nil, true
}

// candidate reports whether call is a call of a helper the normaliser would try to inline.
func (f *fileNorm) candidate(call *ast.CallExpr) bool {
	callee, _ := f.staticCallee(call)
	if callee == nil || callee.Pkg() != f.pk.Types || callee.Exported() || callee == f.encl {
		return false
	}
	if Vocabulary != nil && Vocabulary(helperID(callee)) {
		return false
	}
	return f.decls[callee] != nil
}

func (f *fileNorm) lineStart(o int) int {
	for o > 0 && f.src[o-1] != '\n' {
		o--
	}
	return o
}

func (f *fileNorm) ownsLineStart(p token.Pos) bool {
	o := f.off(p)
	ls := f.lineStart(o)
	return strings.TrimSpace(string(f.src[ls:o])) == ""
}

func (f *fileNorm) endsLine(p token.Pos) bool {
	o := f.off(p)
	for o < len(f.src) && f.src[o] != '\n' {
		if f.src[o] == '/' && o+1 < len(f.src) && f.src[o+1] == '/' {
			return true
		}
		if f.src[o] != ' ' && f.src[o] != '\t' && f.src[o] != '\r' {
			return false
		}
		o++
	}
	return true
}

func (f *fileNorm) sameLine(a, b token.Pos) bool {
	return f.tf.PositionFor(a, false).Line == f.tf.PositionFor(b, false).Line
}

// staticCallee resolves the called function and the receiver expression (nil for functions).
func (f *fileNorm) staticCallee(call *ast.CallExpr) (*types.Func, ast.Expr) {
	info := f.pk.TypesInfo
	switch fun := ast.Unparen(call.Fun).(type) {
	case *ast.Ident:
		fn, _ := info.Uses[fun].(*types.Func)
		return fn, nil
	case *ast.SelectorExpr:
		sel := info.Selections[fun]
		if sel == nil || sel.Kind() != types.MethodVal || len(sel.Index()) != 1 {
			return nil, nil
		}
		if types.IsInterface(sel.Recv()) {
			return nil, nil
		}
		fn, _ := sel.Obj().(*types.Func)
		return fn, fun.X
	}
	return nil, nil
}

func bodyOK(d *declInfo, self *types.Func, info *types.Info, tail bool) string {
	reason := ""
	lit := 0
	var walk func(nd ast.Node) bool
	walk = func(nd ast.Node) bool {
		if reason != "" {
			return false
		}
		switch x := nd.(type) {
		case *ast.FuncLit:
			lit++
			ast.Inspect(x.Body, walk)
			lit--
			return false
		case *ast.DeferStmt:
			// a deferred call of the helper runs when the helper returns; inlined it would run
			// when the caller returns. Both coincide only for a tail call `return helper(...)`
			// of a helper without named results (a deferred closure cannot alter them).
			if lit == 0 && !tail {
				reason = "defer"
			}
		case *ast.LabeledStmt:
			reason = "label"
		case *ast.BranchStmt:
			if x.Label != nil || x.Tok == token.GOTO {
				reason = "labelled branch"
			}
		case *ast.BasicLit:
			if x.Kind == token.STRING && strings.Contains(x.Value, "\n") {
				reason = "multi-line literal"
			}
		case *ast.CallExpr:
			if id, ok := ast.Unparen(x.Fun).(*ast.Ident); ok {
				if b, ok := info.Uses[id].(*types.Builtin); ok && b.Name() == "recover" && !tail {
					reason = "recover"
				}
				if fn, ok := info.Uses[id].(*types.Func); ok && fn == self {
					reason = "recursive"
				}
			}
			if se, ok := ast.Unparen(x.Fun).(*ast.SelectorExpr); ok {
				if fn, ok := info.Uses[se.Sel].(*types.Func); ok && fn == self {
					reason = "recursive"
				}
			}
		}
		return true
	}
	ast.Inspect(d.fd.Body, walk)
	return reason
}

func (f *fileNorm) skip(callee *types.Func, why string) {
	if f.n.skipped == nil {
		f.n.skipped = map[string]bool{}
	}
	f.n.skipped[callee.FullName()+": "+why] = true
}

// placement kinds of a hoisted helper body
const (
	plPlain    = iota // in front of the statement
	plWrap            // `if init; cond {` -> `{ init; hoist; if cond {` … ` }` (also every `else if`)
	plLoopCond        // `for …; cond; … {` -> `for …; ; … { hoist; if !(cond) { break }`
	plAndSplit        // `if x && y {` -> `if x { hoist; if y {` … ` }` (no else branch)
)

func (f *fileNorm) trySite(s ast.Stmt, elseIf bool) {
	var call *ast.CallExpr
	idx := -1
	kind := plPlain
	var h header
	if fs, isFor := s.(*ast.ForStmt); isFor && fs.Cond != nil && !elseIf {
		// a call in the loop condition (the init statement, if any, must not contain calls:
		// those are handled as plain sites first)
		initExprs, ok := simpleStmtExprs(fs.Init)
		if !ok {
			return
		}
		for _, e := range initExprs {
			if c, b := f.firstCall(e); c != nil || b {
				if c != nil {
					h2, _ := headerOf(s)
					h = h2
					call, idx = c, 0
				}
				goto found
			}
		}
		if c, _ := f.firstCall(fs.Cond); c != nil {
			call, kind = c, plLoopCond
		}
	found:
		if call == nil {
			return
		}
	} else {
		var ok bool
		h, ok = headerOf(s)
		if !ok {
			return
		}
		blocked := false
		for i, e := range h.exprs {
			c, b := f.firstCall(e)
			if c != nil {
				call, idx = c, i
				break
			}
			if b {
				blocked = true
				break
			}
		}
		if call == nil {
			// `if x && y {` without init and else: the first call of y can be hoisted into
			// the then-branch of `if x {`
			is, isIf := s.(*ast.IfStmt)
			if !blocked || !isIf || is.Init != nil || is.Else != nil || elseIf {
				return
			}
			be, isBin := is.Cond.(*ast.BinaryExpr)
			if !isBin || be.Op != token.LAND {
				return
			}
			c, _ := f.firstCall(be.Y)
			if c == nil {
				return
			}
			call, kind = c, plAndSplit
		}
	}
	if kind == plPlain && (elseIf || (h.init != nil && idx >= h.afterInit)) {
		kind = plWrap
	}
	callee, recvExpr := f.staticCallee(call)
	if callee == nil || callee.Pkg() != f.pk.Types || callee.Exported() {
		return
	}
	if Vocabulary != nil && Vocabulary(helperID(callee)) {
		return
	}
	d := f.decls[callee]
	if d == nil || callee == f.encl {
		return
	}
	sig := callee.Type().(*types.Signature)
	if sig.Variadic() || sig.TypeParams() != nil || sig.RecvTypeParams() != nil {
		f.skip(callee, "variadic or generic")
		return
	}
	if sig.Recv() != nil {
		if rt, ok := types.Unalias(derefT(sig.Recv().Type())).(*types.Named); ok && rt.TypeParams() != nil {
			f.skip(callee, "generic receiver")
			return
		}
	}
	if len(call.Args) != sig.Params().Len() || call.Ellipsis.IsValid() {
		f.skip(callee, "argument spread")
		return
	}
	info := f.pk.TypesInfo
	tail := false
	if rs, ok := s.(*ast.ReturnStmt); ok && len(rs.Results) == 1 && ast.Unparen(rs.Results[0]) == call {
		tail = true
		for i := 0; i < sig.Results().Len(); i++ {
			if sig.Results().At(i).Name() != "" {
				tail = false
			}
		}
	}
	if r := bodyOK(d, callee, info, tail); r != "" {
		f.skip(callee, r)
		return
	}
	bodyLines := f.n.fset.PositionFor(d.fd.Body.Rbrace, false).Line - f.n.fset.PositionFor(d.fd.Body.Lbrace, false).Line
	if bodyLines > 80 {
		f.skip(callee, "body too long")
		return
	}
	nres := sig.Results().Len()
	// how is the result used?
	wholeStmtCall := false
	if es, ok := s.(*ast.ExprStmt); ok && ast.Unparen(es.X) == call {
		wholeStmtCall = true
	}
	if nres == 0 && !wholeStmtCall {
		return
	}
	if nres >= 2 && !wholeStmtCall {
		okUse := false
		switch x := s.(type) {
		case *ast.AssignStmt:
			okUse = len(x.Rhs) == 1 && ast.Unparen(x.Rhs[0]) == call
		case *ast.ReturnStmt:
			okUse = len(x.Results) == 1 && ast.Unparen(x.Results[0]) == call
		case *ast.IfStmt:
			if as, ok := x.Init.(*ast.AssignStmt); ok {
				okUse = len(as.Rhs) == 1 && ast.Unparen(as.Rhs[0]) == call
			}
		case *ast.SwitchStmt:
			if as, ok := x.Init.(*ast.AssignStmt); ok {
				okUse = len(as.Rhs) == 1 && ast.Unparen(as.Rhs[0]) == call
			}
		}
		if !okUse {
			f.skip(callee, "tuple result in expression")
			return
		}
	}
	layoutOK := f.sameLine(call.Pos(), call.End())
	switch kind {
	case plPlain:
		layoutOK = layoutOK && f.ownsLineStart(s.Pos())
	case plWrap:
		layoutOK = layoutOK && (elseIf || f.ownsLineStart(s.Pos())) && f.endsLine(s.End())
	case plLoopCond:
		fs := s.(*ast.ForStmt)
		layoutOK = layoutOK && f.sameLine(s.Pos(), fs.Body.Lbrace) && f.endsLine(fs.Body.Lbrace+1)
	case plAndSplit:
		is := s.(*ast.IfStmt)
		layoutOK = layoutOK && f.ownsLineStart(s.Pos()) && f.endsLine(s.End()) && f.sameLine(s.Pos(), is.Body.Lbrace)
	}
	if kind != plPlain && (nres != 1 || wholeStmtCall) {
		layoutOK = false
	}
	if !layoutOK {
		f.skip(callee, "statement layout")
		return
	}
	// the statement must not be the target of a label (checked by the caller's list walk:
	// labelled statements are not list elements themselves)

	f.n.k++
	prefix := fmt.Sprintf("__n%d_%d_", f.n.round, f.n.k)
	qual := func(p *types.Package) string {
		if p == f.pk.Types {
			return ""
		}
		return f.importAlias(p.Path())
	}
	cpos := f.n.fset.Position(s.Pos()) // adjusted: the original file and line
	callerLine, callerFile := cpos.Line, cpos.Filename
	pin := fmt.Sprintf("/*line %s:%d:1*/", callerFile, callerLine)

	// ---- parameter, receiver and result variables
	rename := map[types.Object]string{}
	var decl strings.Builder
	decl.WriteString(pin)
	addVar := func(obj *types.Var, nameHint string, t types.Type, init string) string {
		name := prefix + nameHint
		if obj != nil {
			rename[obj] = name
		}
		ts := types.TypeString(t, qual)
		if init != "" {
			fmt.Fprintf(&decl, "var %s %s = %s; _ = %s; ", name, ts, init, name)
		} else {
			fmt.Fprintf(&decl, "var %s %s; _ = %s; ", name, ts, name)
		}
		return name
	}
	text := func(a, b token.Pos) string { return string(f.src[f.off(a):f.off(b)]) }
	if sig.Recv() != nil {
		if recvExpr == nil {
			f.n.k--
			return
		}
		rt := sig.Recv().Type()
		xt := info.TypeOf(recvExpr)
		rtxt := "(" + text(recvExpr.Pos(), recvExpr.End()) + ")"
		_, rp := rt.Underlying().(*types.Pointer)
		_, xp := xt.Underlying().(*types.Pointer)
		if rp && !xp {
			rtxt = "&" + rtxt
		} else if !rp && xp {
			rtxt = "*" + rtxt
		}
		addVar(sig.Recv(), "recv", rt, rtxt)
	}
	// parameter objects as declared in the callee's syntax (sig.Params() are the same objects)
	for i := 0; i < sig.Params().Len(); i++ {
		pv := sig.Params().At(i)
		addVar(pv, fmt.Sprintf("p%d", i), pv.Type(), text(call.Args[i].Pos(), call.Args[i].End()))
	}
	var resNames []string
	for i := 0; i < nres; i++ {
		rv := sig.Results().At(i)
		var obj *types.Var
		if rv.Name() != "" && rv.Name() != "_" {
			obj = rv
		}
		resNames = append(resNames, addVar(obj, fmt.Sprintf("r%d", i), rv.Type(), ""))
	}

	// ---- body text with renames and rewritten returns
	dinfo := f.pk.TypesInfo
	dtf := f.n.fset.File(d.fd.Pos())
	if dtf == nil || dtf.Size() != len(d.src) {
		f.n.k--
		return
	}
	var bedits []textEdit
	label := prefix + "L"
	usesLabel := false
	bad := ""
	lit := 0
	var walk func(nd ast.Node) bool
	walk = func(nd ast.Node) bool {
		if bad != "" {
			return false
		}
		switch x := nd.(type) {
		case *ast.FuncLit:
			lit++
			ast.Inspect(x.Type, walk)
			ast.Inspect(x.Body, walk)
			lit--
			return false
		case *ast.ReturnStmt:
			if lit > 0 {
				return true
			}
			usesLabel = true
			ro := dtf.Offset(x.Pos())
			if len(x.Results) == 0 {
				bedits = append(bedits, textEdit{ro, ro + len("return"), "{ break " + label + " }"})
			} else {
				bedits = append(bedits, textEdit{ro, ro + len("return"), "{ " + strings.Join(resNames, ", ") + " = "})
				eo := dtf.Offset(x.End())
				bedits = append(bedits, textEdit{eo, eo, "; break " + label + " }"})
			}
		case *ast.SelectorExpr:
			// field/method names are never renamed; only X is visited
			ast.Inspect(x.X, walk)
			return false
		case *ast.KeyValueExpr:
			// struct literal keys are field names
			if id, ok := x.Key.(*ast.Ident); ok {
				if v, ok := dinfo.Uses[id].(*types.Var); ok && v.IsField() {
					ast.Inspect(x.Value, walk)
					return false
				}
			}
		case *ast.Ident:
			obj := dinfo.ObjectOf(x)
			if obj == nil {
				return true
			}
			if nn, ok := rename[obj]; ok {
				bedits = append(bedits, textEdit{dtf.Offset(x.Pos()), dtf.Offset(x.End()), nn})
				return true
			}
			switch o := obj.(type) {
			case *types.PkgName:
				bedits = append(bedits, textEdit{dtf.Offset(x.Pos()), dtf.Offset(x.End()), f.importAlias(o.Imported().Path())})
			default:
				// package-level and universe objects must mean the same at the call site
				if obj.Parent() == f.pk.Types.Scope() || obj.Parent() == types.Universe {
					sc := f.pk.Types.Scope().Innermost(call.Pos())
					if sc == nil {
						bad = "no scope"
						return false
					}
					if _, got := sc.LookupParent(x.Name, call.Pos()); got != obj {
						bad = "identifier " + x.Name + " is shadowed at the call site"
						return false
					}
				}
			}
		}
		return true
	}
	ast.Inspect(d.fd.Body, walk)
	if bad != "" {
		f.skip(callee, bad)
		f.n.k--
		return
	}
	lb, rb := dtf.Offset(d.fd.Body.Lbrace)+1, dtf.Offset(d.fd.Body.Rbrace)
	var rel []textEdit
	for _, e := range bedits {
		if e.off < lb || e.end > rb {
			continue
		}
		rel = append(rel, textEdit{e.off - lb, e.end - lb, e.text})
	}
	body, ok := applyEdits(d.src[lb:rb], rel)
	if !ok {
		f.skip(callee, "overlapping body edits")
		f.n.k--
		return
	}

	var hoist strings.Builder
	hoist.WriteString(decl.String())
	hoist.WriteString("\n")
	hoist.WriteString(pin)
	if usesLabel {
		hoist.WriteString(label + ": switch { default:\n")
	} else {
		hoist.WriteString("switch { default:\n")
	}
	bpos := f.n.fset.Position(d.fd.Body.Lbrace)
	fmt.Fprintf(&hoist, "//line %s:%d\n", bpos.Filename, bpos.Line)
	hoist.WriteString(" ")
	hoist.Write(body)
	if !bytes.HasSuffix(body, []byte("\n")) {
		hoist.WriteString("\n")
	}
	hoist.WriteString(pin + "}\n")
	resync := fmt.Sprintf("//line %s:%d\n", callerFile, callerLine)

	// ---- replacement of the call expression
	repl := strings.Join(resNames, ", ")
	var callEdit textEdit
	if wholeStmtCall {
		callEdit = textEdit{f.off(s.Pos()), f.off(s.End()), "{}"}
	} else {
		callEdit = textEdit{f.off(call.Pos()), f.off(call.End()), repl}
	}
	switch kind {
	case plWrap:
		// `if init; cond {` -> `{ init` NL hoist `if cond {` ... ` }`
		closing := textEdit{f.off(s.End()), f.off(s.End()), " }"}
		if idx < h.afterInit || h.init == nil {
			// the call is in the init statement (or there is none): everything stays in place
			o := f.off(s.Pos())
			f.edits = append(f.edits, textEdit{o, o, "{\n" + hoist.String() + resync}, callEdit, closing)
		} else {
			var condPos token.Pos
			switch x := s.(type) {
			case *ast.IfStmt:
				condPos = x.Cond.Pos()
			case *ast.SwitchStmt:
				condPos = x.Tag.Pos()
			}
			initTxt := text(h.init.Pos(), h.init.End())
			f.edits = append(f.edits,
				textEdit{f.off(s.Pos()), f.off(condPos), "{ " + initTxt + "\n" + hoist.String() + resync + h.keyword + " "},
				callEdit, closing)
		}
	case plLoopCond:
		fs := s.(*ast.ForStmt)
		cond := text(fs.Cond.Pos(), call.Pos()) + repl + text(call.End(), fs.Cond.End())
		eol := f.off(fs.Body.Lbrace) + 1
		for eol < len(f.src) && f.src[eol] != '\n' {
			eol++
		}
		bl := f.n.fset.Position(fs.Body.Lbrace)
		ins := "\n" + hoist.String() + pin + "if !(" + cond + ") { break }\n" + fmt.Sprintf("//line %s:%d", bl.Filename, bl.Line+1)
		f.edits = append(f.edits,
			textEdit{f.off(fs.Cond.Pos()), f.off(fs.Cond.End()), ""},
			textEdit{eol, eol, ins})
	case plAndSplit:
		is := s.(*ast.IfStmt)
		be := is.Cond.(*ast.BinaryExpr)
		f.edits = append(f.edits,
			textEdit{f.off(be.X.End()), f.off(be.Y.Pos()), " {\n" + hoist.String() + resync + "if "},
			callEdit,
			textEdit{f.off(s.End()), f.off(s.End()), " }"})
	default:
		ls := f.lineStart(f.off(s.Pos()))
		f.edits = append(f.edits, textEdit{ls, ls, hoist.String() + resync}, callEdit)
	}
	f.sites = append(f.sites, fmt.Sprintf("%s:%d %s", callerFile, callerLine, callee.FullName()))
}

// helperID renders relpkg.Recv.name (package path relative to the module).
func helperID(f *types.Func) string {
	pkg := strings.TrimPrefix(strings.TrimPrefix(f.Pkg().Path(), ModPath), "/")
	if pkg == "" {
		pkg = "."
	}
	sig := f.Type().(*types.Signature)
	if sig.Recv() != nil {
		if n, ok := types.Unalias(derefT(sig.Recv().Type())).(*types.Named); ok {
			return pkg + "." + n.Obj().Name() + "." + f.Name()
		}
	}
	return pkg + "." + f.Name()
}

func derefT(t types.Type) types.Type {
	if p, ok := t.Underlying().(*types.Pointer); ok {
		return p.Elem()
	}
	return t
}

func (f *fileNorm) importAlias(path string) string {
	if a, ok := f.imports[path]; ok {
		return a
	}
	var sb strings.Builder
	sb.WriteString("__imp_")
	for _, r := range path {
		if (r >= 'a' && r <= 'z') || (r >= 'A' && r <= 'Z') || (r >= '0' && r <= '9') {
			sb.WriteRune(r)
		} else {
			sb.WriteRune('_')
		}
	}
	alias := sb.String()
	for _, im := range f.file.Imports {
		if im.Name != nil && im.Name.Name == alias {
			// added by an earlier round
			if f.have == nil {
				f.have = map[string]bool{}
			}
			f.have[path] = true
		}
	}
	f.imports[path] = alias
	return alias
}
