package core

import (
	"os"
	"os/exec"
	"path/filepath"
	"strings"
	"testing"
)

// The normalisation must preserve behaviour: the fixture program prints a trace of calls made
// from every supported call position; the transformed sources must compile and print the same.
func TestNormalizePreservesBehaviour(t *testing.T) {
	fix, err := filepath.Abs("testdata/normfix")
	if err != nil {
		t.Fatal(err)
	}
	old := Vocabulary
	Vocabulary = nil
	defer func() { Vocabulary = old }()
	p, err := Load(fix, nil)
	if err != nil {
		t.Fatal(err)
	}
	if len(p.NormNotes) > 0 {
		t.Fatalf("normalisation fell back: %v", p.NormNotes)
	}
	if len(p.NormSites) < 14 {
		t.Fatalf("expected at least 14 inlined call sites, got %d: %v", len(p.NormSites), p.NormSites)
	}
	shadowSkipped := false
	for _, s := range p.NormSkipped {
		if strings.Contains(s, "usesGlobal") && strings.Contains(s, "shadowed") {
			shadowSkipped = true
		}
	}
	if !shadowSkipped {
		t.Errorf("usesGlobal must not be inlined where errEmpty is shadowed; skipped=%v", p.NormSkipped)
	}
	// no call of an inlinable helper may be left, except the shadowed one
	for _, f := range p.ScopeFuncs() {
		if strings.HasSuffix(f.Name(), "isEmpty") || strings.HasSuffix(f.Name(), "hasParent") {
			t.Errorf("helper %s should have been inlined away", f.Name())
		}
	}
	run := func(dir string) string {
		cmd := exec.Command("go", "run", ".")
		cmd.Dir = dir
		cmd.Env = append(os.Environ(), "GOFLAGS=-mod=mod", "GOPROXY=off", "GOWORK=off")
		out, err := cmd.CombinedOutput()
		if err != nil {
			t.Fatalf("go run in %s: %v\n%s", dir, err, out)
		}
		return string(out)
	}
	want := run(fix)
	tmp := t.TempDir()
	err = filepath.Walk(fix, func(path string, info os.FileInfo, err error) error {
		if err != nil {
			return err
		}
		rel, _ := filepath.Rel(fix, path)
		dst := filepath.Join(tmp, rel)
		if info.IsDir() {
			return os.MkdirAll(dst, 0o755)
		}
		b, ok := p.NormOverlay[path]
		if !ok {
			if b, err = os.ReadFile(path); err != nil {
				return err
			}
		}
		return os.WriteFile(dst, b, 0o644)
	})
	if err != nil {
		t.Fatal(err)
	}
	got := run(tmp)
	if got != want {
		t.Errorf("transformed program behaves differently:\n--- original\n%s\n--- transformed\n%s", want, got)
	}
}
