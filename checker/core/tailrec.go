package core

// Tail-recursion elimination (part of the helper normalisation).
//
// "Loop -> recursion" is a behaviour-preserving refactoring the inliner cannot undo: a
// recursive helper is never inlined. A new unexported helper (outside the rule vocabulary)
// all of whose self-calls are tail calls is therefore first rewritten, in memory, into the
// loop it stands for:
//
//	func (p *T) h(a A, b B) { BODY … p.h(x, y) }   ->   func (p *T) h(a A, b B) { for { BODY … { a, b = x, y; continue }; return } }
//
// after which the next round inlines it like any other helper. Conditions (otherwise the
// helper is left alone): no named results, no blank/unnamed parameters, the receiver of the
// self-call is the receiver variable itself, no function literal, defer, go statement or
// address-of a parameter in the body (a loop reuses the parameter variables, a recursion has
// fresh ones per frame), and every self-call is a statement in tail position (last statement
// of the body or of an if/else/switch-case arm in tail position, or directly followed by a
// bare `return`) or the sole operand of a `return`.

import (
	"fmt"
	"go/ast"
	"go/token"
	"go/types"
	"strings"

	"golang.org/x/tools/go/packages"
)

func isSelfCall(info *types.Info, e ast.Expr, self *types.Func) (*ast.CallExpr, bool) {
	call, ok := ast.Unparen(e).(*ast.CallExpr)
	if !ok {
		return nil, false
	}
	switch fun := ast.Unparen(call.Fun).(type) {
	case *ast.Ident:
		if fn, _ := info.Uses[fun].(*types.Func); fn == self {
			return call, true
		}
	case *ast.SelectorExpr:
		if fn, _ := info.Uses[fun.Sel].(*types.Func); fn == self {
			return call, true
		}
	}
	return nil, false
}

// tailRecEdits returns the edits turning tail-recursive new helpers of the file into loops.
func tailRecEdits(pk *packages.Package, file *ast.File, tf *token.File, src []byte) (edits []textEdit, names []string) {
	info := pk.TypesInfo
	for _, d := range file.Decls {
		fd, ok := d.(*ast.FuncDecl)
		if !ok || fd.Body == nil || len(fd.Body.List) == 0 {
			continue
		}
		self, _ := info.Defs[fd.Name].(*types.Func)
		if self == nil || self.Exported() || (Vocabulary != nil && Vocabulary(helperID(self))) {
			continue
		}
		sig := self.Type().(*types.Signature)
		if sig.Variadic() || sig.TypeParams() != nil || sig.RecvTypeParams() != nil {
			continue
		}
		// all self-calls
		var selfCalls []*ast.CallExpr
		okBody := true
		params := map[types.Object]bool{}
		for i := 0; i < sig.Params().Len(); i++ {
			p := sig.Params().At(i)
			if p.Name() == "" || p.Name() == "_" {
				okBody = false
			}
			params[p] = true
		}
		for i := 0; i < sig.Results().Len(); i++ {
			if sig.Results().At(i).Name() != "" {
				okBody = false
			}
		}
		ast.Inspect(fd.Body, func(n ast.Node) bool {
			switch x := n.(type) {
			case *ast.FuncLit, *ast.DeferStmt, *ast.GoStmt, *ast.LabeledStmt:
				okBody = false
			case *ast.UnaryExpr:
				if id, isId := ast.Unparen(x.X).(*ast.Ident); isId && x.Op == token.AND && params[info.Uses[id]] {
					okBody = false
				}
			case *ast.CallExpr:
				if c, is := isSelfCall(info, x, self); is {
					selfCalls = append(selfCalls, c)
				}
			}
			return true
		})
		if !okBody || len(selfCalls) == 0 {
			continue
		}
		// tail positions
		tail := map[*ast.CallExpr]ast.Stmt{} // call -> statement to replace
		var visit func(list []ast.Stmt)
		visitStmt := func(s ast.Stmt, last bool) {}
		visit = func(list []ast.Stmt) {
			n := len(list)
			for i, s := range list {
				last := i == n-1
				if !last && i == n-2 {
					if rs, ok := list[n-1].(*ast.ReturnStmt); ok && len(rs.Results) == 0 {
						last = true // followed by a bare return
					}
				}
				visitStmt(s, last)
			}
		}
		visitStmt = func(s ast.Stmt, last bool) {
			switch x := s.(type) {
			case *ast.ExprStmt:
				if c, is := isSelfCall(info, x.X, self); is && last && sig.Results().Len() == 0 {
					tail[c] = s
				}
			case *ast.ReturnStmt:
				if len(x.Results) == 1 {
					if c, is := isSelfCall(info, x.Results[0], self); is {
						tail[c] = s
					}
				}
			case *ast.BlockStmt:
				if last {
					visit(x.List)
				} else {
					for _, y := range x.List {
						visitStmt(y, false)
					}
				}
			case *ast.IfStmt:
				if last {
					visit(x.Body.List)
				} else {
					for _, y := range x.Body.List {
						visitStmt(y, false)
					}
				}
				if x.Else != nil {
					visitStmt(x.Else, last)
				}
			case *ast.SwitchStmt:
				for _, cc := range x.Body.List {
					if cl, ok := cc.(*ast.CaseClause); ok {
						if last {
							visit(cl.Body)
						} else {
							for _, y := range cl.Body {
								visitStmt(y, false)
							}
						}
					}
				}
			case *ast.ForStmt, *ast.RangeStmt, *ast.SelectStmt, *ast.TypeSwitchStmt:
				// `return self(..)` inside a loop is still a tail call, but `continue` would bind
				// to the inner loop: not handled
				ast.Inspect(s, func(n ast.Node) bool {
					if c, ok := n.(*ast.CallExpr); ok {
						if cc, is := isSelfCall(info, c, self); is {
							delete(tail, cc)
							okBody = false
						}
					}
					return true
				})
			}
		}
		visit(fd.Body.List)
		if !okBody || len(tail) != len(selfCalls) {
			continue
		}
		// receiver of every self-call is the receiver variable
		var recvObj types.Object
		if fd.Recv != nil && len(fd.Recv.List) == 1 && len(fd.Recv.List[0].Names) == 1 {
			recvObj = info.Defs[fd.Recv.List[0].Names[0]]
		}
		var lhs []string
		for i := 0; i < sig.Params().Len(); i++ {
			lhs = append(lhs, sig.Params().At(i).Name())
		}
		var fe []textEdit
		for c, st := range tail {
			if se, ok := ast.Unparen(c.Fun).(*ast.SelectorExpr); ok {
				id, isId := ast.Unparen(se.X).(*ast.Ident)
				if !isId || recvObj == nil || info.Uses[id] != recvObj {
					okBody = false
					break
				}
			}
			if len(c.Args) != len(lhs) || c.Ellipsis.IsValid() || tf.PositionFor(st.Pos(), false).Line != tf.PositionFor(st.End(), false).Line {
				okBody = false
				break
			}
			repl := "{ continue }"
			if len(lhs) > 0 {
				var args []string
				for _, a := range c.Args {
					args = append(args, string(src[tf.Offset(a.Pos()):tf.Offset(a.End())]))
				}
				repl = "{ " + strings.Join(lhs, ", ") + " = " + strings.Join(args, ", ") + "; continue }"
			}
			fe = append(fe, textEdit{tf.Offset(st.Pos()), tf.Offset(st.End()), repl})
		}
		if !okBody {
			continue
		}
		lb := tf.Offset(fd.Body.Lbrace) + 1
		rb := tf.Offset(fd.Body.Rbrace)
		closing := " }"
		if sig.Results().Len() == 0 {
			closing = "; return }"
			// keep `; return` off a comment-only or statement line end: it goes right before the brace
		}
		fe = append(fe, textEdit{lb, lb, " for {"}, textEdit{rb, rb, closing})
		edits = append(edits, fe...)
		names = append(names, fmt.Sprintf("%s (tail recursion -> loop)", self.FullName()))
	}
	return edits, names
}
