// Command verifcheck decides the structural rules of one property on the current
// source tree of the repository (no emitter code is executed).
package main

import (
	"flag"
	"fmt"
	"os"
	"runtime/debug"
	"strconv"
	"strings"
	"time"

	"verif/checker/core"
	"verif/checker/rules"
)

func main() {
	prop := flag.String("prop", "", "property id (C01..C20) or 'all'")
	tier := flag.String("tier", "quick", "quick|thorough")
	repo := flag.String("repo", "/repo", "repository root to analyse")
	verif := flag.String("verif", "/verif", "verification directory (known-findings.txt, evidence/)")
	list := flag.Bool("list", false, "list registered properties")
	var overlays multiFlag
	flag.Var(&overlays, "overlay", "relpath=file: analyse relpath (relative to -repo) with the content of file (in-memory overlay; repeatable)")
	mutOnly := flag.Bool("mutants", false, "run only the overlay mutants of -prop and print a table (checker self-validation)")
	dump := flag.String("dump", "", "debug: print the SSA of functions whose name contains this string")
	norm := flag.String("norm", "", "debug: print the helper call sites inlined before analysis; with a file suffix, also the transformed file")
	flag.StringVar(&onlyMutant, "only", "", "with -mutants: run only mutants whose id contains this string")
	symbols := flag.Bool("symbols", false, "print the symbol table of -repo (regenerates rules/pinned_symbols.txt; run only when the rules are re-confirmed against a new tree)")
	flag.Parse()
	if *symbols {
		core.PinnedSymbols = ""
		core.NoNormalize = true
		p, err := core.Load(*repo, nil)
		if err != nil {
			fmt.Println(err)
			os.Exit(2)
		}
		fmt.Print(core.SymbolTable(p.Pkgs))
		return
	}
	if *list {
		for _, id := range rules.IDs() {
			fmt.Println(id)
		}
		return
	}
	if t := os.Getenv("VERIF_TIER"); t == "quick" || t == "thorough" {
		if !isFlagSet("tier") {
			*tier = t
		}
	}
	var seed int64
	if s := os.Getenv("VERIF_SEED"); s != "" {
		seed, _ = strconv.ParseInt(s, 10, 64)
	}
	ids := []string{*prop}
	if *prop == "all" {
		ids = rules.IDs()
	}
	for _, id := range ids {
		if rules.Props[id] == nil {
			fmt.Printf("unknown property %q\n", id)
			os.Exit(2)
		}
	}
	started := time.Now()
	if *mutOnly {
		det, tot, skipped, lines := runMutants(*repo, *verif, ids)
		for _, l := range lines {
			fmt.Println(l)
		}
		fmt.Printf("MUTANTS detected=%d of %d (skipped %d)\n", det, tot, skipped)
		return
	}
	ov, err := loadOverlays(*repo, overlays)
	if err != nil {
		fmt.Println("overlay:", err)
		os.Exit(2)
	}
	p, err := core.Load(*repo, ov)
	if err != nil {
		// fail closed: a tree that does not load/type-check cannot be verified
		for _, id := range ids {
			fmt.Printf("UNDECIDED %s load — %v\n", id, err)
			fmt.Printf("VIOLATION property=%s replay=%s\n", id, "bin/verifcheck -prop "+id)
		}
		os.Exit(1)
	}
	if *norm != "" {
		for _, s := range p.Renames {
			fmt.Println("renamed", s)
		}
		for _, s := range p.NormSites {
			fmt.Println("inlined", s)
		}
		for _, s := range p.NormSkipped {
			fmt.Println("kept   ", s)
		}
		for _, s := range p.NormNotes {
			fmt.Println("note   ", s)
		}
		for fn, b := range p.NormOverlay {
			if *norm != "list" && strings.HasSuffix(fn, *norm) {
				fmt.Printf("==== %s\n%s\n", fn, b)
			}
		}
		return
	}
	if *dump != "" {
		for _, f := range p.ScopeFuncs() {
			if strings.Contains(f.String(), *dump) {
				f.WriteTo(os.Stdout)
			}
		}
		return
	}
	// watchdog: an analysis that does not terminate must not pass silently
	time.AfterFunc(20*time.Minute, func() {
		for _, id := range ids {
			fmt.Printf("UNDECIDED %s watchdog — analysis did not terminate within 20 minutes\n", id)
			fmt.Printf("VIOLATION property=%s replay=%s\n", id, "bin/verifcheck -prop "+id)
		}
		os.Exit(1)
	})
	exit := 0
	for _, id := range ids {
		if code := runOne(p, id, *tier, seed, *verif, *repo, started); code > exit {
			exit = code
		}
		started = time.Now()
	}
	os.Exit(exit)
}

func runOne(p *core.Prog, id, tier string, seed int64, verif, repo string, started time.Time) (code int) {
	pr := rules.Props[id]
	c := core.NewCtx(id, p)
	func() {
		defer func() {
			if r := recover(); r != nil {
				c.Undecided(id+".panic", "checker", 0, fmt.Sprintf("checker panicked: %v\n%s", r, debug.Stack()))
			}
		}()
		rules.SelfTest(c)
		pr.Run(c)
		rules.StateRule(c, id)
		if tier == "thorough" && pr.Thorough != nil {
			pr.Thorough(c)
		}
	}()
	var extra map[string]interface{}
	if tier == "thorough" {
		det, tot, skipped, lines := runMutants(repo, verif, []string{id})
		extra = map[string]interface{}{
			"mutants_applied":  tot,
			"mutants_detected": det,
			"mutants_skipped":  skipped,
			"mutants":          lines,
			"mutants_note":     "checker self-validation: one-edit overlay mutants of /repo files analysed in memory; an undetected mutant is a checker weakness and does not change the verdict on the tree",
		}
		for _, l := range lines {
			fmt.Println(l)
		}
	}
	return c.Finish(verif, tier, seed, started, "other", pr.Explanation, pr.Assumptions, extra)
}

func isFlagSet(name string) bool {
	set := false
	flag.Visit(func(f *flag.Flag) {
		if f.Name == name {
			set = true
		}
	})
	return set
}
