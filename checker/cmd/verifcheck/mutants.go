package main

import (
	"fmt"
	"os"
	"os/exec"
	"path/filepath"
	"sort"
	"strings"
	"sync"
)

var onlyMutant string

type multiFlag []string

func (m *multiFlag) String() string     { return strings.Join(*m, ",") }
func (m *multiFlag) Set(s string) error { *m = append(*m, s); return nil }

func loadOverlays(repo string, specs []string) (map[string][]byte, error) {
	if len(specs) == 0 {
		return nil, nil
	}
	ov := map[string][]byte{}
	for _, s := range specs {
		i := strings.Index(s, "=")
		if i < 0 {
			return nil, fmt.Errorf("bad overlay %q", s)
		}
		b, err := os.ReadFile(s[i+1:])
		if err != nil {
			return nil, err
		}
		ov[filepath.Join(repo, s[:i])] = b
	}
	return ov, nil
}

// Mutant is a one-edit variant of a repository file used to validate the checker.
type Mutant struct {
	ID     string `json:"id"`
	Prop   string `json:"prop"`
	File   string `json:"file"`
	Old    string `json:"old"`
	New    string `json:"new"`
	Expect string `json:"expect"` // substring expected in a FAIL/UNDECIDED line
	Note   string `json:"note,omitempty"`
}

// parseMutants reads the *.mut files: blocks of
//
//	=== <id>
//	prop: Cnn
//	file: relative/path.go
//	expect: substring of the FAIL line
//	--- old
//	<text to replace, must occur exactly once>
//	--- new
//	<replacement>
func parseMutants(verif string) ([]Mutant, error) {
	files, _ := filepath.Glob(filepath.Join(verif, "checker", "mutants", "*.mut"))
	sort.Strings(files)
	var out []Mutant
	for _, f := range files {
		b, err := os.ReadFile(f)
		if err != nil {
			return nil, err
		}
		var cur *Mutant
		mode := 0 // 0 header, 1 old, 2 new
		var old, nw []string
		flush := func() {
			if cur != nil {
				cur.Old = strings.Join(old, "\n")
				cur.New = strings.Join(nw, "\n")
				out = append(out, *cur)
			}
			cur, old, nw, mode = nil, nil, nil, 0
		}
		for _, line := range strings.Split(strings.TrimSuffix(string(b), "\n"), "\n") {
			switch {
			case strings.HasPrefix(line, "=== "):
				flush()
				cur = &Mutant{ID: strings.TrimSpace(line[4:])}
			case cur == nil:
			case line == "--- old":
				mode = 1
			case line == "--- new":
				mode = 2
			case mode == 1:
				old = append(old, line)
			case mode == 2:
				nw = append(nw, line)
			case strings.HasPrefix(line, "prop:"):
				cur.Prop = strings.TrimSpace(line[5:])
			case strings.HasPrefix(line, "file:"):
				cur.File = strings.TrimSpace(line[5:])
			case strings.HasPrefix(line, "expect:"):
				cur.Expect = strings.TrimSpace(line[7:])
			case strings.HasPrefix(line, "note:"):
				cur.Note = strings.TrimSpace(line[5:])
			}
		}
		flush()
	}
	if len(out) == 0 {
		return nil, fmt.Errorf("no mutants found under %s/checker/mutants", verif)
	}
	return out, nil
}

// runMutants applies each mutant of the given properties as an in-memory overlay in a
// subprocess and checks that the property's check fails naming the expected instance.
func runMutants(repo, verif string, props []string) (detected, total, skipped int, lines []string) {
	all, err := parseMutants(verif)
	if err != nil {
		return 0, 0, 0, []string{"MUTANT-FILE: " + err.Error()}
	}
	want := map[string]bool{}
	for _, p := range props {
		want[p] = true
	}
	var sel []Mutant
	for _, m := range all {
		if want[m.Prop] && (onlyMutant == "" || strings.Contains(m.ID, onlyMutant)) {
			sel = append(sel, m)
		}
	}
	tmp, err := os.MkdirTemp("", "verifmut")
	if err != nil {
		return 0, 0, 0, []string{"cannot create temp dir: " + err.Error()}
	}
	defer os.RemoveAll(tmp)
	self, _ := os.Executable()
	results := make([]string, len(sel))
	status := make([]int, len(sel)) // 1 detected, 0 missed, -1 skipped
	sem := make(chan struct{}, 4)
	var wg sync.WaitGroup
	for i, m := range sel {
		src, err := os.ReadFile(filepath.Join(repo, m.File))
		if err != nil || strings.Count(string(src), m.Old) != 1 {
			status[i] = -1
			results[i] = fmt.Sprintf("MUTANT %-40s SKIPPED (patch does not apply exactly once)", m.ID)
			continue
		}
		mutated := strings.Replace(string(src), m.Old, m.New, 1)
		dir := filepath.Join(tmp, fmt.Sprintf("m%d", i))
		os.MkdirAll(filepath.Join(dir, "evidence"), 0o755)
		mf := filepath.Join(dir, "mutated.go")
		os.WriteFile(mf, []byte(mutated), 0o644)
		if kf, err := os.ReadFile(filepath.Join(verif, "known-findings.txt")); err == nil {
			os.WriteFile(filepath.Join(dir, "known-findings.txt"), kf, 0o644)
		}
		wg.Add(1)
		go func(i int, m Mutant, dir, mf string) {
			defer wg.Done()
			sem <- struct{}{}
			defer func() { <-sem }()
			cmd := exec.Command(self, "-prop", m.Prop, "-tier", "quick", "-repo", repo, "-verif", dir, "-overlay", m.File+"="+mf)
			out, _ := cmd.CombinedOutput()
			hit := false
			loadErr := ""
			for _, l := range strings.Split(string(out), "\n") {
				if (strings.HasPrefix(l, "FAIL") || strings.HasPrefix(l, "UNDECIDED")) && strings.Contains(l, m.Expect) {
					hit = true
				}
				if strings.Contains(l, " load — ") {
					loadErr = l
				}
			}
			switch {
			case loadErr != "":
				status[i] = -1
				results[i] = fmt.Sprintf("MUTANT %-40s SKIPPED (does not type-check: %s)", m.ID, loadErr)
			case hit:
				status[i] = 1
				results[i] = fmt.Sprintf("MUTANT %-40s DETECTED (%s)", m.ID, m.Expect)
			default:
				results[i] = fmt.Sprintf("MUTANT %-40s MISSED (expected a failure naming %q)", m.ID, m.Expect)
			}
		}(i, m, dir, mf)
	}
	wg.Wait()
	for i := range sel {
		switch status[i] {
		case 1:
			detected++
			total++
		case 0:
			total++
		case -1:
			skipped++
		}
	}
	sort.Strings(results)
	return detected, total, skipped, results
}
